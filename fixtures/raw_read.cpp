#include <algorithm>
// Positive fixtures: constructs the zero-expected rules must keep matching (pushed through the same extractor).
#include "OP2Utility.h"
#include <vector>
#include <stdexcept>
#include <array>
#include <string>
#include <cstdint>

namespace fixture {
using namespace OP2Utility;

// R-TAINT raw-size: a (pointer, size) read whose size is not bounded by the buffer it addresses
void RawReadIntoVector(Stream::Reader& reader, uint32_t lengthFromFile) {
	std::vector<uint16_t> entries;
	entries.resize(lengthFromFile / 14);
	reader.Read(entries.data(), lengthFromFile);
}

// R-WHOCALLS: a parser that uses the non-throwing partial read
uint32_t ParserUsingReadPartial(Stream::Reader& reader) {
	uint32_t value = 0;
	reader.ReadPartial(&value, sizeof(value));
	return value;
}

// R-INDEX: a subscript by a caller-supplied index with no guard
struct Table {
	std::vector<int> items;
	int Get(std::size_t index) { return items[index]; }
};

// R-NARROW (sign): an unsigned 64-bit offset reinterpreted as signed before a bounds test
struct Cursor {
	std::size_t position;
	void Back(uint64_t offset) {
		const auto target = static_cast<int64_t>(position) - static_cast<int64_t>(offset);
		if (target < 0) { throw 1; }
		position = static_cast<std::size_t>(target);
	}
};

// R-NARROW (implicit): a symbol moved into a 16-bit slot number before the range test, so the test sees the wrapped value
struct Codes {
	std::vector<uint16_t> table;
	uint16_t count;
	uint16_t Find(uint16_t code) {
		const uint16_t slot = code + count;
		if (slot >= table.size()) { throw 1; }
		return table[slot];
	}
};

// R-INIT (static): a function-local static initialised from a parameter keeps the first call's value
inline uint32_t CachedLength(uint32_t height) {
	static const uint32_t length = 32 * height;
	return length;
}

// R-TAINT (divisor): a division by a value taken from a file, with nothing that excludes zero
inline uint32_t RowsThatFit(uint32_t totalBytes, uint32_t rowBytesFromFile) {
	return totalBytes / rowBytesFromFile;
}

// R-NOEXCEPT: a noexcept accessor that still calls a refusing verifier (the refusal becomes std::terminate)
struct Nodes {
	unsigned count;
	void VerifyInBounds(unsigned i) const { if (i >= count) throw std::runtime_error("out of range"); }
	bool IsLast(unsigned i) const noexcept { VerifyInBounds(i); return i + 1 == count; }
};

// R-GUARD (subscript guards): a bounds refusal that also turns away the last valid index
struct Entries {
	std::vector<uint16_t> items;
	uint16_t At(std::size_t index) const {
		if (index + 1 >= items.size()) { throw std::out_of_range("index"); }
		return items[index];
	}
};

// R-TAINT (C string): a fixed buffer filled from a stream and then read as a NUL-terminated string
inline std::string MarkerText(Stream::Reader& reader) {
	std::array<char, 10> marker;
	reader.Read(marker);
	return std::string(marker.data());
}

// R-TAINT (clamp): the announced size is silently cut down to what the stream has left, so a truncated file is accepted
inline std::vector<uint8_t> ReadClamped(Stream::BidirectionalReader& reader, uint32_t announced) {
	const uint64_t remaining = reader.Length() - reader.Position();
	std::vector<uint8_t> data(static_cast<std::size_t>(std::min<uint64_t>(announced, remaining)));
	reader.Read(data);
	return data;
}

// R-TAINT (npos): the position find() reports is used in arithmetic without excluding "not found"
inline std::vector<std::string> SplitNames(const std::string& table) {
	std::vector<std::string> names;
	std::size_t start = 0;
	while (start < table.size()) {
		const auto end = table.find('\0', start);
		names.push_back(table.substr(start, end - start));
		start = end + 1;
	}
	return names;
}

// R-ERR (discarded exception): the exception object is built but never thrown
inline void CheckTotal(uint32_t expected, uint32_t actual) {
	if (expected != actual) {
		std::runtime_error("Totals do not match: " + std::to_string(actual));
	}
}

// R-ORDER (no delete on refusal): the clean-up handler also covers the check made before the file is created
inline void SaveChecked(const std::string& path, std::size_t size) {
	try {
		if (size > UINT32_MAX) { throw std::runtime_error("too large"); }
		Stream::FileWriter writer(path);
		writer.Write(static_cast<uint32_t>(size));
	}
	catch (...) {
		XFile::DeletePath(path);
		throw;
	}
}
}

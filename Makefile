# setup: build the LibTooling facts extractor from files on disk only (offline).
LLVM_CXXFLAGS := $(shell llvm-config-14 --cxxflags)
LLVM_LIBS := /usr/lib/llvm-14/lib/libclang-cpp.so.14 /usr/lib/llvm-14/lib/libLLVM-14.so

.PHONY: setup clean
setup: bin/op2facts

bin/op2facts: tools/op2facts/op2facts.cc
	@mkdir -p bin
	clang++ $(LLVM_CXXFLAGS) -fno-rtti -O1 -Wno-unused-parameter $< -o $@ $(LLVM_LIBS)

clean:
	rm -rf bin .cache reports

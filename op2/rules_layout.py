"""R-LAYOUT / R-NOPAD / R-ENUMBITS: on-disk record layouts and format constants against spec/layout.json."""
import json
import os

from .extract import AnalysisBroken
from .report import ok, bad, VERIF

_spec = None


def spec():
    global _spec
    if _spec is None:
        with open(os.path.join(VERIF, "spec", "layout.json")) as fh:
            _spec = json.load(fh)
    return _spec


def const_value(F, q):
    v = F.vars.get(q)
    if v is None:
        raise AnalysisBroken("format constant %s not found" % q)
    val = v.get("value")
    if v.get("record") == "OP2Utility::Tag" and isinstance(val, dict):
        t = val.get("text")
        chars = t.get("_M_elems") if isinstance(t, dict) else t
        return "".join(chr(c) for c in chars) if chars else val
    if isinstance(val, dict) and "_M_elems" in val:
        return val["_M_elems"]
    return val


def constant_by_role(F, frozen_qn, user_qn, nparams=None):
    """The namespace-scope constant a format description knows as `frozen_qn`, on the current tree: that variable if it still
    exists; otherwise the one variable of the same type that function `user_qn` (the code the description says uses it)
    mentions - a renamed or moved constant is still the constant that code compares / writes."""
    if frozen_qn in F.vars:
        return frozen_qn
    fns = [f for f in F.fns(user_qn) if nparams is None or len(f.params) == nparams]
    cands = set()

    def walk(t):
        if isinstance(t, tuple):
            if len(t) == 2 and t[0] == "global" and t[1] in F.vars and isinstance(F.vars[t[1]].get("value"), (dict, list)):
                cands.add(t[1])
            for x in t:
                walk(x)
    for f in fns:
        for nd in f.nodes:
            if nd["k"] in ("DeclRefExpr",):
                walk(f.term(nd["id"]))
    if len(cands) != 1:
        raise AnalysisBroken("format constant %s not found (and no single constant is used by %s)" % (frozen_qn, user_qn))
    return cands.pop()


def r_layout(F, records=(), enums=(), constants=()):
    sp = spec()
    out = []
    for q in records:
        want = sp["records"].get(q)
        if want is None:
            raise AnalysisBroken("no layout description for %s" % q)
        r = F.record(q)
        site = "%s:%s" % (r["loc"]["file"].split("/")[-1], r["loc"]["line"])
        got = [[f["name"], f["offset_bits"], f["width_bits"]] for f in r["fields"]]
        inst = "%s#layout" % q
        req = "%s is %d bytes with fields %s" % (q.split("::")[-1], want["size_bytes"],
                                                 ", ".join("%s@%d:%d" % tuple(f) for f in want["fields"]))
        if r["size_bits"] // 8 == want["size_bytes"] and got == want["fields"]:
            out.append(ok("R-LAYOUT", inst, site, q, req, "record layout computed by clang matches the format description"))
        else:
            diffs = []
            if r["size_bits"] // 8 != want["size_bytes"]:
                diffs.append("size %d" % (r["size_bits"] // 8))
            for i in range(max(len(got), len(want["fields"]))):
                g = got[i] if i < len(got) else None
                w = want["fields"][i] if i < len(want["fields"]) else None
                if g != w:
                    diffs.append("field %d: found %s, format says %s" % (i, g, w))
            out.append(bad("R-LAYOUT", inst, site, q, req, "; ".join(diffs[:4])))
        # bit-fields whose whole range is data (indices, lengths, counts) must read back unsigned
        for fname in list(sp.get("unsigned_bitfields", {}).get(q, [])) + list(sp.get("unsigned_fields", {}).get(q, [])):
            fl = [f for f in r["fields"] if f["name"] == fname]
            if not fl:
                continue
            f = fl[0]
            signed = f.get("is")
            if f.get("enum_qn") and f["enum_qn"] in F.enums:
                signed = F.enums[f["enum_qn"]].get("is")
            inst = "%s::%s#unsigned" % (q, fname)
            req = "the %d-bit field %s holds 0..%d (it must not be sign-extended when read)" % (f["width_bits"], fname, (1 << f["width_bits"]) - 1)
            if not signed:
                out.append(ok("R-LAYOUT", inst, "%s:%s" % (r["loc"]["file"].split("/")[-1], f["line"]), q, req, "declared %s" % f.get("ct")))
            else:
                out.append(bad("R-LAYOUT", inst, "%s:%s" % (r["loc"]["file"].split("/")[-1], f["line"]), q, req,
                               "declared with signed type %s: values >= %d read back negative" % (f.get("ct"), 1 << (f["width_bits"] - 1))))
        # no padding bytes: field widths tile the record
        total = sum(f["width_bits"] for f in r["fields"])
        inst = "%s#nopad" % q
        if total == r["size_bits"] and not r.get("polymorphic"):
            out.append(ok("R-NOPAD", inst, site, q, "the record has no padding bits (nothing indeterminate is serialised with it)",
                          "%d field bits == %d record bits" % (total, r["size_bits"]), nontrivial=False))
        else:
            out.append(bad("R-NOPAD", inst, site, q, "the record has no padding bits (nothing indeterminate is serialised with it)",
                           "%d field bits in a %d-bit record" % (total, r["size_bits"])))
    for q in enums:
        want = sp["enums"].get(q)
        e = F.enums.get(q)
        if want is None or e is None:
            raise AnalysisBroken("enum %s missing (spec or source)" % q)
        got = {x["name"]: x["value"] for x in e["enumerators"]}
        site = "%s:%s" % (e["loc"]["file"].split("/")[-1], e["loc"]["line"])
        inst = "%s#values" % q
        if got == want:
            out.append(ok("R-LAYOUT", inst, site, q, "enumerator values are those of the format", "%d enumerators" % len(got)))
        else:
            d = [k for k in set(got) | set(want) if got.get(k) != want.get(k)]
            out.append(bad("R-LAYOUT", inst, site, q, "enumerator values are those of the format",
                           "differs at %s" % ", ".join("%s (found %s, format %s)" % (k, got.get(k), want.get(k)) for k in sorted(d)[:4])))
    for q in constants:
        # (frozen name, name on the current tree) when the constant was found by its role rather than by its name
        q0, q = q if isinstance(q, tuple) else (q, q)
        if q0 not in sp["constants"]:
            raise AnalysisBroken("no format value recorded for constant %s" % q0)
        want = sp["constants"][q0]
        got = const_value(F, q)
        v = F.vars[q]
        site = "%s:%s" % (v["loc"]["file"].split("/")[-1], v["loc"]["line"])
        inst = "%s#value" % q
        if got == want:
            out.append(ok("R-LAYOUT", inst, site, q, "format constant has the documented value", repr(want)[:60]))
        else:
            out.append(bad("R-LAYOUT", inst, site, q, "format constant has the documented value", "found %r, format says %r" % (got, want)))
    return out


def r_enumbits(F, records):
    """Every bit-field of enumeration type can represent all its enumerators as the compiler reads them back."""
    out = []
    for q in records:
        r = F.record(q)
        for f in r["fields"]:
            if not f.get("bitfield") or not f.get("enum_qn"):
                continue
            e = F.enums.get(f["enum_qn"])
            if e is None:
                continue
            vals = [x["value"] for x in e["enumerators"]]
            w = f["width_bits"]
            signed = bool(e.get("is"))
            lo, hi = (-(1 << (w - 1)), (1 << (w - 1)) - 1) if signed else (0, (1 << w) - 1)
            site = "%s:%s" % (r["loc"]["file"].split("/")[-1], f["line"])
            inst = "%s::%s#enum-bitfield" % (q, f["name"])
            req = "all enumerators of %s are representable in the %d-bit field as read back (underlying type %s)" % (
                f["enum_qn"].split("::")[-1], w, e.get("underlying"))
            badv = [x["name"] for x in e["enumerators"] if not (lo <= x["value"] <= hi)]
            if not badv:
                out.append(ok("R-ENUMBITS", inst, site, q, req, "values %d..%d fit [%d, %d]" % (min(vals), max(vals), lo, hi)))
            else:
                out.append(bad("R-ENUMBITS", inst, site, q, req,
                               "%d enumerators (%s …) fall outside [%d, %d]: a signed underlying type makes the top bit a sign bit" % (
                                   len(badv), ", ".join(badv[:3]), lo, hi)))
    return out

"""Rules over the archive classes: R-INDEX, raw read extents, R-COPYEXT, loop progress, R-FSTREAM."""
from .extract import AnalysisBroken
from .facts import CALLS, CTORS, fmt_term
from .flow import CFG, Engine, Summaries, cond_facts, mentions, norm_cmp, fmt_fact, final_site_facts, subterms
from .prove import Width, prove_le, definitions, expand
from .report import ok, bad
from .invariants import class_invariants, ctor_only_functions

CONTAINER_PREFIXES = ("std::vector", "std::basic_string", "std::array")


def facts_txt(site):
    return "; ".join(sorted(fmt_fact(f) for f in site if f[0] not in ("ev", "called"))) or "none"


def public_roots(F, cls):
    rec = F.record(cls)
    acc = {m["key"]: m for m in rec["methods"]}
    out = []
    for fn in F.functions.values():
        if fn.cls != cls:
            continue
        m = acc.get(fn.key)
        if fn.d.get("ctor"):
            out.append((fn, "ctor"))
        elif m and m["access"] == "public" and not fn.d.get("static"):
            out.append((fn, "public"))
    return sorted(out, key=lambda x: x[0].key)


def subscript_sites(fn):
    """(node, base term, index term) for container / array subscripts in fn."""
    out = []
    for nd in fn.nodes:
        if nd["k"] == "CXXOperatorCallExpr" and nd.get("op") == "[]" and len(nd.get("args", [])) == 2:
            if (nd.get("mrec") or "").startswith(CONTAINER_PREFIXES):
                out.append((nd, fn.term(nd["args"][0]), fn.term(nd["args"][1]), None))
        elif nd["k"] == "ArraySubscriptExpr":
            ks = fn.kids(nd["id"])
            base = fn.n(fn.strip(ks[0], casts=False))
            # fixed-size array: extent from the base's type
            b2 = fn.n(fn.strip(ks[0]))
            ct = b2.get("ct", "")
            ext = None
            if ct.endswith("]") and "[" in ct:
                try:
                    ext = int(ct[ct.rindex("[") + 1:-1])
                except ValueError:
                    ext = None
            out.append((nd, fn.term(ks[0]), fn.term(ks[1]), ext))
    return out


def r_index(F, S, cls, inv, extra_roots=(), only_members=True, label="R-INDEX"):
    """Every subscript of a this-member container reached from a public entry point is within size()."""
    eng = Engine(F, S)
    roots = public_roots(F, cls)
    for fn, kind in roots:
        eng.analyze(fn, frozenset() if kind == "ctor" else frozenset(inv))
    for fn in extra_roots:
        eng.analyze(fn, frozenset())
    out = []
    n = 0
    for fn in sorted(F.functions.values(), key=lambda f: f.key):
        if fn.cls != cls:
            continue
        for (nd, base, idx, ext) in subscript_sites(fn):
            if only_members and not (base[0] == "mem" and base[1] == ("this",)):
                continue
            site = final_site_facts(eng, fn, nd["id"])
            if site is None:
                continue        # not reachable from any public entry point
            n += 1
            inst = "%s#%s[%s]" % (fn.qn, fmt_term(base), fmt_term(idx))
            bound = ("const", ext) if ext is not None else ("size", base)
            req = "%s < %s" % (fmt_term(idx), fmt_term(bound))
            if idx[0] == "const" and ext is not None and idx[1] < ext:
                out.append(ok(label, inst, fn.loc(nd["id"]), fn.qn, req, "constant index", nontrivial=False))
            elif prove_le(site, idx, bound, strict=True):
                out.append(ok(label, inst, fn.loc(nd["id"]), fn.qn, req, "guard facts / class invariants at the site entail it"))
            else:
                out.append(bad(label, inst, fn.loc(nd["id"]), fn.qn, req, "not entailed; facts at site: " + facts_txt(site)))
    return out, n, eng


def raw_io_extents(F, S, fns, side="Read"):
    """Calls of the (pointer, size) overload: size must not exceed the extent the pointer addresses."""
    out = []
    n = 0
    for fn in fns:
        eng = Engine(F, S)
        eng.analyze(fn, frozenset())
        for nd in fn.nodes:
            if nd["k"] != "CXXMemberCallExpr" or nd.get("fname") != side:
                continue
            ps = nd.get("params", [])
            if len(ps) != 2 or not ps[0].get("ptr"):
                continue
            n += 1
            ptr = fn.term(nd["args"][0])
            sz = fn.xterm(nd["args"][1])
            if sz[0] == "op" and sz[1] == "*" and ("const", 1) in (sz[2], sz[3]):
                sz = sz[3] if sz[2] == ("const", 1) else sz[2]
            site = final_site_facts(eng, fn, nd["id"]) or set()
            inst = "%s#%s(%s, %s)" % (fn.qn, side, fmt_term(ptr), fmt_term(sz))
            extent = None
            why = ""
            pn = fn.n(fn.strip(nd["args"][0]))
            if ptr[0] == "call" and ptr[1].endswith("::data") or ptr[0] == "call" and ptr[1].endswith("::c_str"):
                cont = ptr[2]
                es = elem_size(fn, nd["args"][0])
                extent = ("op", "*", ("size", cont), ("const", es)) if es and es != 1 else ("size", cont)
                why = "container storage"
            elif ptr[0] == "un" and ptr[1] == "&" and ptr[2][0] == "idx" and ptr[2][2] == ("const", 0):
                extent = ("size", ptr[2][1])
                why = "container storage"
            elif ptr[0] == "un" and ptr[1] == "&":
                sn = fn.n(fn.strip(fn.kids(fn.strip(nd["args"][0]))[0])) if fn.kids(fn.strip(nd["args"][0])) else {}
                osz = obj_size(F, sn)
                if osz is not None:
                    extent = ("const", osz)
                    why = "object of %d bytes" % osz
            elif ptr[0] == "str":
                extent = ("const", len(ptr[1]) + 1)
                why = "string literal"
            elif ptr[0] == "var":
                # a pointer handed in by the caller together with its size: the (pointer, length) pair itself
                extent = None
            req = "size %s <= extent of %s" % (fmt_term(sz), fmt_term(ptr))
            if extent is None:
                # pointer/length pairs that travel together: accept when both are values produced by one call
                pair = same_origin_pair(fn, nd)
                if pair:
                    out.append(ok("R-TAINT", inst, fn.loc(nd["id"]), fn.qn, req, pair))
                else:
                    out.append(bad("R-TAINT", inst, fn.loc(nd["id"]), fn.qn, req, "extent of the buffer is unknown to the rule"))
                continue
            if sz == extent or prove_le(site, sz, extent) or _size_plus_one(sz, extent, ptr):
                out.append(ok("R-TAINT", inst, fn.loc(nd["id"]), fn.qn, req, "%s: %s" % (why, fmt_term(extent)), nontrivial=sz[0] != "const"))
            else:
                out.append(bad("R-TAINT", inst, fn.loc(nd["id"]), fn.qn, req,
                               "extent is %s (%s); facts: %s" % (fmt_term(extent), why, facts_txt(site))))
    return out, n


def _size_plus_one(sz, extent, ptr):
    # c_str() addresses size()+1 bytes
    return ptr[0] == "call" and ptr[1].endswith("::c_str") and sz == ("op", "+", extent, ("const", 1))


def same_origin_pair(fn, nd):
    """buffer = f(&length); Write(buffer, length): both come from the same producing call."""
    ptr = fn.term(nd["args"][0])
    sz = fn.term(nd["args"][1])
    if ptr[0] != "var" or sz[0] != "var":
        return None
    for d in fn.nodes:
        if d["k"] == "DeclStmt":
            for dd in d.get("decls", []):
                if ("var", dd.get("n"), dd.get("d")) == ptr and "init" in dd:
                    it = fn.term(dd["init"])
                    if it[0] == "call" and any(a == ("un", "&", sz) for a in it[3]):
                        return "pointer and length are the pair returned by %s" % it[1].split("::")[-1]
    return None


def elem_size(fn, arg):
    nd = fn.n(fn.strip(arg))
    ct = nd.get("ct", "")
    if ct.startswith("const "):
        ct = ct[6:]
    sizes = {"char *": 1, "unsigned char *": 1, "signed char *": 1, "void *": None}
    if ct in sizes:
        return sizes[ct]
    return None


def obj_size(F, nd):
    ct = nd.get("ct", "")
    if nd.get("iw"):
        return nd["iw"] // 8
    rec = nd.get("rec")
    if rec and rec in F.records:
        return F.records[rec]["size_bits"] // 8
    return None


# ------------------------------------------------------------------------------------------
def loop_progress(F, S, fn):
    """Loops whose exit condition compares a cursor with a limit: every cursor update is a wrap-free forward step."""
    g = CFG(fn)
    W = Width(fn)
    out = []
    n = 0
    for nd in fn.nodes:
        if nd["k"] not in ("DoStmt", "WhileStmt", "ForStmt"):
            continue
        from .through import continue_conditions
        cts = [t for t in continue_conditions(fn, nd) if t[0] == "op" and t[1] in ("<", "<=", "!=")]
        if not cts:
            continue
        ct = cts[0]
        cur = ct[2]
        if cur[0] == "op" and cur[1] == "+" and cur[2][0] == "var":
            cur = cur[2]
        if cur[0] != "var":
            continue
        body = set(fn.subtree(nd["body"]))
        ups = [x for x in body if fn.n(x)["k"] in ("CompoundAssignOperator", "BinaryOperator", "UnaryOperator")
               and fn.n(x).get("op") in ("+=", "=", "++") and fn.term(fn.kids(x)[0]) == cur]
        if not ups:
            continue
        for u in ups:
            n += 1
            un = fn.n(u)
            inst = "%s#cursor:%s" % (fn.qn, cur[1])
            req = "cursor update cannot wrap and moves forward (the loop terminates)"
            if un["op"] == "++":
                out.append(ok("R-TAINT", inst, fn.loc(u), fn.qn, req, "increment by one under the loop bound", nontrivial=False))
                continue
            if un["op"] != "+=":
                out.append(bad("R-TAINT", inst, fn.loc(u), fn.qn, req, "cursor is reassigned (`%s`)" % fmt_term(fn.term(u))))
                continue
            inc = fn.kids(u)[1]
            need = W.needed(inc)
            cw = fn.n(fn.kids(u)[0]).get("iw") or 64
            incterm = fn.term(inc)
            positive = _positive(incterm)
            if cw >= need + 2 and positive:
                out.append(ok("R-TAINT", inst, fn.loc(u), fn.qn, req,
                              "%d-bit cursor, increment needs %d bits and includes a positive constant (stream lengths are below 2^%d)" % (cw, need, cw - 1)))
            elif not positive:
                out.append(bad("R-TAINT", inst, fn.loc(u), fn.qn, req, "increment %s may be zero" % fmt_term(incterm)))
            else:
                out.append(bad("R-TAINT", inst, fn.loc(u), fn.qn, req,
                               "%d-bit cursor += %s (needs %d bits): the sum can wrap to the same position" % (cw, fmt_term(incterm), need)))
    return out, n


def _positive(t):
    if t[0] == "const":
        return t[1] > 0
    if t[0] == "op" and t[1] == "+":
        return _positive(t[2]) or _positive(t[3])
    if t[0] == "sizeof":
        return True
    return False


# ------------------------------------------------------------------------------------------
def _fstream_run(F, fn, stream_field, entry_state, depth=2):
    """One pass of the failed-stream state machine over fn entered in `entry_state`.
    Returns (states reaching a normal exit, [(block, kind)] exits reached with the stream possibly failed, reads seen)."""
    g = CFG(fn)
    st = stream_field if isinstance(stream_field, tuple) else ("mem", ("this",), stream_field)
    # forward may-analysis: state in {"ok", "maybe"} per block entry
    IN = {g.entry: entry_state}
    work = [g.entry]
    bad_exits = []
    exit_states = set()
    reads = 0
    while work:
        b = work.pop(0)
        s = IN[b]
        for e in g.blocks[b]["elems"]:
            if not isinstance(e, int):
                continue
            nd = fn.n(e)
            if nd["k"] == "CXXMemberCallExpr" and "obj" in nd and fn.term(nd["obj"]) == st:
                if nd.get("fname") == "read":
                    s = "maybe"
                    reads += 1
                elif nd.get("fname") == "clear" and not nd.get("args"):
                    s = "ok"
                elif nd.get("fname") == "clear" and nd.get("args") and all(fn.n(a)["k"] == "CXXDefaultArgExpr" for a in nd["args"]):
                    s = "ok"
            elif nd["k"] == "CXXMemberCallExpr" and "obj" in nd and fn.term(nd["obj"]) == ("this",) and depth > 0:
                # a helper on the same object that reads the stream: the state it leaves on its normal exits
                for cal in F.callees(nd):
                    if not cal.cfg or cal.key == fn.key:
                        continue
                    if not any(x["k"] == "CXXMemberCallExpr" and x.get("fname") in ("read", "clear") and "obj" in x and cal.term(x["obj"]) == st for x in cal.nodes):
                        continue
                    es, be, rn, _g = _fstream_run(F, cal, stream_field, s, depth - 1)
                    reads += rn
                    if be:
                        bad_exits.append((b, "throw (inside %s)" % cal.name))
                    s = "maybe" if ("maybe" in es or not es) else "ok"
            elif nd["k"] in ("CallExpr", "CXXMemberCallExpr") and depth > 0 and any(fn.term(a) == st for a in nd.get("args", [])):
                # a helper handed the stream itself (`ReadAndClearErrors(file, buffer, size)`): inside it the stream is the
                # reference parameter; the state it leaves on its normal exits
                for cal in F.callees(nd):
                    if not cal.cfg or cal.key == fn.key:
                        continue
                    ix = [i for i, a in enumerate(nd["args"]) if fn.term(a) == st and i < len(cal.params) and cal.params[i].get("ref")]
                    if len(ix) != 1:
                        continue
                    pv = ("var", cal.params[ix[0]]["n"], cal.params[ix[0]]["d"])
                    if not any(x["k"] == "CXXMemberCallExpr" and x.get("fname") in ("read", "clear") and "obj" in x and cal.term(x["obj"]) == pv for x in cal.nodes):
                        continue
                    es, be, rn, _g = _fstream_run(F, cal, pv, s, depth - 1)
                    reads += rn
                    if be:
                        bad_exits.append((b, "throw (inside %s)" % cal.name))
                    s = "maybe" if ("maybe" in es or not es) else "ok"
        if b in g.throws:
            if s != "ok":
                bad_exits.append((b, "throw"))
            continue
        cid = g.branch_cond(b)
        for (t, label) in g.succ[b]:
            s2 = s
            if cid is not None and label is not None:
                for f in cond_facts(fn, cid, label):
                    # `!file` false  <=>  stream is good
                    if f == ("true", st) or f == ("false", ("opcall", "!", (st,))):
                        s2 = "ok"
            if t == g.exit:
                exit_states.add(s2)
                if s2 != "ok":
                    bad_exits.append((b, "return"))
                continue
            old = IN.get(t)
            new = "maybe" if "maybe" in (old, s2) else "ok"
            if old != new:
                IN[t] = new
                work.append(t)
    return exit_states, bad_exits, reads, g


def r_fstream(F, S, fn, stream_field="file"):
    """After ifstream::read the stream may be failed; every exit must be reached with the flags cleared or
    with the success branch of a `!file` test taken. The read and the recovery may sit in a helper on the same object."""
    _es, bad_exits, reads, g = _fstream_run(F, fn, stream_field, "ok")
    inst = "%s#failbit" % fn.qn
    req = "a failed or short read does not leave the shared stream in a failed state"
    if reads == 0:
        raise AnalysisBroken("R-FSTREAM: no read() on %s in %s" % (stream_field, fn.qn))
    if bad_exits:
        b, kind = bad_exits[0]
        last = [e for e in g.blocks[b]["elems"] if isinstance(e, int)]
        return [bad("R-FSTREAM", inst, fn.loc(last[-1]) if last else fn.loc(fn.body), fn.qn, req,
                    "a %s exit is reachable after read() with neither clear() nor a passed `!%s` test" % (kind, stream_field))]
    return [ok("R-FSTREAM", inst, fn.loc(fn.body), fn.qn, req, "every exit after read() passes clear() or the success branch")]


# ------------------------------------------------------------------------------------------
def extraction_always_writes(F, fn, label, _depth=2):
    """R-MUSTCALL: an extract-to-path operation creates its output file on every path on which it returns normally - directly
    (a Stream::FileWriter constructed on the path it was given) or through a same-class helper it forwards the path to that
    does so itself. A member of length 0 is extracted to an empty file, not to nothing."""
    from .through import on_every_returning_path
    paths = [("var", p["n"], p["d"]) for p in fn.params if "basic_string" in (p.get("ct") or "")]
    req = "the output file is created on every path that returns normally (whatever the member's length or kind)"
    inst = "%s#always-writes" % label

    def creating_nodes(f, pvars, depth):
        ids = []
        for nd in f.nodes:
            if nd["k"] in CTORS and (nd.get("ctor_rec") or "").endswith("Stream::FileWriter") and nd.get("args") and f.term(nd["args"][0]) in pvars:
                ids.append(nd["id"])
            elif nd["k"] == "DeclStmt":
                for d in nd.get("decls", []):
                    if (d.get("rec") or "").endswith("Stream::FileWriter") and "init" in d:
                        t = f.term(d["init"])
                        if t[0] == "ctor" and t[2] and t[2][0] in pvars:
                            ids.append(nd["id"])
            elif nd["k"] in CALLS and depth > 0 and nd.get("args"):
                fwd = [i for i, a in enumerate(nd["args"]) if f.term(a) in pvars]
                if not fwd:
                    continue
                for cal in F.callees(nd):
                    if not cal.cfg or cal.key == f.key or cal.cls != f.cls:
                        continue
                    cp = [("var", cal.params[i]["n"], cal.params[i]["d"]) for i in fwd if i < len(cal.params)]
                    sub = creating_nodes(cal, cp, depth - 1)
                    if sub and on_every_returning_path(cal, sub):
                        ids.append(nd["id"])
        return ids

    ids = creating_nodes(fn, paths, _depth)
    if not ids:
        raise AnalysisBroken("%s: no output file creation found (shape not recognised)" % fn.qn)
    if on_every_returning_path(fn, ids):
        return [ok("R-MUSTCALL", inst, fn.loc(ids[0]), fn.qn, req, "%d creating site(s) cover every returning path" % len(ids))]
    return [bad("R-MUSTCALL", inst, fn.loc(fn.body), fn.qn, req, "a path returns without creating the output file (an early return before the FileWriter is constructed)")]


# ------------------------------------------------------------------------------------------
def noexcept_honest(F, S, scope, functions=None):
    """R-NOEXCEPT: a function declared noexcept contains no reachable refusal - no `throw` of its own outside a handler-protected
    region and no call of a repository function that may throw. (A refusal inside a noexcept function is std::terminate, not
    the ordinary error the properties promise.) `scope`: substrings of source paths to sweep. Returns (obligations, count)."""
    out = []
    n = 0
    for fn in sorted(functions if functions is not None else F.functions.values(), key=lambda f: f.key):
        if not fn.cfg or not fn.d.get("noexcept") or fn.d.get("implicit") or fn.name.startswith("~") or (functions is None and not any(x in fn.file for x in scope)):
            continue
        n += 1
        guarded = set()
        for nd in fn.nodes:
            if nd["k"] == "CXXTryStmt":
                guarded |= set(fn.subtree(nd.get("try", nd["id"])))
        why = None
        for nd in fn.nodes:
            if nd["id"] in guarded:
                continue
            if nd["k"] == "CXXThrowExpr":
                why = (nd, "throws")
                break
            if nd["k"] in CALLS or nd["k"] in CTORS:
                cals = list(F.callees(nd))
                if not cals and functions is not None and nd.get("fn") in F.fixture_functions:
                    cals = [F.fixture_functions[nd["fn"]]]          # fixtures call fixtures
                for cal in cals:
                    if not cal.d.get("noexcept") and S.may_throw(cal):
                        why = (nd, "calls %s, which may throw" % cal.qn.split("::")[-1])
                        break
            if why:
                break
        inst = "%s#noexcept" % fn.key
        req = "a function declared noexcept refuses nothing: no throw and no call of a throwing repository function outside a try block"
        if why is None:
            out.append(ok("R-NOEXCEPT", inst, fn.loc(fn.body), fn.qn, req, "no reachable refusal", nontrivial=False))
        else:
            out.append(bad("R-NOEXCEPT", inst, fn.loc(why[0]["id"]), fn.qn, req, "%s at %s: the refusal ends in std::terminate instead of an error" % (why[1], fn.loc(why[0]["id"]))))
    return out, n


def noexcept_obligations(F, S, run):
    """noexcept_honest over the whole library plus its positive fixture, registered on `run`."""
    o, n = noexcept_honest(F, S, ["/src/"])
    run.add(o)
    run.floor("noexcept-functions", n, 4)
    fx = [f for f in F.fixture_functions.values() if f.qn == "fixture::Nodes::IsLast"]
    hit = bool(fx) and any(x.status == "violated" for x in noexcept_honest(F, S, [], functions=fx)[0])
    run.fixture("fixtures/raw_read.cpp: a noexcept accessor that calls a throwing verifier is reported by R-NOEXCEPT", hit)


# ------------------------------------------------------------------------------------------
def handlers_rethrow(F, S, scope, functions=None):
    """R-ERR: an exception handler never swallows an error: every path through the handler's body ends in a throw (a rethrow,
    or a new exception that wraps the old one). A handler that can fall out of its bottom turns a refusal into a normal
    return with partial results. Returns (obligations, number of handlers)."""
    out = []
    n = 0

    def always_throws(fn, sid):
        nd = fn.n(sid)
        k = nd["k"]
        if k == "CXXThrowExpr":
            return True
        if k in ("ExprWithCleanups", "ParenExpr"):
            ks = fn.kids(sid)
            return len(ks) == 1 and always_throws(fn, ks[0])
        if k == "CompoundStmt":
            return any(always_throws(fn, c) for c in fn.kids(sid))
        if k == "IfStmt":
            return nd.get("else") is not None and always_throws(fn, nd["then"]) and always_throws(fn, nd["else"])
        if k in CALLS:
            return S.noreturn_call(nd)
        return False
    fns = functions if functions is not None else [f for f in F.functions.values() if any(x in f.file for x in scope)]
    for fn in sorted(fns, key=lambda f: f.key):
        if not fn.cfg or fn.d.get("implicit"):
            continue
        for nd in fn.nodes:
            if nd["k"] != "CXXCatchStmt":
                continue
            n += 1
            inst = "%s#handler@%s" % (fn.qn, nd.get("l"))
            req = "an exception handler ends in a throw on every path (errors are wrapped or passed on, never swallowed)"
            body = nd.get("body")
            if body is not None and always_throws(fn, body):
                out.append(ok("R-ERR", inst, fn.loc(nd["id"]), fn.qn, req, "every path through the handler throws"))
            else:
                out.append(bad("R-ERR", inst, fn.loc(nd["id"]), fn.qn, req,
                               "the handler can complete normally: the operation goes on (or returns) as if the error had not happened"))
    return out, n


# ------------------------------------------------------------------------------------------
def verified_names_final(F, S, fn, label):
    """R-ORDER: the name list handed to VerifySortedContainerHasNoDuplicateNames is the list that is packed: after the call
    nothing assigns to it, calls a mutating member on it or hands it out by mutable reference (e.g. stripping the
    extensions *after* the check lets `a.wav` and `a.wave` through as two members named `a`)."""
    Vq = "OP2Utility::Archive::ArchiveFile::VerifySortedContainerHasNoDuplicateNames"
    calls = [nd for nd in fn.nodes if nd["k"] in CALLS and (nd.get("fq") or "") == Vq and nd.get("args")]
    inst = "%s#verified-names-final" % label
    req = "the names checked for duplicates are the names packed: the list is not changed after the check"
    if len(calls) != 1:
        raise AnalysisBroken("%s: expected one call of VerifySortedContainerHasNoDuplicateNames" % fn.qn)
    v = calls[0]
    names = fn.term(v["args"][0])
    later = []
    for nd in fn.nodes:
        if nd["id"] <= v["id"]:
            continue
        k = nd["k"]
        if k in ("BinaryOperator", "CompoundAssignOperator") and nd.get("op", "").endswith("=") and nd["op"] not in ("==", "!=", "<=", ">=") \
                and fn.term(fn.kids(nd["id"])[0]) == names:
            later.append(nd)
        elif k == "CXXOperatorCallExpr" and nd.get("op") in ("=", "+=") and nd.get("args") and fn.term(nd["args"][0]) == names:
            later.append(nd)
        elif k == "CXXMemberCallExpr" and "obj" in nd and fn.term(nd["obj"]) == names and not nd.get("mconst") \
                and nd.get("fname") not in ("begin", "end", "size", "empty", "data", "at", "front", "back", "cbegin", "cend"):
            later.append(nd)
        elif k in CALLS and nd.get("args"):
            for a, p in zip(nd["args"], nd.get("params") or []):
                if fn.term(a) == names and p.get("ref") and not p.get("const_ref"):
                    later.append(nd)
    if not later:
        return [ok("R-ORDER", inst, fn.loc(v["id"]), fn.qn, req, "no change of %s after the check" % fmt_term(names))]
    return [bad("R-ORDER", inst, fn.loc(later[0]["id"]), fn.qn, req,
                "%s is changed at %s, after it was checked at %s" % (fmt_term(names), fn.loc(later[0]["id"]), fn.loc(v["id"])))]


# ------------------------------------------------------------------------------------------
def unbounded_cstring_reads(F, S, scope, functions=None):
    """R-TAINT (C string): the bytes of a fixed-size character buffer (std::array<char, N>, char[N]) are never read as a
    NUL-terminated string - std::string(ptr) without a length, `+ ptr`, `+= ptr`, strlen(ptr), append(ptr) - because
    nothing guarantees a terminator inside the buffer (file data can fill it completely) and the read then runs into
    whatever memory follows. A length-taking form (std::string(ptr, n), std::string(begin, end)) is bounded.
    Returns (obligations, sites)."""
    out = []
    n = 0

    def fixed_buffer_pointer(fn, a):
        i = fn.strip(a)
        nd = fn.n(i)
        t = fn.term(i)
        if nd["k"] == "CXXMemberCallExpr" and nd.get("fname") == "data" and (nd.get("mrec") or "").startswith("std::array<char"):
            return t
        b = fn.n(fn.strip(a, casts=True))
        ct = b.get("ct") or ""
        if t[0] == "str":
            return None         # a string literal, possibly by the name of the constant array it initialises: terminated, immutable
        if ct.startswith("char[") or ct.startswith("const char[") and b["k"] != "StringLiteral":
            return t if b["k"] != "StringLiteral" else None
        if t[0] == "un" and t[1] == "&" and t[2][0] == "idx":
            base = fn.n(fn.strip(fn.kids(fn.strip(a))[0])) if fn.kids(fn.strip(a)) else {}
            return None
        return None
    fns = functions if functions is not None else [f for f in F.functions.values() if any(x in f.file for x in scope)]
    for fn in sorted(fns, key=lambda f: f.key):
        if not fn.cfg or fn.d.get("implicit"):
            continue
        for nd in fn.nodes:
            ptr_args = []
            ps = nd.get("params") or []
            args = nd.get("args") or []
            if nd["k"] in CTORS and (nd.get("ctor_rec") or "").startswith("std::basic_string<char") and ps and ps[0].get("ptr") and args:
                bounded = len(ps) >= 2 and ps[1].get("iw") is not None and len(args) >= 2 and fn.n(args[1])["k"] != "CXXDefaultArgExpr"
                if not bounded:
                    ptr_args.append(args[0])
            elif nd["k"] == "CXXOperatorCallExpr" and nd.get("op") in ("+", "+=", "=") and ps:
                for a_, p_ in zip(args[-len(ps):], ps):
                    if p_.get("ptr") and "char" in (p_.get("t") or ""):
                        ptr_args.append(a_)
            elif nd["k"] in CALLS and nd.get("fname") in ("strlen", "append", "assign", "strcpy", "strcat", "strcmp") and args and ps and ps[0].get("ptr") \
                    and not (len(ps) >= 2 and ps[1].get("iw") is not None):
                ptr_args.append(args[0])
            for a_ in ptr_args:
                t = fixed_buffer_pointer(fn, a_)
                if t is None:
                    continue
                n += 1
                inst = "%s#c-string-read:%s" % (fn.qn, fmt_term(t))
                req = "a fixed-size character buffer is not read as a NUL-terminated string (no terminator is guaranteed inside it)"
                out.append(bad("R-TAINT", inst, fn.loc(nd["id"]), fn.qn, req,
                               "%s is read up to the first NUL: if the buffer holds none, memory after it is read (and copied out)" % fmt_term(t)))
    return out, n


def cstring_obligations(F, S, run):
    o, n = unbounded_cstring_reads(F, S, ["/src/"])
    run.add(o)
    fx = [f for f in F.fixture_functions.values() if f.qn == "fixture::MarkerText"]
    hit = bool(fx) and any(x.status == "violated" for x in unbounded_cstring_reads(F, S, [], functions=fx)[0])
    run.fixture("fixtures/raw_read.cpp: std::string(marker.data()) on a std::array<char, 10> read from a stream is reported by R-TAINT(C string)", hit)


# ------------------------------------------------------------------------------------------
EXC_TYPES = ("std::runtime_error", "std::logic_error", "std::out_of_range", "std::invalid_argument", "std::length_error",
             "std::domain_error", "std::range_error", "std::overflow_error", "std::underflow_error", "std::exception",
             "std::bad_alloc", "std::system_error", "std::ios_base::failure")


def discarded_exceptions(F, S, scope, functions=None):
    """R-ERR: an exception object is never built and dropped: `std::runtime_error("...");` as a statement of its own (the
    `throw` lost in an edit) refuses nothing - the check around it has no effect. Returns (obligations, sites)."""
    out = []
    n = 0
    fns = functions if functions is not None else [f for f in F.functions.values() if any(x in f.file for x in scope)]
    for fn in sorted(fns, key=lambda f: f.key):
        if not fn.cfg or fn.d.get("implicit"):
            continue
        pm = fn.parent_map()
        for nd in fn.nodes:
            if nd["k"] not in CTORS or (nd.get("ctor_rec") or "") not in EXC_TYPES or nd.get("copy_or_move"):
                continue
            cur = nd["id"]
            verdict = None
            for _ in range(12):
                par = pm.get(cur)
                if par is None:
                    break
                pk = fn.n(par)["k"]
                if pk == "CXXThrowExpr":
                    verdict = "thrown"
                    break
                if pk in ("CompoundStmt", "IfStmt", "ForStmt", "WhileStmt", "DoStmt", "CXXForRangeStmt", "CXXCatchStmt", "CXXTryStmt", "SwitchStmt", "CaseStmt", "DefaultStmt"):
                    verdict = "discarded"
                    break
                if pk in ("DeclStmt", "ReturnStmt") or pk in CALLS or (pk in CTORS and not fn.n(par).get("copy_or_move")) or pk == "BinaryOperator":
                    verdict = "used"
                    break
                cur = par
            if verdict == "discarded":
                n += 1
                out.append(bad("R-ERR", "%s#discarded-exception@%s" % (fn.qn, nd.get("l")), fn.loc(nd["id"]), fn.qn,
                               "an exception object that is constructed is thrown",
                               "%s(...) is built and dropped (no `throw`): the refusal it was meant to make does not happen" % nd["ctor_rec"]))
    return out, n


def discarded_exception_obligations(F, S, run):
    o, n = discarded_exceptions(F, S, ["/src/"])
    run.add(o)
    fx = [f for f in F.fixture_functions.values() if f.qn == "fixture::CheckTotal"]
    hit = bool(fx) and any(x.status == "violated" for x in discarded_exceptions(F, S, [], functions=fx)[0])
    run.fixture("fixtures/raw_read.cpp: `std::runtime_error(\"...\");` without throw is reported by R-ERR(discarded exception)", hit)


# ------------------------------------------------------------------------------------------
def observers_keep_no_state(F, S, fns, what):
    """R-WRITESET: a query answers from the object (and its arguments) alone and leaves nothing behind: it stores to no data
    member (a `mutable` cache written from a const function included) and to no namespace-scope variable. Otherwise a later
    answer depends on which queries came before it. Returns (obligations, functions judged)."""
    out = []
    n = 0
    for fn in sorted(fns, key=lambda f: f.key):
        if not fn.cfg or fn.d.get("implicit"):
            continue
        n += 1
        w = sorted(it for it in S.writes(fn) if it[0] in ("this", "this@", "global", "unknown"))
        inst = "%s#keeps-no-state" % fn.key
        req = "%s stores to no data member and to no namespace-scope variable: its answer cannot depend on earlier calls" % what
        if not w:
            out.append(ok("R-WRITESET", inst, fn.loc(fn.body), fn.qn, req, "nothing written besides its own locals and out-parameters", nontrivial=False))
        else:
            out.append(bad("R-WRITESET", inst, fn.loc(fn.body), fn.qn, req,
                           "writes %s" % ", ".join("%s %s" % (x[0].rstrip("@"), x[1] if len(x) > 1 else "") for x in w)))
    return out, n


def extract_all_visits_every_member(F, S):
    """R-MUSTCALL / R-GUARD: whole-archive extraction hands every member 0 .. GetCount()-1 to ExtractFile(i, Append(dir,
    GetName(i))) and makes no refusal of its own: whatever names the archive lists are extracted (Append already refuses rooted
    names). A refusal written here turns away members the listing reports."""
    from .rules_stream import r_guard_exact
    from .flow import Engine
    ARCq = "OP2Utility::Archive::ArchiveFile"
    fn = F.fn(ARCq + "::ExtractAllFiles", nparams=1)
    out = r_guard_exact(F, Engine(F, S), fn, [], optional=True, no_other=True)
    inst = ARCq + "::ExtractAllFiles#every-member"
    req = "every member index below GetCount() is passed to ExtractFile inside one whole counting loop with no other way out"
    loops = [nd for nd in fn.nodes if nd["k"] in ("ForStmt", "WhileStmt", "DoStmt", "CXXForRangeStmt")]
    ex = [nd for nd in fn.nodes if nd["k"] == "CXXMemberCallExpr" and nd.get("fname") == "ExtractFile"]
    if not (len(loops) == 1 and len(ex) == 1 and loops[0]["k"] == "ForStmt" and ex[0]["id"] in fn.subtree(loops[0]["body"])):
        raise AnalysisBroken("ExtractAllFiles: member loop not recognised")
    lp = loops[0]
    ds = fn.n(lp["init"]).get("decls", []) if "init" in lp else []
    c = fn.term(lp["cond"]) if "cond" in lp else None
    if not (len(ds) == 1 and "init" in ds[0] and c is not None and c[0] == "op" and c[2] == ("var", ds[0]["n"], ds[0]["d"])):
        raise AnalysisBroken("ExtractAllFiles: member loop not recognised")
    good = fn.term(ds[0]["init"]) == ("const", 0) and c[1] == "<" \
        and c[3] in (F.method_value(ARCq + "::GetCount", ("this",)), ("call", ARCq + "::GetCount", ("this",), ())) \
        and fn.xterm(ex[0]["args"][0]) == c[2]
    body = set(fn.subtree(lp["body"]))
    good = good and not any(fn.n(x)["k"] in ("BreakStmt", "ContinueStmt", "ReturnStmt", "GotoStmt") for x in body)
    from .rules_sib import enclosing_if_cond
    cid, _t = enclosing_if_cond(fn, ex[0]["id"])
    good = good and (cid is None or cid not in body)
    if good:
        out.append(ok("R-MUSTCALL", inst, fn.loc(ex[0]["id"]), fn.qn, req, "for (i = 0; i < GetCount(); ++i) ExtractFile(i, ...) unconditionally"))
    else:
        out.append(bad("R-MUSTCALL", inst, fn.loc(fn.body), fn.qn, req, "the loop does not run from 0 to GetCount(), the extraction is conditional, or the loop can be left early"))
    return out


# ------------------------------------------------------------------------------------------
def clamped_to_remaining(F, S, scope, functions=None):
    """R-TAINT (clamp): a loader never cuts an extent the file announces down to what the stream still holds
    (`min(announced, Length() - Position())`, `announced < left ? announced : left`): with the clamp the read that follows can
    no longer fail, so a file truncated inside the announced extent is accepted and delivered short instead of refused.
    (The stream classes' own ReadPartial, whose contract is the clamp, are outside the scope.) Returns (obligations, sites)."""
    from .flow import subterms
    out = []
    n = 0

    def remaining(fn, i):
        t = fn.xterm(i)
        for _ in range(3):
            t2 = fn.through_locals_at(t, i)
            if t2 == t:
                break
            t = t2
        for st in subterms(t):
            if st[0] == "call" and st[1].startswith("OP2Utility::Stream::") and st[1].split("::")[-1] in ("Position", "Length"):
                return st
            if st[0] == "mem" and st[2] in ("m_ArchiveFileSize",):
                return st
        return None
    fns = functions if functions is not None else [f for f in F.functions.values() if any(x in f.file for x in scope) and "/Stream/" not in f.file]
    for fn in sorted(fns, key=lambda f: f.key):
        if not fn.cfg or fn.d.get("implicit"):
            continue
        for nd in fn.nodes:
            ops = None
            if nd["k"] in CALLS and (nd.get("fq") or "") in ("std::min", "std::max") and len(nd.get("args", [])) >= 2:
                ops = nd["args"][:2]
            elif nd["k"] == "ConditionalOperator":
                ks = fn.kids(nd["id"])
                ops = ks[1:3] if len(ks) == 3 else None
            if not ops:
                continue
            n += 1
            hit = [r for r in (remaining(fn, o) for o in ops) if r is not None]
            if hit and len(hit) < len(ops):
                inst = "%s#clamped:%s" % (fn.qn, fmt_term(fn.term(nd["id"])))
                out.append(bad("R-TAINT", inst, fn.loc(nd["id"]), fn.qn,
                               "an extent announced by the file is used as announced (the read refuses a file that ends early)",
                               "one alternative is what the stream has left (%s): a file cut short inside the announced extent is accepted and delivered short" % fmt_term(hit[0])))
    return out, n


def clamp_obligations(F, S, run, scope):
    o, n = clamped_to_remaining(F, S, scope)
    run.add(o)
    fx = [f for f in F.fixture_functions.values() if f.qn == "fixture::ReadClamped"]
    hit = bool(fx) and any(x.status == "violated" for x in clamped_to_remaining(F, S, [], functions=fx)[0])
    run.fixture("fixtures/raw_read.cpp: a buffer sized min(announced, Length() - Position()) is reported by R-TAINT(clamp)", hit)


# ------------------------------------------------------------------------------------------
def unchecked_find_positions(F, S, scope, functions=None):
    """R-TAINT (npos): the position a std::string search reports (find, rfind, find_first_of, ...) is not used in arithmetic
    unless "not found" (npos, the largest size_t) has been excluded on the way: `end + 1` wraps to 0 for npos, and a splitting
    loop that advances by it starts over for ever on data without the separator. Returns (obligations, sites)."""
    from .flow import Engine, mentions
    NPOS = ("const", (1 << 64) - 1)
    FIND = ("find", "rfind", "find_first_of", "find_last_of", "find_first_not_of", "find_last_not_of")
    out = []
    n = 0
    fns = functions if functions is not None else [f for f in F.functions.values() if any(x in f.file for x in scope)]
    for fn in sorted(fns, key=lambda f: f.key):
        if not fn.cfg or fn.d.get("implicit"):
            continue
        finds = [nd for nd in fn.nodes if nd["k"] == "CXXMemberCallExpr" and nd.get("fname") in FIND and (nd.get("mrec") or "").startswith("std::basic_string")]
        if not finds:
            continue
        eng = Engine(F, S)
        eng.analyze(fn, frozenset())
        for fd in finds:
            names = {fn.term(fd["id"])}
            for nd in fn.nodes:
                if nd["k"] == "DeclStmt":
                    for d in nd.get("decls", []):
                        if "init" in d and "d" in d and fn.strip(d["init"]) == fd["id"]:
                            names.add(("var", d["n"], d["d"]))
                elif nd["k"] == "BinaryOperator" and nd.get("op") == "=" and fn.strip(fn.kids(nd["id"])[1]) == fd["id"]:
                    names.add(fn.term(fn.kids(nd["id"])[0]))
            for nd in fn.nodes:
                if nd["k"] not in ("BinaryOperator", "CompoundAssignOperator") or nd.get("op") not in ("+", "-", "+=", "-=", "*"):
                    continue
                ks = fn.kids(nd["id"])
                used = [v for v in names if any(fn.term(k) == v for k in ks)]
                if not used:
                    continue
                n += 1
                v = used[0]
                site = final_site_facts(eng, fn, nd["id"])
                if site is None:
                    continue
                inst = "%s#find-position:%s" % (fn.qn, fmt_term(fn.term(nd["id"])))
                req = "`not found` (npos) is excluded before the reported position is used in arithmetic"
                known = any((f[0] == "!=" and v in (f[1], f[2]) and NPOS in (f[1], f[2])) or
                            (f[0] in ("<", "<=") and f[1] == v and f[2] != NPOS) for f in site)
                if known:
                    out.append(ok("R-TAINT", inst, fn.loc(nd["id"]), fn.qn, req, "a test against npos / an upper bound dominates the use"))
                else:
                    out.append(bad("R-TAINT", inst, fn.loc(nd["id"]), fn.qn, req,
                                   "%s may be npos here: the arithmetic wraps (npos + 1 == 0) - on data without the searched character the loop that advances by it never ends" % fmt_term(v)))
    return out, n


def find_position_obligations(F, S, run, scope):
    o, n = unchecked_find_positions(F, S, scope)
    run.add(o)
    fx = [f for f in F.fixture_functions.values() if f.qn == "fixture::SplitNames"]
    hit = bool(fx) and any(x.status == "violated" for x in unchecked_find_positions(F, S, [], functions=fx)[0])
    run.fixture("fixtures/raw_read.cpp: `start = table.find(...) + 1` without an npos test is reported by R-TAINT(npos)", hit)

"""CFG utilities, guard facts (forward must-dataflow), interprocedural contexts, summaries.

A *fact* is a tuple:
   ("<", a, b) ("<=", a, b) ("==", a, b) ("!=", a, b)      comparisons over value terms
   ("true", t) ("false", t)                                 boolean-valued terms
   ("called", fq, args)                                     a call that has been passed (event, killable by arg stores)
   ("ev", ...)                                              un-killable events: ("ev","passed",fact), ("ev","each",ev), ...
Facts hold on *every* path to the program point (must-analysis).
"""
from .facts import CALLS, CTORS, CASTS, WRAPPERS, fmt_term

REL_FLIP = {"<": ">", ">": "<", "<=": ">=", ">=": "<=", "==": "==", "!=": "!="}
REL_NEG = {"<": ">=", ">": "<=", "<=": ">", ">=": "<", "==": "!=", "!=": "=="}

# std:: member functions that are declared non-const but do not change the logical value
STD_OBSERVERS = {"operator[]", "begin", "end", "data", "at", "front", "back", "get", "operator*", "operator->",
                 "size", "length", "empty", "c_str", "cbegin", "cend", "rbegin", "rend", "max_size", "capacity",
                 "is_open", "operator bool", "operator!", "good", "fail", "eof", "gcount", "what", "string",
                 "operator basic_string_view", "find", "substr", "compare", "filename", "extension", "native",
                 "tellg", "tellp"}


ACCESSORS = {"data", "at", "front", "back", "begin", "end", "operator[]", "get", "operator*", "operator->", "c_str"}


def norm_cmp(rel, a, b):
    """Normalise to '<', '<=', '==', '!=' with a canonical operand order for the symmetric ones."""
    if rel == ">":
        return ("<", b, a)
    if rel == ">=":
        return ("<=", b, a)
    if rel in ("==", "!="):
        if repr(a) > repr(b):
            a, b = b, a
        return (rel, a, b)
    return (rel, a, b)


def negate(f):
    h = f[0]
    if h == "<":
        return ("<=", f[2], f[1])
    if h == "<=":
        return ("<", f[2], f[1])
    if h == "==":
        return ("!=", f[1], f[2])
    if h == "!=":
        return ("==", f[1], f[2])
    if h == "true":
        return ("false", f[1])
    if h == "false":
        return ("true", f[1])
    return None


def mentions(t, sub):
    if t == sub:
        return True
    if isinstance(t, tuple):
        for x in t:
            if isinstance(x, tuple) and mentions(x, sub):
                return True
    return False


def _has_this_call(f):
    for s in subterms(f):
        if s[0] == "call" and s[2] == ("this",):
            return True
    return False


def subterms(t):
    if isinstance(t, tuple):
        if t and isinstance(t[0], str):
            yield t
        for x in t:
            if isinstance(x, tuple):
                for s in subterms(x):
                    yield s


def substitute(t, mapping):
    """Replace whole sub-terms according to mapping (dict term->term)."""
    if t in mapping:
        return mapping[t]
    if isinstance(t, tuple):
        return tuple(substitute(x, mapping) if isinstance(x, tuple) else x for x in t)
    return t


def fmt_fact(f):
    h = f[0]
    if h in ("<", "<=", "==", "!="):
        return "%s %s %s" % (fmt_term(f[1]), h, fmt_term(f[2]))
    if h == "true":
        return fmt_term(f[1])
    if h == "false":
        return "!" + fmt_term(f[1])
    if h == "called":
        return "called %s(%s)" % (f[1].split("::")[-1], ", ".join(fmt_term(a) for a in f[2]))
    if h == "ev":
        return "ev:" + " ".join(fmt_fact(x) if isinstance(x, tuple) and x and x[0] in
                                ("<", "<=", "==", "!=", "true", "false", "called", "ev") else
                                (fmt_term(x) if isinstance(x, tuple) else str(x)) for x in f[1:])
    return str(f)


class CFG:
    def __init__(self, fn, noreturn_call=None):
        self.fn = fn
        g = fn.cfg
        self.blocks = {b["id"]: b for b in g["blocks"]}
        self.entry = g["entry"]
        self.exit = g["exit"]
        self.throws = set()       # blocks that end in a throw (no normal successor)
        self.succ = {}
        self.pred = {b: [] for b in self.blocks}
        for bid, b in self.blocks.items():
            is_throw = False
            for e in b["elems"]:
                if isinstance(e, int) and fn.n(e)["k"] == "CXXThrowExpr":
                    is_throw = True
                if isinstance(e, int) and noreturn_call is not None and fn.n(e)["k"] in CALLS and noreturn_call(fn.n(e)):
                    is_throw = True      # a repo helper that always throws (e.g. throwReadError)
            if is_throw or b.get("noreturn"):
                self.throws.add(bid)
                self.succ[bid] = []
                continue
            ss = []
            two = len(b["succs"]) == 2 and "term" in b and fn.n(b["term"])["k"] != "CXXTryStmt"
            for i, s in enumerate(b["succs"]):
                if s["b"] is None or not s["reachable"]:
                    continue
                label = (i == 0) if two else None
                ss.append((s["b"], label))
            self.succ[bid] = ss
        for bid, ss in self.succ.items():
            for (t, _) in ss:
                self.pred[t].append(bid)
        # reachability from entry
        self.reach = set()
        st = [self.entry]
        while st:
            x = st.pop()
            if x in self.reach:
                continue
            self.reach.add(x)
            for (t, _) in self.succ[x]:
                st.append(t)
        # catch handlers are only reachable through exceptions; keep them out of `reach`
        self.order = self._rpo()
        self._dom = None
        self._elem_block = None

    def _rpo(self):
        seen, out = set(), []

        def dfs(b):
            stack = [(b, iter(self.succ[b]))]
            seen.add(b)
            while stack:
                x, it = stack[-1]
                adv = False
                for (t, _) in it:
                    if t not in seen:
                        seen.add(t)
                        stack.append((t, iter(self.succ[t])))
                        adv = True
                        break
                if not adv:
                    out.append(x)
                    stack.pop()
        dfs(self.entry)
        return list(reversed(out))

    def branch_cond(self, bid):
        """Node id of the condition this block branches on (None if unconditional)."""
        b = self.blocks[bid]
        if "term" not in b or "cond" not in b:
            return None
        fn = self.fn
        t = fn.n(b["term"])
        c = b["cond"]
        # the value branched on is the last expression evaluated in the block, when it belongs to the condition
        # (clang merges `a && b` into one block when temporaries have to be destroyed after the full expression)
        last = None
        for e in reversed(b["elems"]):
            if isinstance(e, int):
                last = e
                break
        if last is not None and t["k"] not in ("CXXForRangeStmt",):
            sub = set(fn.subtree(c))
            if last in sub:
                x = last
                pm = fn.parent_map()
                # climb through wrappers / implicit casts that are not separate CFG elements
                while x in pm and pm[x] in sub and fn.n(pm[x])["k"] in ("ImplicitCastExpr", "ParenExpr", "ExprWithCleanups",
                                                                          "MaterializeTemporaryExpr", "CXXBindTemporaryExpr"):
                    x = pm[x]
                return x
        if t["k"] == "BinaryOperator" and t.get("op") in ("&&", "||"):
            return c   # clang gives the LHS
        # for statement terminators the last evaluated operand of a logical chain decides
        while True:
            c = fn.strip(c, casts=False)
            nd = fn.n(c)
            if nd["k"] == "ImplicitCastExpr":
                c = fn.kids(c)[0]
                continue
            if nd["k"] == "BinaryOperator" and nd.get("op") in ("&&", "||"):
                c = fn.kids(c)[1]
                continue
            return c

    def dominators(self):
        if self._dom is None:
            dom = {b: None for b in self.reach}
            dom[self.entry] = {self.entry}
            changed = True
            while changed:
                changed = False
                for b in self.order:
                    if b == self.entry:
                        continue
                    ps = [p for p in self.pred[b] if p in self.reach and dom[p] is not None]
                    if not ps:
                        continue
                    new = set.intersection(*[dom[p] for p in ps]) | {b}
                    if new != dom[b]:
                        dom[b] = new
                        changed = True
            self._dom = dom
        return self._dom

    def loops(self):
        """Natural loops: header -> set of blocks."""
        dom = self.dominators()
        loops = {}
        for b in self.reach:
            for (t, _) in self.succ[b]:
                if dom.get(b) and t in dom[b]:       # back edge b -> t
                    body = loops.setdefault(t, {t})
                    st = [b]
                    while st:
                        x = st.pop()
                        if x in body:
                            continue
                        body.add(x)
                        st.extend(p for p in self.pred[x] if p in self.reach)
        return loops

    def elem_block(self):
        if self._elem_block is None:
            m = {}
            for bid, b in self.blocks.items():
                for idx, e in enumerate(b["elems"]):
                    nid = e if isinstance(e, int) else e.get("init")
                    m.setdefault(nid, (bid, idx))
            self._elem_block = m
        return self._elem_block

    def reachable_from(self, bid):
        out, st = set(), [bid]
        while st:
            x = st.pop()
            for (t, _) in self.succ[x]:
                if t not in out:
                    out.add(t)
                    st.append(t)
        return out


# ------------------------------------------------------------------------------------------
def cond_facts(fn, cid, truth):
    """Facts implied by expression `cid` evaluating to `truth`."""
    cid = fn.strip(cid)
    nd = fn.n(cid)
    k = nd["k"]
    if k == "UnaryOperator" and nd.get("op") == "!":
        return cond_facts(fn, fn.kids(cid)[0], not truth)
    if k == "BinaryOperator":
        op = nd["op"]
        ks = fn.kids(cid)
        if op in ("<", ">", "<=", ">=", "==", "!="):
            rel = op if truth else REL_NEG[op]
            return {norm_cmp(rel, fn.term(ks[0]), fn.term(ks[1]))}
        if op == "&&" and truth:
            return cond_facts(fn, ks[0], True) | cond_facts(fn, ks[1], True)
        if op == "||" and not truth:
            return cond_facts(fn, ks[0], False) | cond_facts(fn, ks[1], False)
        if op in ("&&", "||"):
            return set()
    if k == "CXXOperatorCallExpr" and nd.get("op") in ("==", "!=", "<", ">", "<=", ">="):
        a = nd.get("args", [])
        if len(a) == 2:
            op = nd["op"]
            rel = op if truth else REL_NEG[op]
            return {norm_cmp(rel, fn.term(a[0]), fn.term(a[1]))}
    if k == "CXXOperatorCallExpr" and nd.get("op") == "!":
        a = nd.get("args", [])
        if len(a) == 1:
            return {("false" if truth else "true", fn.term(a[0]))}
    if k == "CXXMemberCallExpr" and (nd.get("fname") or "").startswith("operator bool"):
        return {("true" if truth else "false", fn.term(nd["obj"]))}
    t = fn.term(cid)
    if t[0] == "const":
        return set()
    if k == "DeclRefExpr" and t[0] == "var":
        # a named condition (`const bool tooLong = n > max; if (tooLong) ...`): the facts of what it names
        v = fn.local_value_at(t, cid)
        if v is not None:
            from .prove import term_cond_facts
            for _ in range(4):
                v2 = fn.through_locals_at(v, cid)
                if v2 == v:
                    break
                v = v2
            fs = term_cond_facts(v, truth)
            if fs:
                return fs
    if k in CALLS and (t[0] == "op" or (t[0] == "un" and t[1] == "!")):
        # a call that is read as the expression it returns (single-return helper): the expression's own facts
        from .prove import term_cond_facts
        fs = term_cond_facts(t, truth)
        if fs:
            return fs
    return {("true" if truth else "false", t)}


class Summaries:
    """Field-based write sets and may-throw, computed bottom-up over the repo call graph."""

    def __init__(self, facts):
        self.F = facts
        self._writes = {}
        self._throws = {}
        self._stack = set()

    # what a function may write: set of items ("this", field) | ("param", index) | ("global", qn) | ("unknown",)
    def restoring_observer(self, fn):
        """Shape check for the one recorded 'seek and restore' observer idiom (FileReader::Length):
        the function's only state changes are seekg() calls on one member stream, and the last of
        them restores a position saved by tellg() on the same stream before the first."""
        seeks = [nd for nd in fn.nodes if nd["k"] == "CXXMemberCallExpr" and nd.get("fname") in ("seekg", "seekp")]
        if len(seeks) < 2:
            return False
        last = seeks[-1]
        if len(last.get("args", [])) != 1:
            return False
        a = fn.term(last["args"][0])
        if a[0] != "var":
            return False
        obj = fn.term(last["obj"])
        for nd in fn.nodes:
            if nd["k"] == "DeclStmt":
                for d in nd.get("decls", []):
                    if d.get("d") == a[2] and "init" in d:
                        it = fn.term(d["init"])
                        if it[0] == "call" and it[1].endswith("::tellg") and it[2] == obj and nd["id"] < seeks[0]["id"]:
                            # nothing else in the function may write
                            for x in fn.nodes:
                                if x["k"] in ("BinaryOperator", "CompoundAssignOperator") and x.get("op", "").endswith("=") \
                                        and x["op"] not in ("==", "!=", "<=", ">=") :
                                    return False
                                if x["k"] in CALLS and x not in seeks and x.get("fname") not in STD_OBSERVERS \
                                        and not (x.get("fname") or "").startswith("operator "):
                                    return False
                            return True
        return False

    def writes(self, fn):
        if fn.key in self._writes:
            return self._writes[fn.key]
        if self.restoring_observer(fn):
            self._writes[fn.key] = set()
            self.restoring = getattr(self, "restoring", set()) | {fn.key}
            return self._writes[fn.key]
        if fn.key in self._stack:
            return set()
        self._stack.add(fn.key)
        out = set()
        pidx = {p["d"]: i for i, p in enumerate(fn.params)}
        ref_params = {p["d"] for p in fn.params if p.get("ref") and not p.get("const_ref")}
        ptr_params = {p["d"] for p in fn.params if p.get("ct", "").endswith("*") and "const" not in p.get("ct", "").split("*")[0]}

        # reference locals are names for what they were bound to: a store through one is a store to that object
        ref_locals = {}
        for nd0 in fn.nodes:
            if nd0["k"] == "DeclStmt":
                for d0 in nd0.get("decls", []):
                    if d0.get("is_ref") and "init" in d0 and "d" in d0:
                        it0 = fn.term(d0["init"])
                        if it0[0] in ("mem", "idx", "un", "var", "call"):
                            ref_locals[("var", d0["n"], d0["d"])] = it0
            elif nd0["k"] == "CXXForRangeStmt" and "loopvar" in nd0:
                for d0 in fn.n(nd0["loopvar"]).get("decls", []):
                    if d0.get("is_ref") and "d" in d0:
                        ref_locals[("var", d0["n"], d0["d"])] = ("idx", fn.term(nd0["range"]), ("?elem",))

        def root_item(t, elem=False, _depth=0):
            # map an lvalue term to a write item; "@" marks element-only writes (the container's size is untouched)
            while True:
                if t[0] == "var" and t in ref_locals and _depth < 4:
                    t = ref_locals[t]
                    _depth += 1
                    continue
                if t[0] == "mem":
                    if t[1] == ("this",):
                        return ("this@" if elem else "this", t[2])
                    t = t[1]
                    continue
                if t[0] == "idx":
                    t = t[1]
                    elem = True
                    continue
                if t[0] == "un" and t[1] == "*":
                    t = t[2]
                    continue
                if t[0] == "call" and t[2] is not None:
                    # element access through an accessor (v.data(), v.at()); any other call result is a temporary
                    if t[1].split("::")[-1] in ACCESSORS:
                        t = t[2]
                        elem = True
                        continue
                    return None
                break
            if t[0] == "var":
                if t[2] in pidx and (t[2] in ref_params or t[2] in ptr_params):
                    return ("param@" if elem else "param", pidx[t[2]])
                return None
            if t[0] == "global":
                return ("global", t[1])
            if t[0] == "this":
                return ("this", "*")
            return None

        for nd in fn.nodes:
            k = nd["k"]
            if k in ("BinaryOperator", "CompoundAssignOperator") and (nd["op"] == "=" or nd["op"].endswith("=")) \
                    and nd["op"] not in ("==", "!=", "<=", ">="):
                it = root_item(fn.term(fn.kids(nd["id"])[0]))
                if it:
                    out.add(it)
            elif k == "UnaryOperator" and nd["op"] in ("++", "--"):
                it = root_item(fn.term(fn.kids(nd["id"])[0]))
                if it:
                    out.add(it)
            elif k in CALLS or k in CTORS:
                out |= self.call_writes(fn, nd, root_item)
        if fn.d.get("ctor"):
            for ini in fn.d.get("inits", []):
                if "field" in ini:
                    out.add(("this", ini["field"]))
        self._stack.discard(fn.key)
        self._writes[fn.key] = out
        return out

    def call_writes(self, fn, nd, root_item):
        """Write items (in the caller's frame) caused by call node nd."""
        out = set()
        k = nd["k"]
        callees = self.F.callees(nd)
        args = nd.get("args", [])
        params = nd.get("params", [])
        if k == "CXXOperatorCallExpr" and nd.get("mrec"):
            # member operator: first argument is the object
            obj_t = fn.term(args[0]) if args else None
            rest = args[1:]
        elif k == "CXXMemberCallExpr":
            obj_t = fn.term(nd["obj"]) if "obj" in nd else None
            rest = args
        else:
            obj_t = None
            rest = args
        if callees:
            for cal in callees:
                for it in self.writes(cal):
                    if it[0] in ("this", "this@"):
                        if obj_t is None:
                            continue
                        if obj_t == ("this",) or (obj_t[0] == "un" and obj_t[2] == ("this",)):
                            out.add(it)
                        else:
                            r = root_item(obj_t)
                            if r:
                                out.add(r)
                    elif it[0] in ("param", "param@"):
                        if it[1] < len(rest):
                            r = root_item(fn.term(rest[it[1]]), it[0] == "param@")
                            if r:
                                out.add(r)
                    elif it[0] == "global":
                        out.add(it)
        elif nd.get("fn"):
            # external (std / libc) callee: non-const method writes its object unless an observer;
            # non-const reference / pointer arguments are written
            name = nd.get("fname") or ""
            if obj_t is not None and nd.get("mrec") and not nd.get("mconst") and not nd.get("mstatic") \
                    and name not in STD_OBSERVERS and k != "CXXConstructExpr":
                r = root_item(obj_t)
                if r:
                    out.add(r)
            if k not in CTORS:
                for i, a in enumerate(rest):
                    if i < len(params):
                        p = params[i]
                        if (p.get("ref") and not p.get("const_ref")) or (p.get("ptr") and not p.get("const_ptr")):
                            if self._is_prvalue_call(fn, a):
                                continue        # the value a call returned (a temporary), even when the call reads as a member
                            r = root_item(fn.term(a))
                            if r:
                                out.add(r)
        return out

    @staticmethod
    def _is_prvalue_call(fn, a):
        """The argument expression is a call that returns by value: what is handed over is a temporary, whatever term the
        call is read as (a trivial accessor `GetName()` reads as the member it returns a copy of)."""
        i = fn.strip(a, casts=False)
        nd = fn.n(i) if i is not None and i >= 0 else {}
        while nd.get("k") in ("MaterializeTemporaryExpr", "CXXBindTemporaryExpr", "ImplicitCastExpr", "ExprWithCleanups", "ParenExpr") and fn.kids(nd["id"]):
            nd = fn.n(fn.kids(nd["id"])[0])
        if nd.get("k") in ("CallExpr", "CXXMemberCallExpr"):
            rt = nd.get("ret_t") or nd.get("t") or ""
            return not rt.rstrip().endswith("&") and "*" not in rt
        return False

    def never_returns(self, fn):
        """Every path of fn ends in a throw (helpers like throwReadError)."""
        cache = self.__dict__.setdefault("_never", {})
        if fn.key in cache:
            return cache[fn.key]
        cache[fn.key] = False
        if not fn.cfg:
            return False
        g = CFG(fn, self.noreturn_call)
        res = not any(p in g.reach and p not in g.throws for p in g.pred[g.exit])
        res = res and any(b in g.reach for b in g.throws)
        cache[fn.key] = res
        return res

    def noreturn_call(self, nd):
        cs = self.F.callees(nd)
        return bool(cs) and all(self.never_returns(c) for c in cs)

    def may_throw(self, fn):
        """Explicit `throw` reachable in fn or in a repo callee (ordinary errors only)."""
        if fn.key in self._throws:
            return self._throws[fn.key]
        if fn.d.get("noexcept"):
            self._throws[fn.key] = False
            return False
        self._throws[fn.key] = False  # recursion guard
        res = False
        catch_nodes = set()
        for nd in fn.nodes:
            if nd["k"] == "CXXCatchStmt":
                catch_nodes |= set(fn.subtree(nd["id"]))
        for nd in fn.nodes:
            if nd["k"] == "CXXThrowExpr":
                res = True
                break
            if nd["k"] in CALLS or nd["k"] in CTORS:
                for cal in self.F.callees(nd):
                    if self.may_throw(cal):
                        res = True
                        break
            if res:
                break
        self._throws[fn.key] = res
        return res

    def call_may_throw(self, nd):
        for cal in self.F.callees(nd):
            if self.may_throw(cal):
                return True
        return False


class Engine:
    """Context-sensitive forward must-analysis with per-site observation."""

    MAX_DEPTH = 10

    def __init__(self, facts, summaries=None, watch_external=()):
        self.F = facts
        self.S = summaries or Summaries(facts)
        self.memo = {}
        self.site = {}        # (fn.key, node id) -> list of frozenset facts (one per analysed context)
        self.block_in = {}    # (fn.key, block id) -> list of frozenset facts at block entry (fix-point, per context)
        self.cfgs = {}
        self.contexts = 0
        self.watch_external = set(watch_external)
        self.stack = []
        self.observing = True
        self.observed_ctx = set()

    def cfg(self, fn):
        c = self.cfgs.get(fn.key)
        if c is None:
            c = CFG(fn, self.S.noreturn_call)
            self.cfgs[fn.key] = c
        return c

    # ---------------------------------------------------------------- transfer
    def _kill(self, facts, target):
        """Remove facts that mention lvalue term `target` (events are kept)."""
        if target is None:
            return facts
        this_member = target[0] == "mem" and target[1] == ("this",)
        out = set()
        for f in facts:
            if f[0] == "ev":
                out.add(f)
                continue
            if mentions(f, target):
                continue
            if this_member and _has_this_call(f):
                continue      # a method result may depend on the member just written
            out.add(f)
        return out

    def _iterator_range_facts(self, v, it, facts):
        """v = std::distance(R.begin(), p) where p was obtained by a search over [R.begin(), R.end()): 0 <= v <= R.size()."""
        if not (it[0] == "call" and it[1] == "std::distance" and len(it[3]) == 2):
            return set()
        b, p = it[3]
        if not (b[0] == "call" and b[1].split("::")[-1] in ("begin", "cbegin") and b[2] is not None):
            return set()
        R = b[2]
        for f in facts:
            if f[0] == "==" and p in (f[1], f[2]):
                src = f[2] if f[1] == p else f[1]
                if src[0] == "call" and src[1] in ("std::find_if", "std::find", "std::find_if_not", "std::lower_bound", "std::upper_bound", "std::adjacent_find") \
                        and len(src[3]) >= 2 and src[3][0][0] == "call" and src[3][0][2] == R and src[3][1][0] == "call" and src[3][1][2] == R:
                    return {("<=", v, ("size", R)), ("<=", ("const", 0), v)}
        return set()

    def _search_refusal_events(self, cf, ldefs):
        """`it = find_if(R.begin(), R.end(), pred); if (it != R.end()) throw` (or `if (any_of(...)) throw`), on the branch
        that goes on: every element failed the predicate - the same per-element refusal a loop `for (x : R) if (pred(x)) throw`
        yields at its exit."""
        out = set()
        for f in cf:
            cands = []
            if f[0] == "==":
                for (x, y) in ((f[1], f[2]), (f[2], f[1])):
                    x2 = substitute(x, ldefs) if ldefs else x
                    if x2[0] == "call" and x2[1] in ("std::find_if",) and len(x2[3]) == 3 and y == x2[3][1]:
                        cands.append((x2, False))
            elif f[0] in ("false", "true"):
                # (the result may have been named by a local first: `const bool found = std::any_of(...); if (found) throw`)
                c0 = substitute(f[1], ldefs) if ldefs and f[1][0] == "var" else f[1]
                if c0[0] == "call" and len(c0[3]) == 3 and ((f[0] == "false" and c0[1] == "std::any_of") or (f[0] == "true" and c0[1] == "std::none_of")):
                    cands.append((c0, False))
            for (c, _neg) in cands:
                lam = c[3][2]
                if lam[0] != "lambda":
                    continue
                lf = self.F.functions.get(lam[1])
                if lf is None:
                    continue
                rets = [x for x in lf.nodes if x["k"] == "ReturnStmt" and "value" in x]
                if len(rets) != 1:
                    continue
                pt = lf.term(rets[0]["value"])
                if pt[0] == "op" and pt[1] in ("<", "<=", ">", ">=", "==", "!="):
                    g = negate(norm_cmp(pt[1], pt[2], pt[3]))
                    out.add(("ev", "each", ("ev", "passed", norm_cmp(g[0], g[1], g[2]))))
                elif pt[0] == "call":
                    out.add(("ev", "each", ("ev", "passed", ("false", pt))))
                elif pt[0] == "un" and pt[1] == "!" and pt[2][0] == "call":
                    out.add(("ev", "each", ("ev", "passed", ("true", pt[2]))))
        return out

    def _rewrite_through_definition(self, facts, v):
        """Before local `v` is overwritten: what was known about v is restated about the expression that defined it
        (v == d, d not mentioning v), so `n = 4096 - r; if (n > size) n = size;` keeps `size < 4096 - r` on the taken arm."""
        d = None
        for f in facts:
            if f[0] == "==" and v in (f[1], f[2]):
                o = f[2] if f[1] == v else f[1]
                if not mentions(o, v) and o[0] in ("var", "mem", "op", "const"):
                    if d is None or len(repr(o)) < len(repr(d)):
                        d = o
        if d is None:
            return facts
        extra = set()
        for f in facts:
            if f[0] in ("<", "<=", "==", "!=") and mentions(f, v):
                g = substitute(f, {v: d})
                if g[1] != g[2] and not mentions(g, v):
                    extra.add(norm_cmp(g[0], g[1], g[2]))
        return facts | extra

    def _kill_item(self, fn, facts, item):
        if item[0] == "this":
            if item[1] == "*":
                return {f for f in facts if f[0] == "ev" or not mentions(f, ("this",))}
            return self._kill(facts, ("mem", ("this",), item[1]))
        if item[0] == "param":
            p = fn.params[item[1]]
            return self._kill(facts, ("var", p["n"], p["d"]))
        if item[0] == "global":
            return self._kill(facts, ("global", item[1]))
        return facts

    def _root_var(self, t):
        while True:
            if t[0] in ("mem", "idx"):
                if t[0] == "mem" and t[1] == ("this",):
                    return t
                t = t[1]
                continue
            if t[0] == "un" and t[1] in ("*", "&"):
                t = t[2]
                continue
            if t[0] == "call" and t[2] is not None:
                if t[1].split("::")[-1] in ACCESSORS:
                    t = t[2]
                    continue
                return ("temporary",)
            return t

    def transfer_elem(self, fn, e, facts, depth):
        """Apply one CFG element. Returns the new fact set."""
        if isinstance(e, dict):
            nid = e["init"]
            self._observe(fn, nid, facts)
            if "init_field" in e:
                tgt = ("mem", ("this",), e["init_field"])
                facts = self._kill(facts, tgt)
                it = fn.term(nid)
                if it[0] != "?" and not mentions(it, tgt) and it[0] in ("var", "const", "mem", "op"):
                    facts = facts | {norm_cmp("==", tgt, it)}
                elif it[0] == "ctor" and (it[1] or "").startswith("std::vector") and len(it[2]) >= 1:
                    n0 = fn.n(fn.strip(nid, casts=False))
                    ps = n0.get("params", [])
                    if ps and "iw" in ps[0] and not n0.get("list_init"):
                        facts = facts | {norm_cmp("==", ("size", tgt), it[2][0])}
            return facts
        nd = fn.n(e)
        k = nd["k"]
        self._observe(fn, e, facts)
        if k in ("BinaryOperator", "CompoundAssignOperator"):
            op = nd["op"]
            if op == "=" or (op.endswith("=") and op not in ("==", "!=", "<=", ">=")):
                ks = fn.kids(e)
                lt = fn.term(ks[0])
                if lt[0] == "var":
                    facts = self._rewrite_through_definition(facts, lt)
                facts = self._kill(facts, lt)
                if op == "=":
                    rt = fn.term(ks[1])
                    if rt[0] != "?" and not mentions(rt, lt) and lt[0] in ("var", "mem"):
                        facts = facts | {norm_cmp("==", lt, rt)}
            return facts
        if k == "UnaryOperator" and nd["op"] in ("++", "--"):
            lt = fn.term(fn.kids(e)[0])
            return self._kill(facts, lt)
        if k == "DeclStmt":
            for d in nd.get("decls", []):
                if "d" not in d:
                    continue
                v = ("var", d["n"], d["d"])
                facts = self._kill(facts, v)
                if "init" in d and not d.get("is_ref"):
                    it = fn.term(d["init"])
                    rf = getattr(self, "_ret_facts", {}).get((fn.key, fn.strip(d["init"])))
                    if rf:
                        for g in rf:
                            g2 = substitute(g, {("RET",): v})
                            facts = facts | {norm_cmp(g2[0], g2[1], g2[2]) if g2[0] in ("<", "<=", "==", "!=") and len(g2) == 3 else g2}
                    if it[0] not in ("?", "ctor", "initlist", "lambda") and not mentions(it, v):
                        facts = facts | {norm_cmp("==", v, it)}
                        facts = facts | self._iterator_range_facts(v, it, facts)
                    elif it[0] == "ctor" and it[1] and it[1].startswith("std::vector") and len(it[2]) >= 1 \
                            and fn.n(fn.strip(d["init"])).get("list_init") is False:
                        n0 = fn.n(fn.strip(d["init"]))
                        ps = n0.get("params", [])
                        if ps and "iw" in ps[0]:
                            facts = facts | {norm_cmp("==", ("size", v), it[2][0])}
                elif "init" in d and d.get("is_ref"):
                    # a reference local is an alias: record the aliasing as an equality of lvalues
                    it = fn.term(d["init"])
                    if it[0] not in ("?",):
                        facts = facts | {("==", ("alias", v), it)} if False else facts
            return facts
        if k in CALLS or k in CTORS:
            return self.transfer_call(fn, nd, facts, depth)
        return facts

    def transfer_call(self, fn, nd, facts, depth):
        k = nd["k"]
        args = nd.get("args", [])
        fq = nd.get("fq") or ""
        name = nd.get("fname") or ""
        if k == "CXXOperatorCallExpr" and nd.get("mrec"):
            obj_t = fn.term(args[0]) if args else None
            rest = args[1:]
        elif k == "CXXMemberCallExpr":
            obj_t = fn.term(nd["obj"]) if "obj" in nd else None
            rest = args
        else:
            obj_t = None
            rest = args
        callees = self.F.callees(nd)
        exit_sets = []
        if callees and depth < self.MAX_DEPTH:
            for cal in callees:
                if cal.key in self.stack:
                    continue
                entry = self._translate_in(fn, facts, cal, obj_t, rest)
                ex = self.analyze(cal, entry, depth + 1)
                if ex is not None:
                    exit_sets.append((cal, ex))
        # `std::for_each(R.begin(), R.end(), [..](elem) { body })` is `for (elem : R) body`: what every run of the body
        # establishes (its refusals, its calls) holds for each element afterwards. Captured variables are the caller's own
        # declarations, so the caller's facts are the body's entry facts.
        each_events = set()
        if fq == "std::for_each" and len(args) == 3 and depth < self.MAX_DEPTH:
            lam = fn.term(args[2])
            lf = self.F.functions.get(lam[1]) if lam[0] == "lambda" else None
            b0, e0 = fn.term(args[0]), fn.term(args[1])
            whole = b0[0] == "call" and e0[0] == "call" and b0[1].split("::")[-1] in ("begin", "cbegin") and e0[1].split("::")[-1] in ("end", "cend") \
                and (b0[2], b0[3]) == (e0[2], e0[3])
            if lf is not None and whole and lf.cfg and lf.key not in self.stack:
                lex = self.analyze(lf, frozenset(facts), depth + 1)
                for f in (lex or ()):
                    if f[0] == "ev" and f[1] != "each" and f not in facts:
                        each_events.add(("ev", "each", f))
        # kills caused by the call
        def root_item_local(t):
            return None
        for it in self.S.call_writes(fn, nd, self._mk_root_item(fn)):
            facts = self._kill_item_general(fn, facts, it)
        # std container idioms
        if nd.get("mrec", "").startswith("std::") and obj_t is not None:
            if name == "resize" and rest:
                facts = facts | {norm_cmp("==", ("size", obj_t), fn.term(rest[0]))}
            elif name == "clear":
                facts = facts | {norm_cmp("==", ("size", obj_t), ("const", 0))}
            elif name in ("push_back", "emplace_back"):
                facts = facts | {("<", ("const", 0), ("size", obj_t))}
        if k == "CXXOperatorCallExpr" and nd.get("op") == "=" and len(args) == 2:
            lt = fn.term(args[0])
            facts = self._kill(facts, lt)
            rt = fn.term(args[1])
            if rt[0] == "ctor" and rt[1] and rt[1].startswith("std::vector") and len(rt[2]) >= 1:
                n0 = fn.n(fn.strip(args[1]))
                ps = n0.get("params", [])
                if ps and "iw" in ps[0] and not n0.get("list_init"):
                    facts = facts | {norm_cmp("==", ("size", lt), rt[2][0])}
        # events
        if callees or fq in self.watch_external or k in CTORS and nd.get("callee_in_repo"):
            facts = facts | {("called", fq, tuple(fn.term(a) for a in rest)),
                             ("ev", "called", fq)}
        elif k in CTORS and nd.get("ctor_rec"):
            pass
        # facts established by callees (verifier summaries), translated back
        if exit_sets:
            common = None
            rcommon = None
            for cal, ex in exit_sets:
                back = self._translate_out(fn, ex, cal, obj_t, rest)
                common = back if common is None else (common & back)
                rb = self._returned_object_facts(fn, ex, cal, obj_t, rest)
                rcommon = rb if rcommon is None else (rcommon & rb)
            facts = facts | (common or set())
            # what the callee established about the object it returns (`T r; ...; return r;`), kept for the declaration
            # this call initialises (`T x = f(...)`), stated there about x
            if not hasattr(self, "_ret_facts"):
                self._ret_facts = {}
            self._ret_facts[(fn.key, nd["id"])] = rcommon or set()
        return facts | each_events

    def _returned_object_facts(self, fn, ex, cal, obj_t, rest):
        """Exit facts of `cal` about the one local it returns on every returning path, with that local replaced by
        ("RET",) and the parameters by the arguments; facts mentioning any other callee local are dropped."""
        rets = [x for x in cal.nodes if x["k"] == "ReturnStmt" and "value" in x]
        if not rets:
            return set()
        rv = {cal.term(r["value"]) for r in rets}
        if len(rv) != 1:
            return set()
        r = list(rv)[0]
        own = self._own_decls(cal)
        if r[0] != "var" or r[2] not in own or any(r == ("var", p["n"], p["d"]) for p in cal.params):
            return set()
        on_this = obj_t is not None and (obj_t == ("this",) or (obj_t[0] == "un" and obj_t[2] == ("this",)))
        inv = {}
        for i, p in enumerate(cal.params):
            if i < len(rest):
                at = fn.term(rest[i])
                if at[0] != "?":
                    inv[("var", p["n"], p["d"])] = at
        out = set()
        for f in ex:
            if f[0] in ("ev", "called") or not mentions(f, r):
                continue
            if any(s[0] == "var" and s != r and s not in inv for s in subterms(f)):
                continue
            if mentions(f, ("this",)) and not on_this:
                continue
            g = substitute(f, {r: ("RET",)})
            g = substitute(g, inv)
            out.add(g)
        return out

    def _mk_root_item(self, fn):
        pidx = {p["d"]: i for i, p in enumerate(fn.params)}

        def root_item(t, elem=False):
            # in the dataflow we kill by *term*, so return the term itself wrapped
            x = t
            while True:
                if x[0] == "idx" or (x[0] == "call" and x[2] is not None and x[1].split("::")[-1] in ACCESSORS):
                    elem = True
                    x = x[1] if x[0] == "idx" else x[2]
                    continue
                if x[0] == "mem" and x[1] != ("this",):
                    x = x[1]
                    continue
                if x[0] == "un" and x[1] in ("*", "&"):
                    x = x[2]
                    continue
                break
            return ("term@" if elem else "term", t)
        return root_item

    def _kill_elems(self, facts, root):
        """An element of container `root` was written: facts about its size survive."""
        out = set()
        ph = ("SIZEOF", "x")
        for f in facts:
            if f[0] == "ev":
                out.add(f)
                continue
            g = substitute(f, {("size", root): ph})
            if mentions(g, root):
                continue
            out.add(f)
        return out

    def _kill_item_general(self, fn, facts, it):
        if it[0] == "term@":
            root = self._root_var(it[1])
            if root == ("this",) or root == ("temporary",):
                return facts if root == ("temporary",) else {f for f in facts if f[0] == "ev" or not mentions(f, ("this",))}
            return self._kill_elems(facts, root)
        if it[0] in ("this@", "param@"):
            if it[0] == "this@":
                return self._kill_elems(facts, ("mem", ("this",), it[1]))
            p = fn.params[it[1]]
            return self._kill_elems(facts, ("var", p["n"], p["d"]))
        if it[0] == "term":
            t = it[1]
            # strip to the root object that is being modified
            root = self._root_var(t)
            if root == ("this",):
                return {f for f in facts if f[0] == "ev" or not mentions(f, ("this",))}
            return self._kill(facts, root)
        return self._kill_item(fn, facts, it)

    # ---------------------------------------------------------------- translation across calls
    def _param_map(self, fn, cal, obj_t, rest):
        mp = {}
        for i, p in enumerate(cal.params):
            if i < len(rest):
                at = fn.term(rest[i])
                if at[0] != "?":
                    mp[at] = ("var", p["n"], p["d"])
        return mp

    def _own_decls(self, fn):
        c = getattr(fn, "_own_decl_ids", None)
        if c is None:
            c = {p["d"] for p in fn.params}
            for nd in fn.nodes:
                if nd["k"] == "DeclStmt":
                    for d in nd.get("decls", []):
                        if "d" in d:
                            c.add(d["d"])
            fn._own_decl_ids = c
        return c

    def _ghost_vars(self, fn, cal, rest):
        """Caller variables the callee cannot touch, so that what is known about them stays true while the callee runs: plain
        (non-reference, non-pointer) locals and parameters of the caller whose address is never taken and which are not handed
        to this call by mutable reference. Only across calls within one translation unit, where declaration ids are unique, and
        never for a variable the callee itself declares (recursion)."""
        if fn.unit != cal.unit or fn.key == cal.key or fn.d.get("lambda") or cal.d.get("lambda"):
            return set()
        c = getattr(fn, "_ghost_candidates", None)
        if c is None:
            c = set()
            for p in fn.params:
                if not p.get("ref") and not p.get("ptr") and "*" not in (p.get("t") or "") and "&" not in (p.get("t") or ""):
                    c.add(("var", p["n"], p["d"]))
            for nd in fn.nodes:
                if nd["k"] == "DeclStmt":
                    for d in nd.get("decls", []):
                        if "d" in d and not d.get("is_ref") and not d.get("static") and "*" not in (d.get("t") or ""):
                            c.add(("var", d["n"], d["d"]))
            for nd in fn.nodes:
                if nd["k"] == "UnaryOperator" and nd.get("op") == "&":
                    ks = fn.kids(nd["id"])
                    r = self._root_var(fn.term(ks[0])) if ks else None
                    c.discard(r)
                if nd["k"] == "LambdaExpr" or nd["k"] == "lambda":
                    pass
            # anything captured by a lambda may be written by it
            for nd in fn.nodes:
                if nd["k"] == "LambdaExpr":
                    for s0 in fn.subtree(nd["id"], into_lambdas=True):
                        t0 = fn.term(s0) if fn.n(s0)["k"] == "DeclRefExpr" else None
                        if t0 is not None:
                            c.discard(t0)
                    for cap in nd.get("captures", []) or []:
                        c.discard(("var", cap.get("n"), cap.get("d")))
            fn._ghost_candidates = c
        own = self._own_decls(cal)
        out = {v for v in c if v[2] not in own}
        return out

    def _translate_in(self, fn, facts, cal, obj_t, rest):
        mp = self._param_map(fn, cal, obj_t, rest)
        on_this = obj_t is not None and (obj_t == ("this",) or (obj_t[0] == "un" and obj_t[2] == ("this",)))
        same_this = on_this or (obj_t is None and cal.cls and not cal.d.get("static") and fn.cls and False)
        out = set()
        pvars = {("var", p["n"], p["d"]) for p in cal.params}
        ghosts = self._ghost_vars(fn, cal, rest)
        if ghosts:
            # handed to the callee by mutable reference / pointer: the callee may write it
            for i, p in enumerate(cal.params):
                if i < len(rest) and ((p.get("ref") and not p.get("const_ref")) or "*" in (p.get("t") or "")):
                    ghosts.discard(self._root_var(fn.term(rest[i])))
        allowed = pvars | ghosts
        for f in facts:
            if f[0] == "ev":
                out.add(f)
                continue
            g = f
            if obj_t is not None and not on_this and cal.cls:
                g = substitute(g, {obj_t: ("NEWTHIS",)})
                if mentions(g, ("this",)):
                    continue          # about the caller's own object, meaningless in the callee
                g = substitute(g, {("NEWTHIS",): ("this",)})
            elif not on_this and mentions(g, ("this",)):
                continue
            g = substitute(g, mp)
            ok = True
            for s in subterms(g):
                if s[0] == "var" and s not in allowed:
                    ok = False
                    break
                if s == ("this",) and not (on_this or (obj_t is not None and cal.cls)):
                    ok = False
                    break
            if ok:
                out.add(g)
        # a by-value parameter *is* the argument expression, when that is plain arithmetic over things the callee cannot change
        # before it looks (members of the shared object are re-judged by the callee's own kills)
        for i, p in enumerate(cal.params):
            if i >= len(rest) or p.get("ref") or "iw" not in p:
                continue
            at = fn.term(rest[i])
            if at[0] not in ("op", "call", "cond") or (at[0] == "call" and at[1] not in ("std::min", "std::max")):
                continue
            good = True
            for s in subterms(at):
                if s[0] == "var" and s not in ghosts:
                    good = False
                elif s == ("this",) and not on_this:
                    good = False
                elif s[0] == "call" and s[1] not in ("std::min", "std::max"):
                    good = False
                elif s[0] in ("?", "lambda", "ctor", "opcall", "global", "idx", "un"):
                    good = False
            if good:
                out.add(norm_cmp("==", ("var", p["n"], p["d"]), at))
        return frozenset(out)

    def _translate_out(self, fn, ex, cal, obj_t, rest):
        on_this = obj_t is not None and (obj_t == ("this",) or (obj_t[0] == "un" and obj_t[2] == ("this",)))
        inv = {}
        written = {it[1] for it in self.S.writes(cal) if it[0] == "param"}
        for i, p in enumerate(cal.params):
            if i < len(rest):
                at = fn.term(rest[i])
                if at[0] != "?":
                    inv[("var", p["n"], p["d"])] = at
        pvars = set(inv.keys())
        out = set()
        # re-express callee locals through the members they were stored to (m_Count = localCount)
        tomem = {}
        for f in ex:
            if f[0] == "==":
                for (x, y) in ((f[1], f[2]), (f[2], f[1])):
                    if x[0] == "var" and x not in pvars and y[0] == "mem" and y[1] == ("this",):
                        tomem.setdefault(x, y)
        if tomem:
            ex = set(ex) | {substitute(f, tomem) for f in ex if f[0] in ("<", "<=", "==", "!=")}
        for f in ex:
            if f[0] == "ev":
                out.add(f)
                # a refusal the callee made on its parameters is a refusal on the arguments it was given
                if f[1] in ("passed", "each") and any(s[0] == "var" and s in pvars for s in subterms(f)):
                    if all(s[0] != "var" or s in pvars for s in subterms(f)):
                        g = substitute(f, inv)
                        if mentions(f, ("this",)) and not on_this:
                            g = substitute(g, {("this",): obj_t}) if obj_t is not None else None
                        if g is not None:
                            out.add(g)
                continue
            ok = True
            for s in subterms(f):
                if s[0] == "var" and s not in pvars:
                    ok = False
                    break
            if not ok:
                continue
            g = substitute(f, inv)
            if mentions(f, ("this",)):
                if on_this:
                    pass
                elif obj_t is not None:
                    g = substitute(g, {("this",): obj_t})
                else:
                    continue
            out.add(g)
        return out

    # ---------------------------------------------------------------- per function
    def _observe(self, fn, nid, facts):
        if self.observing:
            self.site.setdefault((fn.key, nid), []).append(frozenset(facts))

    def analyze(self, fn, entry=frozenset(), depth=0):
        """Returns the must-facts at normal exit (None if the function never returns normally)."""
        if not fn.cfg:
            return frozenset()
        entry = frozenset(entry)
        key = (fn.key, entry)
        if key in self.memo and (not self.observing or key in self.observed_ctx):
            return self.memo[key]
        want_observe = self.observing
        self.observing = False          # fix-point iteration: transient states are not observations
        self.contexts += 1
        self.stack.append(fn.key)
        g = self.cfg(fn)
        IN = {g.entry: set(entry)}
        OUT = {}
        edge_out = {}
        loops = g.loops()
        # blocks inside each loop, to promote per-iteration events at loop exits
        work = list(g.order)
        iters = 0
        site_backup = None
        while work and iters < 2000:
            iters += 1
            b = work.pop(0)
            if b != g.entry:
                ps = [p for p in g.pred[b] if p in g.reach and (p, b) in edge_out]
                if not ps:
                    continue
                new_in = self._merge([edge_out[(p, b)] for p in ps])
                if b in loops:
                    inv = self._counting_loop_invariant(fn, g, b, loops[b],
                                                        [edge_out[(p, b)] for p in ps if p not in loops[b]])
                    if inv:
                        new_in |= inv
                if b in IN and IN[b] == new_in and b in OUT and b not in loops:
                    continue
                IN[b] = new_in
            cur = set(IN[b])
            for e in g.blocks[b]["elems"]:
                cur = self.transfer_elem(fn, e, cur, depth)
            OUT[b] = cur
            cid = g.branch_cond(b)
            for (t, label) in g.succ[b]:
                s = set(cur)
                if label is not None and cid is not None:
                    cf = cond_facts(fn, cid, label)
                    # a test on a local that only names a value is a test on that value
                    if fn.local_definitions():
                        extra = set()
                        for f in cf:
                            f2 = fn.through_locals(f)
                            if f2 != f:
                                extra.add(norm_cmp(f2[0], f2[1], f2[2]) if f2[0] in ("<", "<=", "==", "!=") and len(f2) == 3 else f2)
                        cf = cf | extra
                    s |= cf
                    # refusal: the other branch throws
                    others = [x for (x, l) in g.succ[b] if l is not None and l != label]
                    sib = [sb["b"] for sb in g.blocks[b]["succs"] if sb["b"] is not None]
                    for o in sib:
                        if o != t and self._throws_only(g, o):
                            # the event outlives the locals it mentions: state it about the expressions that define them
                            ldefs = {}
                            for df in cur:
                                if df[0] == "==":
                                    for (x, y) in ((df[1], df[2]), (df[2], df[1])):
                                        if x[0] == "var" and not mentions(y, x) and y[0] in ("op", "mem", "const", "size"):
                                            ldefs.setdefault(x, y)
                            cdefs = dict(ldefs)
                            for df in cur:
                                if df[0] == "==":
                                    for (x, y) in ((df[1], df[2]), (df[2], df[1])):
                                        if x[0] == "var" and y[0] == "call" and y[1].startswith("std::") and not mentions(y, x):
                                            cdefs.setdefault(x, y)
                            s |= self._search_refusal_events(cf, cdefs)
                            for f in cf:
                                s.add(("ev", "passed", f))
                                if ldefs and f[0] in ("<", "<=", "==", "!="):
                                    g2 = substitute(f, ldefs)
                                    if g2 != f:
                                        s.add(("ev", "passed", norm_cmp(g2[0], g2[1], g2[2])))
                # loop exit: per-iteration events that hold at every latch become "each" events
                if b in loops and t not in loops[b]:
                    latches = [p for p in g.pred[b] if p in loops[b] and p in OUT]
                    if latches:
                        common = None
                        for p in latches:
                            so = edge_out.get((p, b), OUT[p])
                            common = set(so) if common is None else (common & so)
                        for f in common or ():
                            if f[0] == "ev" and f not in s and f[1] != "each":
                                s.add(("ev", "each", f))
                old = edge_out.get((b, t))
                if old != s:
                    edge_out[(b, t)] = s
                    if t not in work:
                        work.append(t)
        # exit facts: intersection over normal-return predecessors of the exit block
        exits = [edge_out[(p, g.exit)] for p in g.pred[g.exit]
                 if p in g.reach and (p, g.exit) in edge_out and p not in g.throws]
        # the same semantic must-merge as at any join (a fact of one returning path that every other one entails survives)
        res = frozenset(self._merge(exits)) if exits else None
        self.memo[key] = res
        self.observing = want_observe
        if want_observe:
            # one more pass over the converged block-entry states, this time recording what holds at each site
            self.observed_ctx.add(key)
            for b in g.order:
                if b not in IN:
                    continue
                cur = set(IN[b])
                self.block_in.setdefault((fn.key, b), []).append(frozenset(cur))
                for e in g.blocks[b]["elems"]:
                    cur = self.transfer_elem(fn, e, cur, depth)
        self.stack.pop()
        return res

    def _merge(self, sets):
        """Must-merge of predecessor fact sets. Syntactic intersection, plus comparison facts of one
        predecessor that every other predecessor *entails* (and equalities weakened to <=)."""
        if len(sets) == 1:
            return set(sets[0])
        from .prove import prove_fact
        common = set(sets[0])
        for s in sets[1:]:
            common &= s
        cand = set()
        for s in sets:
            for f in s:
                if f in common or f[0] not in ("<", "<=", "=="):
                    continue
                cand.add(f)
                if f[0] == "==":
                    cand.add(("<=", f[1], f[2]))
                    cand.add(("<=", f[2], f[1]))
        for f in cand:
            if f in common:
                continue
            if all((f in s) or prove_fact(s, f) for s in sets):
                common.add(f)
        return common

    def _counting_loop_invariant(self, fn, g, header, body, entry_sets):
        """Canonical counting loop `for (…; v < N; ++v)`: v <= N is an invariant if it holds on entry, the only
        stores to v inside the loop are increments by one executed under v < N, and N is not written in the loop."""
        from .prove import prove_le
        cid = g.branch_cond(header)
        if cid is None or not entry_sets:
            return None
        cf = cond_facts(fn, cid, True)
        if len(cf) != 1:
            return None
        f = next(iter(cf))
        if f[0] != "<":
            return None
        v, N = f[1], f[2]
        if v[0] != "var":
            return None
        # the true edge must lead into the loop body
        tsucc = [t for (t, l) in g.succ[header] if l is True]
        if not tsucc or tsucc[0] not in body:
            return None
        for b in body:
            for e in g.blocks[b]["elems"]:
                if not isinstance(e, int):
                    continue
                nd = fn.n(e)
                k = nd["k"]
                if k == "UnaryOperator" and nd.get("op") in ("++", "--"):
                    t = fn.term(fn.kids(e)[0])
                    if t == v and nd["op"] == "++":
                        if b == header:
                            return None
                        continue
                    if t == v or mentions(N, t):
                        return None
                elif k in ("BinaryOperator", "CompoundAssignOperator") and nd.get("op", "").endswith("=") \
                        and nd["op"] not in ("==", "!=", "<=", ">="):
                    t = fn.term(fn.kids(e)[0])
                    if t == v or mentions(N, self._root_var(t)) or mentions(N, t):
                        return None
                elif k == "DeclStmt":
                    for d in nd.get("decls", []):
                        if ("var", d.get("n"), d.get("d")) == v:
                            return None
                elif k in CALLS or k in CTORS:
                    for it in self.S.call_writes(fn, nd, self._mk_root_item(fn)):
                        if it[0] in ("term", "term@"):
                            r = self._root_var(it[1])
                            if r == v or (mentions(N, r) and not (it[0] == "term@" and N == ("size", r))):
                                return None
                        elif it[0] == "this" and mentions(N, ("this",)):
                            return None
        # every increment of v must be dominated by the header's true edge: increments sit in the body, and every
        # path into the body passes the header condition (natural loop), so v < N held when the iteration began;
        # a second increment in one iteration would break the induction
        incs = 0
        for b in body:
            for e in g.blocks[b]["elems"]:
                if isinstance(e, int):
                    nd = fn.n(e)
                    if nd["k"] == "UnaryOperator" and nd.get("op") == "++" and fn.term(fn.kids(e)[0]) == v:
                        incs += 1
        if incs != 1:
            return None
        for s in entry_sets:
            if not prove_le(s, v, N):
                return None
        return {("<=", v, N)}

    def _throws_only(self, g, b, seen=None):
        """Block b leads to a throw on every path without passing a branch (a refusal arm)."""
        seen = seen or set()
        while True:
            if b in g.throws:
                return True
            if b in seen:
                return False
            seen.add(b)
            ss = g.succ.get(b, [])
            if len(ss) != 1:
                return False
            b = ss[0][0]

    # ---------------------------------------------------------------- queries
    def facts_at(self, fn, nid):
        """Must-facts at node nid over all analysed contexts (None if the site was never reached)."""
        obs = self.site.get((fn.key, nid))
        if not obs:
            return None
        return obs


def final_site_facts(engine, fn, nid):
    """Intersection over contexts of the *final* (fix-point) observation at a site.

    During fix-point iteration a site may be observed with transient supersets; because the
    analysis is a decreasing must-analysis the intersection of all observations equals the
    intersection of the final ones."""
    obs = engine.site.get((fn.key, nid))
    if not obs:
        return None
    out = None
    for s in obs:
        out = set(s) if out is None else (out & s)
    return out


# ------------------------------------------------------------------------------------------
def implies(facts, goal, defs=None, depth=3):
    """Small entailment check: does the fact set imply `goal` (a normalised comparison)?"""
    if goal in facts:
        return True
    h = goal[0]
    if h in ("<", "<=", "==", "!="):
        a, b = goal[1], goal[2]
        if a[0] == "const" and b[0] == "const":
            return {"<": a[1] < b[1], "<=": a[1] <= b[1], "==": a[1] == b[1], "!=": a[1] != b[1]}[h]
        if h == "<=":
            if a == b:
                return True
            if ("<", a, b) in facts or norm_cmp("==", a, b) in facts:
                return True
        if h == "!=":
            if ("<", a, b) in facts or ("<", b, a) in facts:
                return True
        if depth <= 0:
            return False
        # equalities: rewrite either side
        for f in facts:
            if f[0] == "==":
                for (x, y) in ((f[1], f[2]), (f[2], f[1])):
                    if x == a and y != a:
                        if implies(facts - {f}, norm_cmp_keep(h, y, b), defs, depth - 1):
                            return True
                    if x == b and y != b:
                        if implies(facts - {f}, norm_cmp_keep(h, a, y), defs, depth - 1):
                            return True
        if h in ("<", "<="):
            # transitivity: a < m (or <=) and m <= b
            for f in facts:
                if f[0] in ("<", "<=") and f[1] == a and f[2] != b:
                    m = f[2]
                    rest = "<=" if (f[0] == "<" or h == "<=") else "<"
                    if h == "<" and f[0] == "<":
                        rest = "<="
                    elif h == "<" and f[0] == "<=":
                        rest = "<"
                    else:
                        rest = "<="
                    if implies(facts - {f}, (rest, m, b), defs, depth - 1):
                        return True
    return False


def norm_cmp_keep(h, a, b):
    if h in ("==", "!="):
        return norm_cmp(h, a, b)
    return (h, a, b)

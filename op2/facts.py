"""Loading and merging of extracted facts; expression helpers shared by all rules."""
import json
import os

from .extract import AnalysisBroken, extract

WRAPPERS = {"ParenExpr", "ExprWithCleanups", "MaterializeTemporaryExpr", "CXXBindTemporaryExpr",
            "ConstantExpr", "CXXDefaultArgExpr", "CXXDefaultInitExpr", "SubstNonTypeTemplateParmExpr"}
CASTS = {"ImplicitCastExpr", "CStyleCastExpr", "CXXStaticCastExpr", "CXXFunctionalCastExpr",
         "CXXReinterpretCastExpr", "CXXConstCastExpr"}
CALLS = {"CallExpr", "CXXMemberCallExpr", "CXXOperatorCallExpr"}
CTORS = {"CXXConstructExpr", "CXXTemporaryObjectExpr"}


# function key -> member name, for methods whose whole body is `return <this-member>;` (filled by Facts)
GETTERS = {}


class Function:
    def __init__(self, d, unit):
        self.d = d
        self.unit = unit
        self.key = d["key"]
        self.qn = d["qn"]
        self.name = d["name"]
        self.nodes = d["nodes"]
        self.file = d["loc"]["file"]
        self.line = d["loc"]["line"]
        self.cls = d.get("class")
        self.params = d.get("params", [])
        self.body = d.get("body")
        self.cfg = d.get("cfg")
        self._parent = None

    def __repr__(self):
        return "<fn %s>" % self.key

    # --- node access
    def n(self, i):
        return self.nodes[i]

    def kids(self, i):
        return [c for c in self.nodes[i].get("c", []) if c is not None and c >= 0]

    def parent_map(self):
        if self._parent is None:
            pm = {}
            for nd in self.nodes:
                for c in nd.get("c", []):
                    if c is not None and c >= 0 and c not in pm:
                        pm[c] = nd["id"]
                for k in ("cond", "then", "else", "init", "inc", "body", "range", "loopvar", "try", "value",
                          "condvar", "range_stmt", "begin_stmt", "end_stmt"):
                    v = nd.get(k)
                    if isinstance(v, int) and v >= 0 and v not in pm:
                        pm[v] = nd["id"]
                for h in nd.get("handlers", []) or []:
                    pm.setdefault(h, nd["id"])
            self._parent = pm
        return self._parent

    def loc(self, i):
        nd = self.nodes[i]
        return "%s:%s" % (nd.get("f") or os.path.basename(self.file), nd.get("l"))

    EXPLICIT_CASTS = {"CStyleCastExpr", "CXXStaticCastExpr", "CXXFunctionalCastExpr", "CXXReinterpretCastExpr"}

    def strip(self, i, casts=True):
        """Skip wrappers (and, by default, casts) down to the meaningful expression."""
        while i is not None and i >= 0:
            nd = self.nodes[i]
            k = nd["k"]
            if getattr(self, "keep_casts", False) and k in self.EXPLICIT_CASTS and nd.get("iw"):
                return i
            if k in WRAPPERS or (casts and k in CASTS):
                ks = self.kids(i)
                if not ks:
                    return i
                i = ks[0]
                continue
            if k in CTORS and nd.get("copy_or_move") and len(nd.get("args", [])) == 1 and casts:
                # copy/move construction of a temporary: value identity
                i = nd["args"][0]
                continue
            return i
        return i

    def subtree(self, i, into_lambdas=False):
        """All node ids in the syntactic subtree rooted at i (pre-order)."""
        out = []
        stack = [i]
        seen = set()
        while stack:
            x = stack.pop()
            if x is None or x < 0 or x in seen:
                continue
            seen.add(x)
            out.append(x)
            nd = self.nodes[x]
            ch = list(nd.get("c", []))
            for k in ("init", "condvar", "cond", "then", "else", "inc", "body", "range", "loopvar", "try", "obj",
                      "callee"):
                v = nd.get(k)
                if isinstance(v, int):
                    ch.append(v)
            ch += nd.get("handlers", []) or []
            ch += nd.get("args", []) or []
            for c in reversed(ch):
                if c is not None and c >= 0 and c not in seen:
                    stack.append(c)
        return out

    def all_calls(self):
        return [nd for nd in self.nodes if nd["k"] in CALLS or nd["k"] in CTORS]

    def ref_aliases(self):
        """{decl id: term} for reference locals bound to a sub-object whose identity cannot change while the reference
        lives: a member path (with constant indices) below a variable, a parameter or *this. (`auto& h = file.header;`)"""
        c = getattr(self, "_ref_aliases", None)
        if c is not None:
            return c
        c = self._ref_aliases = {}
        def fixed_path(t):
            if t == ("this",) or (t[0] == "un" and t[1] == "*" and t[2] == ("this",)):
                return True
            if t[0] == "var":
                return True
            if t[0] == "mem":
                return fixed_path(t[1])
            if t[0] == "idx":
                return t[2][0] == "const" and fixed_path(t[1])
            return False
        for nd in self.nodes:
            if nd["k"] != "DeclStmt":
                continue
            for d in nd.get("decls", []):
                if not d.get("is_ref") or "init" not in d or "d" not in d:
                    continue
                ini = self.nodes[self.strip(d["init"])] if self.strip(d["init"]) is not None else {}
                if ini.get("k") in CALLS or ini.get("k") in CTORS or ini.get("k") == "MaterializeTemporaryExpr":
                    continue
                t = self.term(d["init"])
                if t[0] == "un" and t[1] == "*" and t[2] == ("this",):
                    t = ("this",)
                if t[0] in ("mem", "idx", "this") and fixed_path(t):
                    c[d["d"]] = t
        return c

    # --- locals read through their definitions -------------------------------
    @staticmethod
    def _root(t):
        """The storage a term designates, as (base, first field or None): base is a variable, *this or a global; a
        dereference starts a new object (the pointee), which is only the same object as another dereference of that base."""
        deref = False
        field = None
        while isinstance(t, tuple) and t:
            if t[0] == "mem":
                field = t[2]
                t = t[1]
            elif t[0] == "idx":
                t = t[1]
            elif t[0] == "un" and t[1] == "*":
                deref = True
                field = None
                t = t[2]
            elif t[0] == "un" and t[1] == "&":
                t = t[2]
            elif t[0] in ("var", "global", "this"):
                return (("deref", t) if deref else t, None if deref else field)
            else:
                return None
        return None

    def _roots_mentioned(self, t, acc=None):
        acc = set() if acc is None else acc
        if not isinstance(t, tuple) or not t:
            return acc
        if t[0] in ("var", "global", "this"):
            acc.add((t, None))
            return acc
        if t[0] in ("mem", "idx") or (t[0] == "un" and t[1] in ("*", "&")):
            r = self._root(t)
            if r is not None:
                acc.add(r)
            # index expressions inside the path are read as well
            u = t
            while isinstance(u, tuple) and u and u[0] in ("mem", "idx", "un"):
                if u[0] == "idx":
                    self._roots_mentioned(u[2], acc)
                    u = u[1]
                elif u[0] == "mem":
                    u = u[1]
                else:
                    u = u[2]
            if r is None:
                self._roots_mentioned(u, acc)
            return acc
        for x in t[1:]:
            if isinstance(x, tuple):
                self._roots_mentioned(x, acc)
        return acc

    @staticmethod
    def _conflict(store, mention):
        return store[0] == mention[0] and (store[1] is None or mention[1] is None or store[1] == mention[1])

    def local_definitions(self):
        """Locals that name a value: declared with an initialiser, never assigned again (or const), never handed out by
        address or non-const reference, and such that nothing the initialiser reads can change while the local is in scope
        (no assignment to, non-const member call on, or non-const reference to any object it mentions after the declaration
        inside the declaring block). Such a local *is* its initialiser: {var term: initialiser term}."""
        cache = getattr(self, "_local_defs", None)
        kc = bool(getattr(self, "keep_casts", False))
        if cache is not None and kc in cache:
            return cache[kc]
        pm = self.parent_map()
        stores = []      # (node id, root)
        for nd in self.nodes:
            k = nd["k"]
            if k in ("BinaryOperator", "CompoundAssignOperator") and nd.get("op", "").endswith("=") and nd["op"] not in ("==", "!=", "<=", ">="):
                ks = self.kids(nd["id"])
                if ks:
                    stores.append((nd["id"], self._root(self.term(ks[0]))))
            elif k == "UnaryOperator" and nd.get("op") in ("++", "--", "&"):
                ks = self.kids(nd["id"])
                if ks:
                    r = self._root(self.term(ks[0]))
                    if nd.get("op") == "&":
                        # address handed out: a store only if it may be written through (not a pointer to const)
                        if "const" in (nd.get("t") or "").split("*")[0]:
                            continue
                    stores.append((nd["id"], r))
            elif k in CALLS or k in CTORS:
                ps = nd.get("params") or []
                args = nd.get("args", [])
                if k in CTORS and nd.get("copy_or_move"):
                    par = pm.get(nd["id"])
                    while par is not None and self.nodes[par]["k"] in WRAPPERS:
                        par = pm.get(par)
                    if par is not None and self.nodes[par]["k"] == "ReturnStmt":
                        continue        # the returned object is moved out as the function ends: nothing reads it afterwards
                if k == "CXXOperatorCallExpr" and len(args) == len(ps) + 1:
                    # member operator: the first argument is the object
                    if not nd.get("mconst", True) and not ((nd.get("mrec") or "").startswith("std::") and nd.get("op") in ("[]", "*", "->")):
                        # (element access on a standard container or smart pointer leaves the object as it is; a write
                        # through the returned reference is an assignment and is seen as such)
                        stores.append((nd["id"], self._root(self.term(args[0]))))
                    args = args[1:]
                for a, p in zip(args, ps):
                    if p.get("ref") and not p.get("const_ref"):
                        stores.append((nd["id"], self._root(self.term(a))))
                    elif p.get("ptr") and "const" not in (p.get("t") or "").split("*")[0]:
                        # a pointer handed over: what it points to may be written, not the pointer variable itself
                        at = self.term(a)
                        an = self.nodes[self.strip(a)] if self.strip(a) is not None else {}
                        if (at[0] == "un" and at[1] == "&") or "[" in (an.get("t") or ""):
                            stores.append((nd["id"], self._root(at)))
                        else:
                            r = self._root(at)
                            if r is not None:
                                stores.append((nd["id"], (r[0] if isinstance(r[0], tuple) and r[0] and r[0][0] == "deref" else ("deref", r[0]), None)))
                if k == "CXXMemberCallExpr" and "obj" in nd and not nd.get("mconst") and not nd.get("mstatic") and not (
                        (nd.get("mrec") or "").startswith("std::") and nd.get("fname") in ("begin", "end", "data", "at", "front", "back", "get", "rbegin", "rend")):
                    ot = self.term(nd["obj"])
                    stores.append((nd["id"], self._root(ot)))
            elif k == "CXXForRangeStmt":
                pass
        defs = {}
        nodes = {}
        info = {}
        for nd in self.nodes:
            if nd["k"] != "DeclStmt":
                continue
            scope = pm.get(nd["id"])
            if scope is None:
                continue
            inside = None
            if self.nodes[scope]["k"] == "CXXForRangeStmt":
                continue        # the loop variable and the hidden __range / __begin / __end: the loop's own machinery
            for d in nd.get("decls", []):
                if "init" not in d or "d" not in d or d.get("static") or (d.get("n") or "").startswith("__"):
                    continue
                v = ("var", d["n"], d["d"])
                t = self.term(d["init"])
                if t[0] in ("?", "lambda", "ctor", "str") or (t[0] == "call" and not d.get("is_const") and not d.get("is_ref")):
                    continue
                if inside is None:
                    inside = set(self.subtree(scope, into_lambdas=True))
                roots = self._roots_mentioned(t)
                okv = True
                conflicts = []
                own = set(self.subtree(d["init"], into_lambdas=True))
                for sid, r in stores:
                    if r is None or sid in own:
                        continue        # (what the initialiser itself does happens before the local has its value)
                    if r[0] == v and not d.get("is_ref"):
                        okv = False
                        conflicts = None
                        break
                    if sid in inside and sid > nd["id"] and any(self._conflict(r, m) for m in roots):
                        okv = False
                        conflicts.append(sid)
                if okv:
                    defs[v] = t
                    nodes[v] = d["init"]
                if conflicts is not None:
                    info[v] = {"decl": nd["id"], "init": d["init"], "term": t, "conflicts": conflicts}
        if cache is None:
            cache = self._local_defs = {}
        cache[kc] = defs
        self._local_def_nodes = nodes
        if not hasattr(self, "_local_def_info"):
            self._local_def_info = {}
        self._local_def_info[kc] = info
        return defs

    def local_value_at(self, v, use_id):
        """What the local v names when read at node use_id: its initialiser, provided nothing the initialiser reads can have
        changed between the declaration and this read (no conflicting store in between, and none later in a loop that
        repeats the read without repeating the declaration). None if v is not such a local there."""
        self.local_definitions()
        inf = self._local_def_info[bool(getattr(self, "keep_casts", False))].get(v)
        if inf is None or use_id is None or use_id <= inf["decl"]:
            return None
        for sid in inf["conflicts"]:
            if inf["decl"] < sid < use_id:
                cs = sid
                if self.nodes[sid]["k"] == "UnaryOperator":
                    # `&x` handed to a call: the write, if any, happens when that call runs
                    pm = self.parent_map()
                    cur = sid
                    for _ in range(6):
                        cur = pm.get(cur)
                        if cur is None:
                            break
                        if self.nodes[cur]["k"] in CALLS or self.nodes[cur]["k"] in CTORS:
                            cs = cur
                            break
                if use_id in self._call_subtree(cs):
                    continue        # the use is an operand of the very call / assignment that writes: evaluated before the write
                return None
            if sid >= use_id:
                for lp in self.loops_containing(use_id):
                    sub = self._loop_subtrees()[lp]
                    if sid in sub and inf["decl"] not in sub:
                        return None
        return inf["term"]

    def _call_subtree(self, sid):
        c = getattr(self, "_call_sub", None)
        if c is None:
            c = self._call_sub = {}
        if sid not in c:
            c[sid] = set(self.subtree(sid, into_lambdas=True))
        return c[sid]

    def _loop_subtrees(self):
        c = getattr(self, "_loop_sub", None)
        if c is None:
            c = self._loop_sub = {nd["id"]: set(self.subtree(nd["id"], into_lambdas=True)) for nd in self.nodes
                                  if nd["k"] in ("ForStmt", "WhileStmt", "DoStmt", "CXXForRangeStmt")}
        return c

    def loops_containing(self, i):
        return [lp for lp, sub in self._loop_subtrees().items() if i in sub]

    def local_init_node_at(self, v, use_id):
        return self._local_def_info[bool(getattr(self, "keep_casts", False))][v]["init"] if self.local_value_at(v, use_id) is not None else None

    def local_definition_nodes(self):
        """{value-naming local: node id of its initialiser} (see local_definitions)."""
        self.local_definitions()
        return self._local_def_nodes

    def through_locals_at(self, t, i):
        """Term t with the locals that name a value at node i replaced by what they name (one round)."""
        m = {}
        for st in _subterms(t):
            if st[0] == "var" and st not in m:
                val = self.local_value_at(st, i)
                if val is not None:
                    m[st] = val
        return _subst_vars(t, m) if m else t

    def xterm(self, i):
        """term(i) with the locals that name a value at that point replaced by what they name (to a fix-point)."""
        t = self.term(i)
        for _ in range(6):
            m = {}
            for st in _subterms(t):
                if st[0] == "var" and st not in m:
                    val = self.local_value_at(st, i)
                    if val is not None:
                        m[st] = val
            n = _subst_vars(t, m) if m else t
            if n == t:
                break
            t = n
        return t

    def through_locals(self, t):
        defs = self.local_definitions()
        for _ in range(6):
            n = _subst_vars(t, defs)
            if n == t:
                break
            t = n
        return t

    def result_term(self):
        """The value a small function returns, as one term: `return e;`, or the decision `if (c) return a; [else] return b;`
        / `if (c) return a; return b;` read as `c ? a : b` (canonical orientation). None for any other body."""
        if self.body is None:
            return None
        ks = self.kids(self.body)
        def ret_of(sid):
            nd = self.nodes[sid]
            if nd["k"] == "CompoundStmt":
                k2 = self.kids(sid)
                return ret_of(k2[0]) if len(k2) == 1 else None
            if nd["k"] == "ReturnStmt" and "value" in nd:
                return self.term(nd["value"])
            return None
        if len(ks) == 1:
            n0 = self.nodes[ks[0]]
            if n0["k"] == "ReturnStmt" and "value" in n0:
                return self.term(n0["value"])
            if n0["k"] == "IfStmt" and n0.get("else") is not None:
                a, b = ret_of(n0["then"]), ret_of(n0["else"])
                if a is not None and b is not None:
                    return canon_cond(self.term(n0["cond"]), a, b)
        if len(ks) == 2:
            n0, n1 = self.nodes[ks[0]], self.nodes[ks[1]]
            if n0["k"] == "IfStmt" and n0.get("else") is None and n1["k"] == "ReturnStmt" and "value" in n1:
                a = ret_of(n0["then"])
                if a is not None:
                    return canon_cond(self.term(n0["cond"]), a, self.term(n1["value"]))
        return None

    def _address_taken(self, i):
        """`&x` (through parentheses): the object is meant, not its value."""
        pm = self.parent_map()
        p = pm.get(i)
        while p is not None and self.nodes[p]["k"] in ("ParenExpr",):
            p = pm.get(p)
        return p is not None and self.nodes[p]["k"] == "UnaryOperator" and self.nodes[p].get("op") == "&"

    # --- value terms -------------------------------------------------------
    def term(self, i):
        """Canonical value term of an expression: casts and wrappers are transparent; the
        result is a nested tuple that compares equal for syntactically different spellings
        of the same value (this->x vs x, parenthesised, cast)."""
        i = self.strip(i)
        if i is None or i < 0:
            return ("?",)
        nd = self.nodes[i]
        k = nd["k"]
        if "cv" in nd and k not in ("DeclRefExpr", "MemberExpr"):
            return ("const", int(nd["cv"]))
        if getattr(self, "keep_casts", False) and k in self.EXPLICIT_CASTS:
            ks = self.kids(i)
            return ("cast", nd.get("ct"), self.term(ks[0]) if ks else ("?",))
        if k in ("IntegerLiteral", "CharacterLiteral", "CXXBoolLiteralExpr"):
            return ("const", int(nd["v"]))
        if k == "DeclRefExpr":
            dk = nd.get("dk")
            if dk == "enumconst":
                return ("const", int(nd["v"]))
            if dk == "global":
                if "cv" in nd:
                    return ("const", int(nd["cv"]))
                if nd.get("qn") in GLOBAL_STRINGS:
                    # a constant character array initialised from a string literal, used by name: that literal
                    return ("str", GLOBAL_STRINGS[nd.get("qn")])
                return ("global", nd.get("qn"))
            if dk == "func":
                return ("func", nd.get("fn"))
            if "cv" in nd and not self._address_taken(i):
                # a const local with a constant initialiser, read as a value: it *is* that constant
                return ("const", int(nd["cv"]))
            al = self.ref_aliases().get(nd.get("d"))
            if al is not None:
                # a reference local bound to a fixed sub-object: another name for that sub-object
                return al
            return ("var", nd.get("n"), nd.get("d"))
        if k == "CXXThisExpr":
            return ("this",)
        if k == "MemberExpr":
            if nd.get("mk") == "static":
                if "cv" in nd:
                    return ("const", int(nd["cv"]))
                return ("global", nd.get("qn"))
            ks = self.kids(i)
            base = self.term(ks[0]) if ks else ("?",)
            if base == ("this",) or (base[0] == "un" and base[1] == "*" and base[2] == ("this",)):
                base = ("this",)
            return ("mem", base, nd.get("m"))
        if k in CALLS:
            fq = nd.get("fq") or "?"
            args = tuple(self.term(a) for a in nd.get("args", []))
            pf = PURE_FUNCS.get(nd.get("fn")) if args and k in ("CallExpr", "CXXMemberCallExpr") else None
            if pf is not None and len(pf[0]) == len(args):
                body = _subst_vars(pf[1], dict(zip(pf[0], args)))
                if k == "CXXMemberCallExpr":
                    obj = self.term(nd["obj"]) if "obj" in nd else ("?",)
                    if obj != ("this",):
                        body = _subst_this(body, obj)
                return body
            if k == "CXXMemberCallExpr":
                obj = self.term(nd["obj"]) if "obj" in nd else ("?",)
                g = GETTERS.get(nd.get("fn")) if not args else None
                if g is not None:
                    # trivial accessor (`return member;`): the call *is* the member
                    return ("mem", ("this",) if obj == ("this",) else obj, g)
                pe = PURE_EXPRS.get(nd.get("fn")) if not args else None
                if pe is not None:
                    return pe if obj == ("this",) else _subst_this(pe, obj)
                if nd.get("fname") in ("size", "length") and (nd.get("mrec") or "").startswith("std::") and not args:
                    return ("size", obj)
                if nd.get("fname") == "empty" and (nd.get("mrec") or "").startswith("std::") and not args:
                    return ("op", "==", ("size", obj), ("const", 0))
                if nd.get("fname") == "max_size" and (nd.get("mrec") or "").startswith("std::") and not args:
                    return ("max_size", nd.get("mrec"))
                return ("call", fq, obj, args)
            if k == "CXXOperatorCallExpr":
                op = nd.get("op")
                if op == "[]" and len(args) == 2:
                    return ("idx", args[0], args[1])
                if op == "*" and len(args) == 1:
                    return ("un", "*", args[0])
                if op == "->" and len(args) == 1:
                    return ("un", "*", args[0])
                return ("opcall", op, args)
            return ("call", fq, None, args)
        if k in CTORS:
            args = tuple(self.term(a) for a in nd.get("args", []))
            return ("ctor", nd.get("ctor_rec"), args)
        if k in ("BinaryOperator", "CompoundAssignOperator"):
            ks = self.kids(i)
            return canon_binop(nd["op"], self.term(ks[0]), self.term(ks[1]), nd.get("is") is False, nd.get("iw"))
        if k == "UnaryOperator":
            ks = self.kids(i)
            op = nd["op"]
            a = self.term(ks[0])
            if op == "&" and a[0] == "un" and a[1] == "*":
                return a[2]
            if op == "*" and a[0] == "un" and a[1] == "&":
                return a[2]
            if op == "!" and a[0] == "op" and a[1] in NEGATED_CMP:
                # !(x < y) is x >= y; an unsigned size is non-zero exactly when it is positive
                if a[1] == "==" and a[2][0] == "size" and a[3] == ("const", 0):
                    return ("op", ">", a[2], a[3])
                return ("op", NEGATED_CMP[a[1]], a[2], a[3])
            return ("un", op + ("post" if nd.get("postfix") and op in ("++", "--") else ""), a)
        if k == "ArraySubscriptExpr":
            ks = self.kids(i)
            return ("idx", self.term(ks[0]), self.term(ks[1]))
        if k == "ConditionalOperator":
            ks = self.kids(i)
            c, a, b = self.term(ks[0]), self.term(ks[1]), self.term(ks[2])
            return canon_cond(c, a, b)
        if k == "UnaryExprOrTypeTraitExpr":
            return ("sizeof", nd.get("arg_ct"))
        if k == "StringLiteral":
            return ("str", bytes(nd.get("bytes", [])))
        if k == "InitListExpr":
            ks = self.kids(i)
            if len(ks) == 1 and nd.get("iw") is not None and not nd.get("rec"):
                return self.term(ks[0])         # `uint32_t{1}`: a scalar written with braces
            return ("initlist", tuple(self.term(c) for c in ks))
        if k == "LambdaExpr":
            return ("lambda", nd.get("lambda_fn"))
        return ("?", k, i)


def canon_cond(c, a, b):
    """`c ? a : b` in one orientation: the condition is never an ==, >=, <= or a negation (c ? a : b is !c ? b : a)."""
    if c[0] == "un" and c[1] == "!":
        c, a, b = c[2], b, a
    elif c[0] == "op" and c[1] in ("==", ">=", "<="):
        if c[1] == "==" and c[2][0] == "size" and c[3] == ("const", 0):
            c = ("op", ">", c[2], c[3])
        else:
            c = ("op", NEGATED_CMP[c[1]], c[2], c[3])
        a, b = b, a
    return ("cond", c, a, b)


GLOBAL_STRINGS = {}
PURE_EXPRS = {}


PURE_FUNCS = {}


def _pure_member_expr(t, pvars=frozenset()):
    if not isinstance(t, tuple) or not t:
        return False
    h = t[0]
    if h == "const" or h == "this":
        return True
    if h == "var":
        return t in pvars
    if h == "mem":
        return _pure_member_expr(t[1], pvars)
    if h == "size":
        return _pure_member_expr(t[1], pvars)
    if h == "op" and t[1] not in ("=", "+=", "-=", "*=", "/=", "%=", "<<=", ">>=", "&=", "|=", "^=", ","):
        return _pure_member_expr(t[2], pvars) and _pure_member_expr(t[3], pvars)
    if h == "un" and t[1] in ("-", "~", "!", "+"):
        return _pure_member_expr(t[2], pvars)
    if h == "cond":
        return all(_pure_member_expr(x, pvars) for x in t[1:])
    if h == "idx":
        return _pure_member_expr(t[1], pvars) and _pure_member_expr(t[2], pvars)
    if h == "call":
        # a call inside the returned expression: the term is exactly what the same expression written inline would give
        return (t[2] is None or _pure_member_expr(t[2], pvars)) and all(_pure_member_expr(a, pvars) for a in t[3])
    return False


def _mentions_call(t, qn):
    if isinstance(t, tuple) and t and t[0] == "call" and t[1] == qn:
        return True
    if isinstance(t, tuple):
        return any(_mentions_call(x, qn) for x in t if isinstance(x, tuple))
    return False


def _subst_vars(t, m):
    if isinstance(t, tuple) and t and t[0] == "var" and t in m:
        return m[t]
    if isinstance(t, tuple):
        return tuple(_subst_vars(x, m) if isinstance(x, tuple) else x for x in t)
    return t


def _subterms(t):
    if isinstance(t, tuple) and t:
        yield t
        for x in t:
            if isinstance(x, tuple):
                yield from _subterms(x)


def _subst_this(t, obj):
    if t == ("this",):
        return obj
    if isinstance(t, tuple):
        return tuple(_subst_this(x, obj) if isinstance(x, tuple) else x for x in t)
    return t


NEGATED_CMP = {"<": ">=", "<=": ">", ">": "<=", ">=": "<", "==": "!=", "!=": "=="}


def _log2_exact(v):
    return v.bit_length() - 1 if isinstance(v, int) and v > 0 and v & (v - 1) == 0 else None


def canon_binop(op, a, b, unsigned, width=None):
    """One spelling for arithmetic that has several: on unsigned operands x / 2^k is x >> k, x % 2^k is x & (2^k - 1),
    (x >> k) * 2^k and (x >> k) << k are x & ~(2^k - 1); size() != 0 is size() > 0."""
    if unsigned and op in ("/", "%") and b[0] == "const":
        k = _log2_exact(b[1])
        if k is not None and k > 0:
            return ("op", ">>", a, ("const", k)) if op == "/" else ("op", "&", a, ("const", b[1] - 1))
    if unsigned and op == "*":
        for x, c in ((a, b), (b, a)):
            if c[0] == "const" and x[0] == "op" and x[1] == ">>" and x[3][0] == "const":
                k = _log2_exact(c[1])
                if k is not None and k == x[3][1]:
                    return ("op", "&", x[2], ("const", -c[1]))
    if unsigned and op == "<<" and b[0] == "const" and a[0] == "op" and a[1] == ">>" and a[3] == b:
        return ("op", "&", a[2], ("const", -(1 << b[1])))
    if op == "&":
        # a mask that has every bit from k up to the top bit *of the type the operation is carried out in* set has one
        # spelling: the negative number it is in two's complement (~3 == -4). The width matters: 0xFFFFFFFC is -4 in a 32-bit
        # operation, but zero-extended to 64 bits (`offset64 & ~3u`) it also clears bits 32..63 and is left as it is.
        for x, c in ((a, b), (b, a)):
            if c[0] == "const" and width in (32, 64) and c[1] >= (1 << (width - 1)) and any(c[1] == (1 << width) - (1 << k) for k in range(0, 16)):
                return ("op", "&", x, ("const", c[1] - (1 << width)))
    if unsigned and op == "*":
        # x * (1 << k) is x << k
        for x, c in ((a, b), (b, a)):
            if c[0] == "op" and c[1] == "<<" and c[2] == ("const", 1):
                return ("op", "<<", x, c[3])
    if op == "!=" and a[0] == "size" and b == ("const", 0):
        return ("op", ">", a, b)
    if op in ("+", "-"):
        folded = _fold_constants(op, a, b)
        if folded is not None:
            return folded
    return ("op", op, a, b)


def _fold_constants(op, a, b):
    """In a chain of + and -, the constants are added up and written once, last: (1084 + x) - 16 is x + 1068.
    Atoms keep their order. Returns None when there is nothing to fold (at most one constant, already last)."""
    atoms = []      # (sign, term)
    const = [0, 0]  # value, count

    def walk(t, sign):
        if t[0] == "const":
            const[0] += sign * t[1]
            const[1] += 1
        elif t[0] == "op" and t[1] in ("+", "-") and len(t) == 4:
            walk(t[2], sign)
            walk(t[3], sign if t[1] == "+" else -sign)
        else:
            atoms.append((sign, t))
    walk(a, 1)
    walk(b, 1 if op == "+" else -1)
    if const[1] == 0:
        return None
    if const[1] == 1 and b[0] == "const":
        return None             # already `... + c`
    if not atoms:
        return ("const", const[0])
    if atoms[0][0] < 0:
        return None             # leading negative atom: leave as written
    out = atoms[0][1]
    for sg, t in atoms[1:]:
        out = ("op", "+" if sg > 0 else "-", out, t)
    if const[0] > 0:
        out = ("op", "+", out, ("const", const[0]))
    elif const[0] < 0:
        out = ("op", "-", out, ("const", -const[0]))
    return out


def fmt_term(t):
    if not isinstance(t, tuple) or not t:
        return str(t)
    h = t[0]
    if h == "const":
        v = t[1]
        return hex(v) if abs(v) > 4096 else str(v)
    if h == "var":
        return t[1]
    if h == "this":
        return "this"
    if h == "global":
        return t[1].split("::")[-1]
    if h == "mem":
        b = fmt_term(t[1])
        return ("this->" + t[2]) if b == "this" else b + "." + t[2]
    if h == "call":
        name = t[1].split("::")[-1]
        args = ", ".join(fmt_term(a) for a in t[3])
        if t[2] is not None:
            o = fmt_term(t[2])
            return ("%s(%s)" % (name, args)) if o == "this" else "%s.%s(%s)" % (o, name, args)
        return "%s(%s)" % (name, args)
    if h == "op":
        return "(%s %s %s)" % (fmt_term(t[2]), t[1], fmt_term(t[3]))
    if h == "un":
        return "%s%s" % (t[1], fmt_term(t[2]))
    if h == "idx":
        return "%s[%s]" % (fmt_term(t[1]), fmt_term(t[2]))
    if h == "sizeof":
        return "sizeof(%s)" % t[1]
    if h == "size":
        return "%s.size()" % fmt_term(t[1])
    if h == "max_size":
        return "max_size()"
    if h == "cast":
        return "(%s)%s" % (t[1], fmt_term(t[2]))
    if h == "cond":
        return "(%s ? %s : %s)" % (fmt_term(t[1]), fmt_term(t[2]), fmt_term(t[3]))
    if h == "ctor":
        return "%s(%s)" % ((t[1] or "?").split("::")[-1], ", ".join(fmt_term(a) for a in t[2]))
    if h == "opcall":
        return "op%s(%s)" % (t[1], ", ".join(fmt_term(a) for a in t[2]))
    if h == "str":
        return repr(t[1])
    return str(t)


class Facts:
    def __init__(self, repo="/repo"):
        self.repo = repo
        self.dir, self.meta = extract(repo)
        self.records = {}
        self.enums = {}
        self.vars = {}
        self.functions = {}
        self.fixture_functions = {}
        self.units = []
        self.by_qn = {}
        for u in self.meta["units"]:
            path = os.path.join(self.dir, u["facts"])
            with open(path) as fh:
                d = json.load(fh)
            self.units.append(u["src"])
            is_fixture = "/fixtures/" in u["src"]
            for r in d["records"]:
                self.records.setdefault(r["qn"], r)
            for e in d["enums"]:
                self.enums.setdefault(e["qn"], e)
            for v in d["vars"]:
                old = self.vars.get(v["qn"])
                if old is None or ("value" not in old and "value" in v):
                    self.vars[v["qn"]] = v
            for f in d["functions"]:
                fn = Function(f, u["src"])
                tgt = self.fixture_functions if "/verif/fixtures/" in fn.file else self.functions
                if fn.key not in tgt:
                    tgt[fn.key] = fn
        self.inlined_into = {}
        self.renames = self._canonicalise_member_names()
        self.renamed_functions = self._canonicalise_function_names()
        for fn in self.functions.values():
            self.by_qn.setdefault(fn.qn, []).append(fn)
        GETTERS.clear()
        for fn in self.functions.values():
            if fn.cls and not fn.params and fn.body is not None and not fn.d.get("ctor"):
                ks = fn.kids(fn.body)
                if len(ks) == 1 and fn.n(ks[0])["k"] == "ReturnStmt" and "value" in fn.n(ks[0]):
                    v = fn.n(fn.strip(fn.n(ks[0])["value"]))
                    if v["k"] == "MemberExpr" and v.get("mk") == "field":
                        base = fn.kids(v["id"])
                        if base and fn.n(fn.strip(base[0]))["k"] == "CXXThisExpr":
                            GETTERS[fn.key] = v["m"]
        # Functions whose body is a single `return <expression>;` are that expression, with parameters and the receiver
        # substituted (so extracting an expression into a helper, or inlining such a helper, leaves every term unchanged).
        # Computed to a fix-point because the helpers may use one another.
        GLOBAL_STRINGS.clear()
        for q, v in self.vars.items():
            if v.get("const") and (v.get("ct") or "").startswith("const char[") and "string_bytes" in v and v["loc"]["file"].startswith(self.repo):
                GLOBAL_STRINGS[q] = bytes(v["string_bytes"])
        PURE_EXPRS.clear()
        PURE_FUNCS.clear()
        for _round in range(5):
            for fn in self.functions.values():
                if fn.key in GETTERS or not fn.cfg or fn.body is None or fn.d.get("ctor") or fn.d.get("virtual") or fn.d.get("lambda"):
                    continue
                if not fn.file.startswith(self.repo):
                    continue
                ks = fn.kids(fn.body)
                if not ks or fn.n(ks[-1])["k"] != "ReturnStmt" or "value" not in fn.n(ks[-1]):
                    continue
                # leading statements may only name sub-expressions: const locals with an initialiser, static_asserts
                ldefs = {}
                okb = True
                for k0 in ks[:-1]:
                    n0 = fn.n(k0)
                    if n0["k"] == "DeclStmt" and all(("init" in d and d.get("is_const") and not d.get("is_ref") and "d" in d) or d.get("k") == "StaticAssertDecl"
                                                      or ("n" not in d) for d in n0.get("decls", [])):
                        for d in n0.get("decls", []):
                            if "init" in d and "d" in d:
                                ldefs[("var", d["n"], d["d"])] = _subst_vars(fn.term(d["init"]), ldefs)
                    elif n0["k"] in ("NullStmt",):
                        pass
                    elif n0["k"] == "IfStmt" and n0.get("else") is None and n0.get("then") is not None and self._throw_only_stmt(fn, n0["then"]):
                        pass        # a refusal: where the function returns at all, it returns the expression below
                    elif self._refusing_call_stmt(fn, k0):
                        pass        # `VerifyIndexInBounds(i);` - a helper that only refuses
                    else:
                        okb = False
                        break
                if not okb:
                    continue
                t = _subst_vars(fn.term(fn.n(ks[-1])["value"]), ldefs)
                if not fn.params:
                    if fn.cls and _pure_member_expr(t):
                        PURE_EXPRS[fn.key] = t
                else:
                    pvars = {("var", p["n"], p["d"]) for p in fn.params}
                    if _pure_member_expr(t, pvars) and not _mentions_call(t, fn.qn):
                        PURE_FUNCS[fn.key] = ([("var", p["n"], p["d"]) for p in fn.params], t)
        # override relation
        self.overriders = {}
        for r in self.records.values():
            for m in r["methods"]:
                for o in m.get("overrides", []):
                    self.overriders.setdefault(o, set()).add(m["key"])
        # transitive
        changed = True
        while changed:
            changed = False
            for base, subs in list(self.overriders.items()):
                for s in list(subs):
                    for t in self.overriders.get(s, ()):
                        if t not in subs:
                            subs.add(t)
                            changed = True

    def _refusing_call_stmt(self, fn, sid):
        """Statement sid is a call of a repository function that returns nothing and stores nothing (it can only refuse)."""
        i = fn.strip(sid, casts=False)
        nd = fn.n(i)
        while nd["k"] in ("ExprWithCleanups",) and fn.kids(nd["id"]):
            nd = fn.n(fn.kids(nd["id"])[0])
        if nd["k"] not in ("CallExpr", "CXXMemberCallExpr"):
            return False
        cal = self.functions.get(nd.get("fn"))
        if cal is None or not cal.cfg or (cal.d.get("ret_ct") or "void") != "void":
            return False
        return self._stores_nothing(cal, 3)

    def _stores_nothing(self, cal, depth):
        """Nothing in cal (or in what it calls) can store to anything that outlives the call: no assignment or increment, no
        parameter or argument through which a callee could store, only const / static operations on objects."""
        def mutable_handle(p):
            ct = p.get("ct") or ""
            if ct.rstrip().endswith("&&"):
                return False        # binds a temporary
            return (p.get("ref") and not p.get("const_ref")) or (p.get("ptr") and not p.get("const_ptr")) or \
                (ct.endswith("*") and "const" not in ct.split("*")[0])
        if depth < 0 or not cal.cfg:
            return False
        if any(mutable_handle(p) for p in cal.params):
            return False        # may store through what it is handed (directly or inside a library call)
        own = set()             # the function's own automatic objects: storing to them is invisible outside
        for x in cal.nodes:
            if x["k"] == "DeclStmt":
                for d in x.get("decls", []):
                    if "d" in d and not d.get("is_ref") and not d.get("static") and not (d.get("ct") or "").rstrip().endswith("*"):
                        own.add(("var", d["n"], d["d"]))

        def to_own(i):
            t = cal.term(i)
            while t[0] in ("mem", "idx") or (t[0] == "un" and t[1] == "*"):
                t = t[1] if t[0] != "un" else t[2]
            return t in own
        for x in cal.nodes:
            if x["k"] in ("BinaryOperator", "CompoundAssignOperator") and x.get("op", "").endswith("=") and x["op"] not in ("==", "!=", "<=", ">="):
                if not to_own(cal.kids(x["id"])[0]):
                    return False
            if x["k"] == "UnaryOperator" and x.get("op") in ("++", "--") and not to_own(cal.kids(x["id"])[0]):
                return False
            if x["k"] == "CXXOperatorCallExpr" and ((x.get("op", "").endswith("=") and x["op"] not in ("==", "!=", "<=", ">=")) or x.get("op") in ("++", "--", "<<", ">>")):
                if not (x.get("args") and to_own(x["args"][0])):
                    return False
                continue
            if x["k"] == "CXXMemberCallExpr":
                if not x.get("mconst") and not x.get("mstatic") and x.get("fname") not in ("size", "c_str") and not ("obj" in x and to_own(x["obj"])):
                    return False    # (a non-const begin()/data() hands out a mutable iterator: std::transform(..) stores through it)
            if x["k"] in ("CallExpr", "CXXMemberCallExpr"):
                if any(mutable_handle(p) for p in x.get("params", [])):
                    return False
                for c2 in self.callees(x):
                    if c2.key != cal.key and not self._stores_nothing(c2, depth - 1):
                        return False
        return True

    @staticmethod
    def _throw_only_stmt(fn, sid):
        """Statement sid does nothing but throw (`throw X;` or `{ throw X; }`)."""
        nd = fn.n(sid)
        if nd["k"] == "CompoundStmt":
            ks = fn.kids(sid)
            return len(ks) == 1 and Facts._throw_only_stmt(fn, ks[0])
        if nd["k"] in ("ExprWithCleanups",):
            ks = fn.kids(sid)
            return len(ks) == 1 and Facts._throw_only_stmt(fn, ks[0])
        return nd["k"] == "CXXThrowExpr"

    def _canonicalise_member_names(self):
        """Reads purely renamed data members under their frozen names (spec/names.json).

        A member counts as renamed only when its old name is gone from the record, the new name was never in it, and the
        vanished and the new names pair up in declaration order with identical types. Everything else (a retyped, removed,
        added or re-purposed member) is left alone and is judged by the rules as it stands."""
        path = os.path.join(os.path.dirname(os.path.dirname(os.path.abspath(__file__))), "spec", "names.json")
        if not os.path.exists(path):
            return {}
        with open(path) as fh:
            frozen = json.load(fh)["records"]
        renames = {}
        for rec, want in frozen.items():
            r = self.records.get(rec)
            if r is None:
                continue
            cur = [(f["name"], f["ct"]) for f in r["fields"]]
            wn = {n for n, _ in want}
            cn = {n for n, _ in cur}
            gone = [(n, t) for n, t in want if n not in cn]
            new = [(n, t) for n, t in cur if n not in wn]
            if not gone or len(gone) != len(new):
                continue
            if any(g[1] != n[1] for g, n in zip(gone, new)):
                continue
            for g, n in zip(gone, new):
                renames[(rec, n[0])] = g[0]
        if not renames:
            return {}
        for (rec, newn), oldn in renames.items():
            for f in self.records[rec]["fields"]:
                if f["name"] == newn:
                    f["source_name"] = newn
                    f["name"] = oldn
        for table in (self.functions, self.fixture_functions):
            for fn in table.values():
                for nd in fn.nodes:
                    if nd["k"] == "MemberExpr" and nd.get("mk") == "field" and (nd.get("mrec"), nd.get("m")) in renames:
                        nd["m_src"] = nd["m"]
                        nd["m"] = renames[(nd["mrec"], nd["m"])]
                if fn.d.get("ctor") and fn.cls:
                    for ini in fn.d.get("inits", []):
                        if (fn.cls, ini.get("field")) in renames:
                            ini["field"] = renames[(fn.cls, ini["field"])]
                    for b in (fn.cfg or {}).get("blocks", []):
                        for e in b.get("elems", b.get("elements", [])):
                            if isinstance(e, dict) and (fn.cls, e.get("init_field")) in renames:
                                e["init_field"] = renames[(fn.cls, e["init_field"])]
        return {"%s::%s" % k: v for k, v in renames.items()}

    def _canonicalise_function_names(self):
        """Reads purely renamed private / file-local helper functions under their frozen names (spec/names.json).

        A helper counts as renamed only when no function of its frozen name is left, exactly one function in the same class
        (or namespace) with the identical parameter types, return type and qualifiers carries a name the reviewed tree never
        had, and exactly one frozen helper with that signature has vanished. Public functions are the interface and are never
        matched. Everything else is left alone (the helper may have been inlined: see `fn`)."""
        path = os.path.join(os.path.dirname(os.path.dirname(os.path.abspath(__file__))), "spec", "names.json")
        try:
            with open(path) as fh:
                spec = json.load(fh)
        except OSError:
            return {}
        frozen = spec.get("private_functions", {})
        known = set(spec.get("function_names", []))
        if not frozen:
            return {}
        def sig(scope, key, d):
            return (scope, key[key.index("("):] if "(" in key else "", d.get("ret_ct"), bool(d.get("const")), bool(d.get("static")))
        cur_qns = {fn.qn for fn in self.functions.values()}
        gone = {}
        for key, h in frozen.items():
            if key in self.functions or h["qn"] in cur_qns:
                continue
            gone.setdefault(sig(h["scope"], key, h), []).append((key, h))
        if not gone:
            return {}
        access = {}
        for r in self.records.values():
            for m in r["methods"]:
                access[m["key"]] = m["access"]
        new = {}
        for fn in self.functions.values():
            if not fn.file.startswith(self.repo) or fn.qn in known or fn.d.get("ctor") or fn.d.get("lambda") or fn.d.get("implicit"):
                continue
            if fn.cls and access.get(fn.key, fn.d.get("access")) == "public":
                continue
            if not fn.cls and fn.d.get("in_header", True):
                continue
            scope = fn.cls or fn.qn.rsplit("::", 1)[0]
            new.setdefault(sig(scope, fn.key, fn.d), []).append(fn)
        renames = {}
        for sg, olds in gone.items():
            news = new.get(sg, [])
            if len(olds) != 1 or len(news) != 1:
                continue
            (okey, h), fn = olds[0], news[0]
            renames[fn.key] = (okey, h["qn"], h["name"], fn.qn)
        if not renames:
            return {}
        out = {}
        for nkey, (okey, oqn, oname, nqn) in renames.items():
            fn = self.functions.pop(nkey)
            out[nqn] = oqn
            fn.d["source_name"] = fn.name
            fn.key = fn.d["key"] = okey
            fn.qn = fn.d["qn"] = oqn
            fn.name = fn.d["name"] = oname
            self.functions[okey] = fn
            for r in self.records.values():
                for m in r["methods"]:
                    if m["key"] == nkey:
                        m["key"], m["name"] = okey, oname
        for table in (self.functions, self.fixture_functions):
            for fn in table.values():
                for nd in fn.nodes:
                    r = renames.get(nd.get("fn"))
                    if r is not None:
                        nd["fn"] = r[0]
                        if "fq" in nd:
                            nd["fq"] = r[1]
                        if "fname" in nd:
                            nd["fname"] = r[2]
        return out

    def fn_or_host(self, qn, nparams, host_qn, host_nparams=None, host_pred=None):
        """A private helper the rules anchor on may have been inlined into its only caller: the helper if it exists,
        otherwise the caller (`host`) that now contains its statements. Returns (function, is_host)."""
        c = [f for f in self.by_qn.get(qn, []) if nparams is None or len(f.params) == nparams]
        if len(c) == 1:
            return c[0], False
        if not c:
            return self.fn(host_qn, nparams=host_nparams, pred=host_pred), True
        raise AnalysisBroken("anchor function %s (nparams=%s) resolved to %d definitions" % (qn, nparams, len(c)))

    def call_value(self, qn, obj, args, pred=None):
        """The value term a call `obj.qn(args)` yields under the current tree (single-return helpers are their expression)."""
        args = tuple(args)
        if not args:
            return self.method_value(qn, obj if obj is not None else ("this",))
        for fn in self.by_qn.get(qn, []):
            if len(fn.params) != len(args) or (pred is not None and not pred(fn)):
                continue
            pf = PURE_FUNCS.get(fn.key)
            if pf is not None:
                body = _subst_vars(pf[1], dict(zip(pf[0], args)))
                if obj is not None and obj != ("this",):
                    body = _subst_this(body, obj)
                return body
        return ("call", qn, obj, args)

    def method_value(self, qn, obj=("this",)):
        """The value term a call `obj.qn()` of a parameterless method yields under the current tree: the member it returns
        (trivial accessor), the member expression it returns (pure expression), or the call itself."""
        for fn in self.by_qn.get(qn, []):
            if fn.params:
                continue
            if fn.key in GETTERS:
                return ("mem", obj, GETTERS[fn.key])
            if fn.key in PURE_EXPRS:
                return PURE_EXPRS[fn.key] if obj == ("this",) else _subst_this(PURE_EXPRS[fn.key], obj)
        return ("call", qn, obj, ())

    # lookups that fail as analysis-broken when an anchor has vanished
    def fn(self, qn, nparams=None, const=None, pred=None):
        c = [f for f in self.by_qn.get(qn, [])]
        if nparams is not None:
            c = [f for f in c if len(f.params) == nparams]
        if const is not None:
            c = [f for f in c if bool(f.d.get("const")) == const]
        if pred is not None:
            c = [f for f in c if pred(f)]
        if len(c) == 0 and nparams is not None and pred is None and const is None:
            # a private helper that had exactly one caller on the reviewed tree and has since been inlined into it:
            # the rules that anchor on the helper look at that caller, which now contains its statements
            h = self._single_caller_hosts().get("%s/%d" % (qn, nparams))
            if h is not None and not self.by_qn.get(qn):
                hc = [f for f in self.by_qn.get(h["qn"], []) if len(f.params) == h["nparams"]]
                if len(hc) > 1:
                    hc = [f for f in hc if f.key == h.get("key")] or sorted(hc, key=lambda f: -len(f.nodes))[:1]
                if len(hc) == 1:
                    self.inlined_into["%s/%d" % (qn, nparams)] = hc[0].key
                    return hc[0]
        if len(c) == 0 and nparams is not None and pred is None and const is None:
            # a non-public helper whose parameter list changed (an object handed in became `this`, an out-parameter became
            # the return value): there is still exactly one function of that name; the rules find its operands by role
            alln = [f for f in self.by_qn.get(qn, [])]
            if len(alln) == 1 and not (alln[0].cls and alln[0].d.get("access") == "public"):
                self.resigned = getattr(self, "resigned", {})
                self.resigned["%s/%d" % (qn, nparams)] = alln[0].key
                return alln[0]
        if len(c) != 1:
            raise AnalysisBroken("anchor function %s (nparams=%s) resolved to %d definitions" % (qn, nparams, len(c)))
        return c[0]

    def _single_caller_hosts(self):
        if getattr(self, "_hosts", None) is None:
            path = os.path.join(os.path.dirname(os.path.dirname(os.path.abspath(__file__))), "spec", "names.json")
            try:
                with open(path) as fh:
                    self._hosts = json.load(fh).get("single_caller_helpers", {})
            except OSError:
                self._hosts = {}
        return self._hosts

    def fns(self, qn):
        return list(self.by_qn.get(qn, []))

    def record(self, qn):
        r = self.records.get(qn)
        if r is None:
            raise AnalysisBroken("anchor record %s not found" % qn)
        return r

    def callees(self, nd):
        """Resolved callee functions (repo bodies) of a call node; virtual calls fan out."""
        key = nd.get("fn")
        if not key:
            return []
        out = []
        if key in self.functions:
            out.append(self.functions[key])
        if nd.get("virt"):
            for k in sorted(self.overriders.get(key, ())):
                if k in self.functions:
                    out.append(self.functions[k])
        return out

    def stats(self):
        nblocks = sum(len(f.cfg["blocks"]) for f in self.functions.values() if f.cfg)
        ncalls = sum(len(f.all_calls()) for f in self.functions.values())
        return {"units": len(self.units), "repo_units": self.meta["repo_units"], "functions": len(self.functions),
                "records": len(self.records), "enums": len(self.enums), "constants": len(self.vars),
                "cfg_blocks": nblocks, "call_sites": ncalls, "tree_key": self.meta["key"],
                "members_read_under_frozen_names": self.renames, "helpers_read_in_their_caller": self.inlined_into,
                "helpers_read_under_frozen_names": self.renamed_functions,
                "helpers_with_changed_parameter_lists": getattr(self, "resigned", {})}


def dump_function(fn, out=None):
    import sys
    out = out or sys.stdout
    out.write("== %s  (%s:%s)\n" % (fn.key, fn.file, fn.line))
    if fn.cfg:
        for b in fn.cfg["blocks"]:
            out.write(" B%d%s -> %s\n" % (b["id"], " [noreturn]" if b.get("noreturn") else "",
                                          [(s["b"], s["reachable"]) for s in b["succs"]]))
            for e in b["elems"]:
                if isinstance(e, dict):
                    out.write("    init %s = %s\n" % (e.get("init_field", "<base>"), fmt_term(fn.term(e["init"]))))
                    continue
                nd = fn.n(e)
                if nd["k"] in ("ImplicitCastExpr", "DeclRefExpr", "IntegerLiteral", "MemberExpr", "CXXThisExpr",
                               "ParenExpr", "StringLiteral"):
                    continue
                out.write("    %d %s %s : %s\n" % (e, nd["k"], fmt_term(fn.term(e)), nd.get("ct", "")))
            if "term" in b:
                out.write("    T: %s cond=%s\n" % (fn.n(b["term"])["k"],
                                                   fmt_term(fn.term(b["cond"])) if "cond" in b else None))


if __name__ == "__main__":
    import sys
    F = Facts()
    print(F.stats())
    for q in sys.argv[1:]:
        for f in F.fns(q):
            dump_function(f)

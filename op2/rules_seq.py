"""R-SEQ: serialisation sequence agreement (reader == writer == frozen format description).

A (de)serialiser entry point is walked structurally; every repo callee that receives the stream is inlined; each
primitive Reader::Read*/Writer::Write* call becomes a token. Control structure (loops, data-dependent conditionals)
is kept; branches that only validate and throw contribute nothing."""
import json
import os

from .extract import AnalysisBroken
from .facts import CALLS, CTORS, WRAPPERS, CASTS, fmt_term
from .report import ok, bad, VERIF

RD = "OP2Utility::Stream::Reader::"
WR = "OP2Utility::Stream::Writer::"
PRIMS = {RD + "Read", WR + "Write"}
ACC = {"data", "c_str", "begin", "end", "front", "back", "at", "operator*", "operator->", "get"}
INTNAMES = {"unsigned int": "u32", "int": "i32", "unsigned short": "u16", "short": "i16", "unsigned char": "u8",
            "signed char": "i8", "char": "c8", "unsigned long": "u64", "long": "i64", "bool": "b8"}


class Tracer:
    def __init__(self, F, root_types=(), max_depth=8):
        self.F = F
        self.roots = set(root_types)
        self.max_depth = max_depth
        self.sites = 0
        self.prim_sites = []      # (function, call node, tokens) for every primitive I/O call traced

    # ------------------------------------------------------------------ paths
    def _scratch_record(self, rec):
        """rec is a repository record that did not exist when the format descriptions were frozen (spec/names.json)."""
        if not rec or not rec.startswith("OP2Utility"):
            return False
        if not hasattr(self, "_frozen_records"):
            import json
            import os
            with open(os.path.join(os.path.dirname(os.path.dirname(os.path.abspath(__file__))), "spec", "names.json")) as fh:
                self._frozen_records = set(json.load(fh)["records"])
        return rec not in self._frozen_records and rec not in self.roots

    def var_types(self, fn):
        vt = {}
        for nd in fn.nodes:
            if nd["k"] == "DeclStmt":
                for d in nd.get("decls", []):
                    if "d" in d:
                        vt[d["d"]] = d.get("rec")
        for p in fn.params:
            vt[p["d"]] = p.get("rec")
        return vt

    def npath(self, fn, t, env, vt):
        h = t[0]
        if h == "var":
            if t in env:
                return env[t]
            if vt.get(t[2]) in self.roots:
                return ""
            if env.get("__anon__"):
                return "~"
            return "~" + (t[1] or "tmp")
        if h == "this":
            return "" if fn.cls in self.roots else "this"
        if h == "mem":
            if t[1][0] == "var" and t[1] not in env and self._scratch_record(vt.get(t[1][2])):
                # a field of a local whose type is no format record (a struct that bundles a helper's results): a plain local
                return "~%s_%s" % (t[1][1] or "tmp", t[2])
            p = self.npath(fn, t[1], env, vt)
            return t[2] if p == "" else p + "." + t[2]
        if h == "idx":
            return self.npath(fn, t[1], env, vt) + "[]"
        if h == "un":
            if t[1] in ("*", "&"):
                return self.npath(fn, t[2], env, vt)
            return t[1] + self.npath(fn, t[2], env, vt)
        if h == "size":
            return "size(%s)" % self.npath(fn, t[1], env, vt)
        if h == "const":
            return str(t[1])
        if h == "call":
            nm = t[1].split("::")[-1]
            if t[2] is not None and nm in ACC:
                return self.npath(fn, t[2], env, vt)
            args = ",".join(self.npath(fn, a, env, vt) for a in t[3])
            if t[2] is not None:
                o = self.npath(fn, t[2], env, vt)
                return "%s%s(%s)" % ((o + ".") if o else "", nm, args)
            return "%s(%s)" % (nm, args)
        if h == "op":
            if t[1] == "!=" and ("const", 0) in (t[2], t[3]):
                # `flag != 0` is what `flag` means where a truth value is wanted
                return self.npath(fn, t[3] if t[2] == ("const", 0) else t[2], env, vt)
            return "(%s %s %s)" % (self.npath(fn, t[2], env, vt), t[1], self.npath(fn, t[3], env, vt))
        if h == "global":
            return (t[1] or "?").split("::")[-1]
        if h == "initlist":
            return "{%s}" % ",".join(self.npath(fn, a, env, vt) for a in t[1])
        if h == "ctor":
            return "tmp:%s(%s)" % ((t[1] or "?").split("::")[-1], ",".join(self.npath(fn, a, env, vt) for a in t[2]))
        if h == "cond":
            return "(%s ? %s : %s)" % tuple(self.npath(fn, x, env, vt) for x in t[1:4])
        if h == "str":
            return "strlit%d" % (len(t[1]) + 1)
        if h == "sizeof":
            return "sizeof"
        if h == "opcall":
            return "(%s)" % (" %s " % t[1]).join(self.npath(fn, a, env, vt) for a in t[2])
        return "?"

    # ------------------------------------------------------------------ walking
    def trace(self, fn, stream, env=None, depth=0):
        """Token list for function fn using stream term `stream` (in fn's frame)."""
        if depth > self.max_depth:
            raise AnalysisBroken("R-SEQ: inlining depth exceeded at %s" % fn.qn)
        env = dict(env or {})
        vt = self.var_types(fn)
        return self.walk(fn, fn.body, stream, env, vt, depth)

    def walk(self, fn, sid, stream, env, vt, depth):
        if sid is None or sid < 0:
            return []
        nd = fn.n(sid)
        k = nd["k"]
        if k == "CompoundStmt":
            out = []
            kids = fn.kids(sid)
            for i, c in enumerate(kids):
                cn = fn.n(c)
                if cn["k"] == "IfStmt" and cn.get("else") is None and not cn.get("constexpr") and self._ends_in_return(fn, cn["then"]):
                    # early return (or `continue` in a loop body): everything after it happens only when the condition is false
                    pre = self.expr_tokens(fn, cn["cond"], stream, env, vt, depth)
                    t = self.walk(fn, cn["then"], stream, env, vt, depth)
                    rest = []
                    for c2 in kids[i + 1:]:
                        rest += self.walk(fn, c2, stream, env, vt, depth)
                    out += pre
                    if t or rest:
                        out.append(self.mk_if(fn, fn.term(cn["cond"]), t, rest, env, vt))
                    return out
                out += self.walk(fn, c, stream, env, vt, depth)
            return out
        if k == "IfStmt":
            pre = self.expr_tokens(fn, nd["cond"], stream, env, vt, depth)
            if nd.get("constexpr"):
                taken = nd.get("taken")
                if taken == "then":
                    return pre + self.walk(fn, nd["then"], stream, env, vt, depth)
                if taken == "else" and nd.get("else") is not None:
                    return pre + self.walk(fn, nd["else"], stream, env, vt, depth)
                return pre
            t = self.walk(fn, nd["then"], stream, env, vt, depth)
            e = self.walk(fn, nd["else"], stream, env, vt, depth) if nd.get("else") is not None else []
            if not t and not e:
                return pre
            return pre + [self.mk_if(fn, fn.term(nd["cond"]), t, e, env, vt)]
        if k in ("ForStmt", "WhileStmt", "DoStmt"):
            pre = []
            if nd.get("init") is not None:
                pre += self.walk(fn, nd["init"], stream, env, vt, depth)
            body = self.walk(fn, nd["body"], stream, env, vt, depth)
            if nd.get("cond") is not None:
                body = body + self.expr_tokens(fn, nd["cond"], stream, env, vt, depth) if k == "DoStmt" else \
                    self.expr_tokens(fn, nd["cond"], stream, env, vt, depth) + body
            return pre + ([["loop", body]] if body else [])
        if k == "CXXForRangeStmt":
            lv = fn.n(nd["loopvar"]).get("decls", [{}])[0]
            env2 = dict(env)
            if "d" in lv:
                env2[("var", lv["n"], lv["d"])] = self.npath(fn, fn.term(nd["range"]), env, vt) + "[]"
            body = self.walk(fn, nd["body"], stream, env2, vt, depth)
            return [["loop", body]] if body else []
        if k == "CXXTryStmt":
            return self.walk(fn, nd["try"], stream, env, vt, depth)
        if k in ("CXXCatchStmt",):
            return []
        if k == "DeclStmt":
            out = []
            for d in nd.get("decls", []):
                if "init" in d:
                    out += self.expr_tokens(fn, d["init"], stream, env, vt, depth)
                    # reference locals and value locals alias what they are initialised from
                    if "d" in d:
                        it = fn.term(d["init"])
                        if d.get("is_ref") or (it[0] in ("mem", "idx", "un") and False):
                            env[("var", d["n"], d["d"])] = self.npath(fn, it, env, vt)
            return out
        if k == "ReturnStmt":
            return self.expr_tokens(fn, nd["value"], stream, env, vt, depth) if "value" in nd else []
        if k in ("BreakStmt", "ContinueStmt", "NullStmt"):
            return []
        return self.expr_tokens(fn, sid, stream, env, vt, depth)

    def mk_if(self, fn, cond, t, e, env, vt):
        """One spelling for a conditional whose then-branch emits nothing: `if (c) {} else {X}` is `if (!c) {X}`."""
        if not t and e:
            from .facts import NEGATED_CMP
            if cond[0] == "op" and cond[1] in NEGATED_CMP:
                if cond[1] == "==" and cond[2][0] == "size" and cond[3] == ("const", 0):
                    cond = ("op", ">", cond[2], cond[3])
                else:
                    cond = ("op", NEGATED_CMP[cond[1]], cond[2], cond[3])
            elif cond[0] == "un" and cond[1] == "!":
                cond = cond[2]
            else:
                cond = ("un", "!", cond)
            t, e = e, []
        return ["if", self.npath(fn, cond, env, vt), t, e]

    def _ends_in_return(self, fn, sid):
        nd = fn.n(sid)
        if nd["k"] in ("ReturnStmt", "ContinueStmt"):
            return True
        if nd["k"] == "CompoundStmt":
            ks = fn.kids(sid)
            return bool(ks) and fn.n(ks[-1])["k"] in ("ReturnStmt", "ContinueStmt")
        return False

    def calls_postorder(self, fn, eid):
        out = []

        def rec(x):
            nd = fn.n(x)
            if nd["k"] == "LambdaExpr":
                return
            ch = list(nd.get("c", []))
            for c in ch:
                if c is not None and c >= 0:
                    rec(c)
            if nd["k"] in CALLS or nd["k"] in CTORS:
                out.append(nd)
        rec(eid)
        return out

    def expr_tokens(self, fn, eid, stream, env, vt, depth):
        out = []
        for c in self.calls_postorder(fn, eid):
            out += self.call_tokens(fn, c, stream, env, vt, depth)
        return out

    def call_tokens(self, fn, c, stream, env, vt, depth):
        F = self.F
        fq = c.get("fq") or ""
        args = c.get("args", [])
        if fq in ("std::for_each", "std::generate_n", "std::generate", "std::transform", "std::for_each_n") and args:
            # a loop written as an algorithm: the lambda's body is the loop body (the stream is captured, same variable)
            ats = [fn.term(a) for a in args]
            lams = [t for t in ats if t[0] == "lambda"]
            lam = F.functions.get(lams[0][1]) if len(lams) == 1 else None
            if lam is not None and lam.cfg:
                env2 = dict(env)
                if lam.params and ats[0][0] == "call" and ats[0][1].split("::")[-1] in ("begin", "cbegin") and ats[0][2] is not None:
                    p0 = lam.params[0]
                    env2[("var", p0["n"], p0["d"])] = self.npath(fn, ats[0][2], env, vt) + "[]"
                sub = Tracer(F, self.roots, self.max_depth)
                sub.sites = 0
                vt2 = sub.var_types(lam)
                vt2.update(vt)
                body = sub.walk(lam, lam.body, stream, env2, vt2, depth + 1)
                self.sites += sub.sites
                self.prim_sites += sub.prim_sites
                return [["loop", body]] if body else []
        obj = fn.term(c["obj"]) if "obj" in c else None
        if obj is not None and obj[0] == "un" and obj[1] == "*":
            obj_n = obj
        on_stream = obj is not None and (obj == stream or self.npath(fn, obj, env, vt) == self.npath(fn, stream, env, vt))
        if c["k"] == "CXXMemberCallExpr" and on_stream and fq in PRIMS:
            self.sites += 1
            toks = self.prim_token(fn, c, env, vt)
            self.prim_sites.append((fn, c, toks))
            return toks
        if c["k"] == "CXXMemberCallExpr" and on_stream:
            nm = c.get("fname")
            if nm in ("Seek", "SeekForward", "SeekBackward"):
                self.sites += 1
                return [["seek", nm, self.npath(fn, fn.term(args[0]), env, vt)]]
            if nm in ("ReadPartial", "Peek", "ReadNullTerminatedString", "Slice"):
                self.sites += 1
                return [[nm]]
            return []
        # a repo callee that receives the stream (as argument, or as the object it is called on for member serialisers)
        callees = [cal for cal in F.callees(c) if cal.cfg]
        if not callees:
            return []
        spath = self.npath(fn, stream, env, vt)
        passes = [i for i, a in enumerate(args) if fn.term(a) == stream or self.npath(fn, fn.term(a), env, vt) == spath]
        same_member = stream[0] == "mem" and stream[1] == ("this",) and (obj == ("this",) or (obj is None and c["k"] == "CXXMemberCallExpr"))
        if not passes and not same_member:
            return []
        if len(callees) > 1:
            # virtual dispatch over the stream argument is not part of any serialiser here
            callees = callees[:1]
        cal = callees[0]
        if cal.qn.startswith("OP2Utility::Stream::"):
            return []
        env2 = {}
        for i, p in enumerate(cal.params):
            if i < len(args):
                env2[("var", p["n"], p["d"])] = self.npath(fn, fn.term(args[i]), env, vt)
                # where the value handed over comes from (a local the caller initialised, or what the caller was handed)
                at = fn.term(args[i])
                sv = self._value_source(fn, at, env, vt)
                if sv is not None:
                    env2[("src", p["n"], p["d"])] = sv
        if obj is not None and cal.cls and not cal.d.get("static"):
            # calling a member serialiser on some object: its `this` is that object
            env2["__this__"] = self.npath(fn, obj, env, vt)
        # a helper that builds and returns one local (`std::vector<T> v; ...read...; return v;`) whose result is stored
        # somewhere (`map.items = ReadItems(stream)`): inside the helper, that local stands for the destination
        rets = [x for x in cal.nodes if x["k"] == "ReturnStmt" and "value" in x]
        rv = {cal.term(x["value"]) for x in rets}
        if len(rv) == 1:
            r0 = list(rv)[0]
            if r0[0] == "var" and not any(r0 == ("var", p["n"], p["d"]) for p in cal.params):
                pm = fn.parent_map()
                cur = c["id"]
                dest = None
                for _ in range(8):
                    par = pm.get(cur)
                    if par is None:
                        break
                    pn = fn.n(par)
                    if pn["k"] in ("CXXOperatorCallExpr", "BinaryOperator") and pn.get("op") == "=":
                        a2 = pn.get("args") or fn.kids(par)
                        if len(a2) == 2 and cur in fn.subtree(a2[1]):
                            dest = fn.term(a2[0])
                        break
                    if pn["k"] == "DeclStmt":
                        for d2 in pn.get("decls", []):
                            if "init" in d2 and cur in fn.subtree(d2["init"]):
                                dest = ("var", d2["n"], d2["d"])
                        break
                    if pn["k"] in WRAPPERS or pn["k"] in CASTS or (pn["k"] in CTORS and pn.get("copy_or_move")):
                        cur = par
                        continue
                    break
                if dest is not None and dest[0] != "?":
                    env2[r0] = self.npath(fn, dest, env, vt)
        if passes:
            p = cal.params[passes[0]]
            cstream = ("var", p["n"], p["d"])
        else:
            cstream = stream
        sub = Tracer(F, self.roots, self.max_depth)
        sub.sites = 0
        toks = sub._trace_with_this(cal, cstream, env2, depth + 1)
        self.sites += sub.sites
        self.prim_sites += sub.prim_sites
        return toks

    def _trace_with_this(self, fn, stream, env, depth):
        self._this_path = env.pop("__this__", None)
        return self.trace(fn, stream, env, depth)

    def _rewritten(self, fn, v, use_id):
        """Local v (declared with an initialiser) is handed to a call by mutable reference / pointer, or assigned, between its
        declaration and node use_id."""
        decl = None
        for dn in fn.nodes:
            if dn["k"] == "DeclStmt" and any(("var", d.get("n"), d.get("d")) == v for d in dn.get("decls", [])):
                decl = dn["id"]
        if decl is None:
            return False
        for nd in fn.nodes:
            if not (decl < nd["id"] < use_id):
                continue
            if nd["k"] in ("BinaryOperator", "CompoundAssignOperator") and nd.get("op", "").endswith("=") and nd["op"] not in ("==", "!=", "<=", ">=") \
                    and fn.term(fn.kids(nd["id"])[0]) == v:
                return True
            if nd["k"] in ("CallExpr", "CXXMemberCallExpr", "CXXOperatorCallExpr"):
                ps = nd.get("params") or []
                args = nd.get("args") or []
                for a_, p_ in zip(args[-len(ps):] if ps else [], ps):
                    if ((p_.get("ref") and not p_.get("const_ref")) or (p_.get("ptr") and not p_.get("const_ptr"))) and v in (fn.term(a_), ) :
                        return True
        return False

    def _value_source(self, fn, a, env, vt):
        """For a plain local: the expression it was initialised with, as a path (None if it is not such a local)."""
        if a[0] != "var":
            return None
        if ("src", a[1], a[2]) in env:
            return env[("src", a[1], a[2])]
        defs = {}
        for dn in fn.nodes:
            if dn["k"] == "DeclStmt":
                for d in dn.get("decls", []):
                    if "init" in d and "d" in d and ("var", d["n"], d["d"]) not in env:
                        it = fn.term(d["init"])
                        if it[0] not in ("?", "lambda"):
                            defs[("var", d["n"], d["d"])] = it
        if a not in defs:
            return None
        from .flow import substitute
        aenv = dict(env)
        aenv["__anon__"] = True
        tt = defs[a]
        for _ in range(4):
            tt = substitute(tt, defs)
        return self.npath(fn, tt, aenv, vt)

    def prim_token(self, fn, c, env, vt):
        F = self.F
        args = c.get("args", [])
        params = c.get("params", [])
        targs = c.get("targs") or []
        key = c.get("fn") or ""
        if len(args) == 2 and params and params[0].get("ptr"):
            sz = fn.term(args[1])
            pt = self.npath(fn, fn.term(args[0]), env, vt)
            if sz[0] == "const":
                return [["bytes", sz[1], pt]]
            return [["rawn", pt, self.npath(fn, sz, env, vt)]]
        if len(args) == 1:
            a = fn.term(args[0])
            path = self.npath(fn, a, env, vt)
            if len(targs) == 2:
                pb = (targs[0].get("size_bits") or 0) // 8
                es = self.elem_size(targs[1])
                return [["pfx", pb], ["arr", es, path]]
            if len(targs) == 1 and "int" in targs[0]:
                return [["copy", path]]
            if len(targs) == 1:
                t0 = targs[0]
                rec = t0.get("record") or ""
                if rec.startswith("std::vector") or rec.startswith("std::basic_string"):
                    return [["arr", self.elem_size(t0), path]]
                if rec.startswith("std::array"):
                    return [["bytes", (t0.get("size_bits") or 0) // 8, path]]
                if rec and rec in F.records and not F.records[rec].get("trivially_copyable", True):
                    # object with its own Write(Stream::Writer&): handled by the caller through inlining
                    return [["obj", rec.split("::")[-1], path]]
                if not rec and a[0] == "var":
                    # a scalar hoisted into a local that only names it (`const uint32_t n = size(); Write(n)`) is that value
                    ax = fn.xterm(args[0])
                    if ax != a:
                        a = ax
                        path = self.npath(fn, a, env, vt)
                nm = rec.split("::")[-1] if rec else INTNAMES.get((t0.get("ct") or "").replace("const ", ""), t0.get("ct"))
                if rec:
                    nm = "::".join(rec.split("::")[-2:]) if rec.count("::") > 1 and rec.split("::")[-2][0].isupper() else rec.split("::")[-1]
                src = None
                defs = {}
                for dn in fn.nodes:
                    if dn["k"] == "DeclStmt":
                        for d in dn.get("decls", []):
                            if "init" in d and "d" in d and ("var", d["n"], d["d"]) not in env:
                                it = fn.term(d["init"])
                                if it[0] not in ("?", "lambda"):
                                    defs[("var", d["n"], d["d"])] = it
                from .flow import substitute
                aenv = dict(env)
                aenv["__anon__"] = True
                if a[0] == "var" and ("src", a[1], a[2]) in env:
                    src = env[("src", a[1], a[2])]
                elif a[0] == "var" and a in defs and (fn.local_value_at(a, c["id"]) is not None or not self._rewritten(fn, a, c["id"])):
                    # (a local that something between its declaration and this write may have changed - handed to a function
                    # by mutable reference, say - no longer stands for its initialiser)
                    tt = defs[a]
                    for _ in range(4):
                        tt = substitute(tt, defs)
                    src = self.npath(fn, tt, aenv, vt)
                elif path.startswith("tmp:") or "(" in path:
                    tt = a
                    for _ in range(4):
                        tt = substitute(tt, defs)
                    src = self.npath(fn, tt, aenv, vt)
                return [["val", (t0.get("size_bits") or 0) // 8, nm, path, src]]
            # non-template overloads
            if "basic_string" in key:
                return [["arr", 1, path]]
            if key.endswith("(OP2Utility::Stream::Reader &)"):
                return [["copy", path]]
        raise AnalysisBroken("R-SEQ: unrecognised primitive %s at %s" % (key, fn.loc(c["id"])))

    def elem_size(self, targ):
        ct = targ.get("ct") or ""
        rec = targ.get("record") or ""
        F = self.F
        inner = None
        if "<" in ct:
            inner = ct[ct.index("<") + 1:]
            # first template argument
            depth = 0
            for i, ch in enumerate(inner):
                if ch == "<":
                    depth += 1
                elif ch == ">":
                    if depth == 0:
                        inner = inner[:i]
                        break
                    depth -= 1
                elif ch == "," and depth == 0:
                    inner = inner[:i]
                    break
            inner = inner.strip()
        if inner in F.records:
            return F.records[inner]["size_bits"] // 8
        sizes = {"char": 1, "unsigned char": 1, "signed char": 1, "unsigned short": 2, "short": 2, "unsigned int": 4, "int": 4,
                 "unsigned long": 8, "long": 8}
        if inner in sizes:
            return sizes[inner]
        raise AnalysisBroken("R-SEQ: element size of %s unknown" % ct)


# ------------------------------------------------------------------------------------------
def leaf(path):
    if path is None:
        return None
    if path.startswith("size(") and path.endswith(")") and path.count("(") == 1:
        inner = leaf(path[5:-1])
        return "size(%s)" % inner if inner is not None else None
    if path.startswith("tmp:") or path.startswith("(") or path.startswith("strlit"):
        return None
    parts = path.replace("[]", "").split(".")
    if len(parts) == 1 and parts[0].startswith("~"):
        return None          # bare local / temporary: carries no field identity
    return parts[-1]


def cond_key(k):
    """Condition key with every member path reduced to its last two components (object identity removed)."""
    import re

    def red(m):
        p = m.group(0).replace("[]", "")
        parts = [x for x in p.split(".") if x]
        if parts and parts[0].startswith("~"):
            parts = parts[1:]
        return ".".join(parts[-2:]) if parts else m.group(0)
    return re.sub(r"~?[A-Za-z_][A-Za-z_0-9]*(?:\[\])?(?:\.[A-Za-z_][A-Za-z_0-9]*(?:\[\])?)+", red, k)


def normalise(tokens, keep_src=False):
    """Collapses byte-granular runs and reduces paths to their leaf field, for comparison."""
    out = []
    for t in tokens:
        k = t[0]
        if k == "loop":
            out.append(["loop", normalise(t[1], keep_src)])
        elif k == "if":
            out.append(["if", cond_key(t[1]), normalise(t[2], keep_src), normalise(t[3], keep_src)])
        elif k == "val":
            out.append(["val", t[1], t[2], leaf(t[3]), (t[4] if len(t) > 4 else None) if keep_src else None])
        elif k == "bytes":
            out.append(["bytes", t[1]])
        elif k == "arr":
            out.append(["arr", t[1], leaf(t[2])])
        elif k == "pfx":
            out.append(["pfx", t[1]])
        elif k == "copy":
            out.append(["copy"])
        elif k == "rawn":
            out.append(["rawn", leaf(t[1]), t[2]])
        elif k == "seek":
            out.append(["seek", t[1], t[2]])
        else:
            out.append(list(t))
    # adjacent byte-granular tokens (byte arrays, raw runs of variable length, loops of those) collapse into one
    # "bytestream": a reader may take in one read what a writer emits row by row
    def bytey(t):
        if t[0] == "arr" and t[1] == 1:
            return True
        if t[0] == "rawn" or t[0] == "bytestream":
            return True
        if t[0] == "loop":
            return all(bytey(x) for x in t[1]) and len(t[1]) > 0
        return False
    merged = []
    for t in out:
        if bytey(t) and not (t[0] == "arr" and t[2] not in (None, "pixels", "padding")):
            if merged and merged[-1][0] == "bytestream":
                continue
            merged.append(["bytestream"])
        else:
            merged.append(t)
    return merged


def tok_equal(a, b):
    if a[0] != b[0]:
        # a fixed-size byte run equals a value of the same size that carries no field identity
        if {a[0], b[0]} == {"bytes", "val"}:
            v = a if a[0] == "val" else b
            y = b if a[0] == "val" else a
            return v[1] == y[1]
        return False
    k = a[0]
    if k == "loop":
        return seq_equal(a[1], b[1])
    if k == "if":
        return a[1] == b[1] and seq_equal(a[2], b[2]) and seq_equal(a[3], b[3])
    if k == "val":
        a, b = list(a[:4]), list(b[:4])
        if a[1] != b[1]:
            return False
        if a[3] is not None and b[3] is not None and a[3] != b[3]:
            return False
        ints = set(INTNAMES.values())
        if a[2] != b[2] and not (a[2] in ints and b[2] in ints):
            return False
        return True
    if k == "arr":
        return a[1] == b[1] and (a[2] is None or b[2] is None or a[2] == b[2])
    return list(a) == list(b)


def seq_equal(x, y):
    return len(x) == len(y) and all(tok_equal(a, b) for a, b in zip(x, y))


def first_diff(x, y, pfx=""):
    for i in range(max(len(x), len(y))):
        a = x[i] if i < len(x) else None
        b = y[i] if i < len(y) else None
        if a is None or b is None:
            return "%s[%d]: %s vs %s" % (pfx, i, fmt_tok(a), fmt_tok(b))
        if not tok_equal(a, b):
            if a[0] == b[0] == "loop":
                return first_diff(a[1], b[1], pfx + "[%d]loop" % i)
            if a[0] == b[0] == "if" and a[1] == b[1]:
                d = first_diff(a[2], b[2], pfx + "[%d]then" % i)
                return d or first_diff(a[3], b[3], pfx + "[%d]else" % i)
            return "%s[%d]: %s vs %s" % (pfx, i, fmt_tok(a), fmt_tok(b))
    return None


def fmt_tok(t):
    if t is None:
        return "<nothing>"
    if t[0] == "loop":
        return "loop{%s}" % " ".join(fmt_tok(x) for x in t[1])
    if t[0] == "if":
        return "if(%s){%s}%s" % (t[1], " ".join(fmt_tok(x) for x in t[2]), ("else{%s}" % " ".join(fmt_tok(x) for x in t[3])) if t[3] else "")
    return "%s(%s)" % (t[0], ",".join(str(x) for x in t[1:] if x is not None))


def fmt_seq(ts):
    return " ".join(fmt_tok(t) for t in ts)


def load_spec(name):
    p = os.path.join(VERIF, "spec", name + ".seq.json")
    if not os.path.exists(p):
        raise AnalysisBroken("format description spec/%s.seq.json missing" % name)
    with open(p) as fh:
        return json.load(fh)


def r_seq(label, writer_tokens, reader_tokens, spec_name, site_w, site_r, fnw, fnr, reader_prefix=False):
    """Obligations: writer == spec, reader == writer."""
    out = []
    w = normalise(writer_tokens)
    if spec_name:
        ws = normalise(writer_tokens, keep_src=True)
        sp = load_spec(spec_name)["tokens"]
        inst = "%s#writer==spec" % label
        req = "the writer emits the token sequence of spec/%s.seq.json (kinds, sizes, fields, and the expression feeding each header)" % spec_name
        if json.dumps(ws) == json.dumps(sp):
            out.append(ok("R-SEQ", inst, site_w, fnw, req, fmt_seq(w)[:300]))
        else:
            out.append(bad("R-SEQ", inst, site_w, fnw, req, "first difference (writer vs format): %s" % (first_diff(w, normalise_spec(sp)) or exact_diff(ws, sp))))
    if reader_tokens is not None:
        r = normalise(reader_tokens)
        inst = "%s#reader==writer" % label
        req = "reader and writer visit the same fields in the same order, widths, prefixes and conditions"
        if reader_prefix:
            req += " (on the header part the reader parses; member data is addressed by offset)"
            w = w[:len(r)]
        if seq_equal(r, w):
            out.append(ok("R-SEQ", inst, site_r, fnr, req, "%d tokens agree" % len(flatten(w))))
        else:
            out.append(bad("R-SEQ", inst, site_r, fnr, req, "first difference (reader vs writer): %s" % first_diff(r, w)))
    return out


def normalise_spec(sp):
    def strip(ts):
        o = []
        for t in ts:
            if t[0] == "loop":
                o.append(["loop", strip(t[1])])
            elif t[0] == "if":
                o.append(["if", t[1], strip(t[2]), strip(t[3])])
            elif t[0] == "val":
                o.append(t[:4] + [None])
            else:
                o.append(t)
        return o
    return strip(sp)


def exact_diff(a, b, pfx=""):
    for i in range(max(len(a), len(b))):
        x = a[i] if i < len(a) else None
        y = b[i] if i < len(b) else None
        if x != y:
            if x and y and x[0] == y[0] == "loop":
                return exact_diff(x[1], y[1], pfx + "[%d]loop" % i)
            if x and y and x[0] == y[0] == "if":
                return exact_diff(x[2], y[2], pfx + "[%d]then" % i) or exact_diff(x[3], y[3], pfx + "[%d]else" % i) or "%s[%d] condition %s vs %s" % (pfx, i, x[1], y[1])
            return "%s[%d]: %s vs %s" % (pfx, i, x, y)
    return None


def flatten(ts):
    out = []
    for t in ts:
        if t[0] == "loop":
            out += flatten(t[1])
        elif t[0] == "if":
            out += flatten(t[2]) + flatten(t[3])
        else:
            out.append(t)
    return out

"""R-SIB: sibling agreement and comparator / key-function shapes."""
from .extract import AnalysisBroken
from .facts import CALLS, CTORS, fmt_term
from .flow import substitute, mentions, subterms
from .report import ok, bad


def P(fn, i):
    return ("var", fn.params[i]["n"], fn.params[i]["d"])


def local_defs(fn):
    """Single-assignment locals -> defining term (explicit casts kept)."""
    stored = set()
    for nd in fn.nodes:
        if nd["k"] in ("BinaryOperator", "CompoundAssignOperator") and nd.get("op", "").endswith("=") and nd["op"] not in ("==", "!=", "<=", ">="):
            stored.add(fn.term(fn.kids(nd["id"])[0]))
        if nd["k"] == "UnaryOperator" and nd.get("op") in ("++", "--"):
            stored.add(fn.term(fn.kids(nd["id"])[0]))
    defs = {}
    for nd in fn.nodes:
        if nd["k"] == "DeclStmt":
            for d in nd.get("decls", []):
                if "init" in d and "d" in d:
                    v = ("var", d["n"], d["d"])
                    if v in stored:
                        continue
                    t = fn.term(d["init"])
                    if t[0] not in ("?", "lambda", "const"):
                        defs[v] = t
    return defs


def xterm(fn, nid, defs):
    t = fn.term(nid)
    for _ in range(5):
        n = substitute(t, defs)
        if n == t:
            break
        t = n
    return t


def comparisons_between_params(fn):
    """Comparison nodes whose two sides mention different parameters (locals expanded, explicit casts kept):
    (node, op, lhs term, rhs term)."""
    out = []
    if len(fn.params) < 2:
        return out
    a, b = P(fn, 0), P(fn, 1)
    fn.keep_casts = True
    try:
        defs = local_defs(fn)
        cands = []
        for nd in fn.nodes:
            if nd["k"] == "BinaryOperator" and nd.get("op") in ("<", ">", "<=", ">=", "==", "!="):
                ks = fn.kids(nd["id"])
                cands.append((nd, xterm(fn, ks[0], defs), xterm(fn, ks[1], defs)))
            elif nd["k"] == "CXXOperatorCallExpr" and nd.get("op") in ("<", ">", "<=", ">=", "==", "!=") and len(nd.get("args", [])) == 2:
                cands.append((nd, xterm(fn, nd["args"][0], defs), xterm(fn, nd["args"][1], defs)))
    finally:
        fn.keep_casts = False
    for (nd, l, r) in cands:
        la, lb, ra, rb = mentions(l, a), mentions(l, b), mentions(r, a), mentions(r, b)
        if (la and rb and not lb and not ra) or (lb and ra and not la and not rb):
            out.append((nd, nd["op"], l, r))
    return out


def key_of(t, pv):
    """Key function applied around an element of parameter pv: returns (call name, inner) or (None, t)."""
    if t[0] == "call" and t[2] is None and len(t[3]) == 1:
        return t[1], t[3][0]
    return None, t


def symmetric_keys(fn, label, expect_key=None):
    """Both operands of every cross-parameter comparison go through the same key function on corresponding elements."""
    out = []
    a, b = P(fn, 0), P(fn, 1)
    cmps = comparisons_between_params(fn)
    if not cmps:
        raise AnalysisBroken("%s: no comparison between its two parameters found (shape not recognised)" % fn.qn)
    for (nd, op, l, r) in cmps:
        if mentions(l, b):
            l, r = r, l
        mirrored = substitute(r, {b: a})
        inst = "%s#cmp:%s" % (label, fmt_term(l))
        req = "both operands of `%s %s %s` are the same function of their argument" % (fmt_term(l), op, fmt_term(r))
        if mirrored == l:
            k, inner = key_of(l, a)
            is_elem = any(st[0] == "idx" and st[1] == a for st in subterms(l))
            if expect_key and is_elem and (k is None or k.split("::")[-1] != expect_key):
                out.append(bad("R-SIB", inst, fn.loc(nd["id"]), fn.qn, "elements are compared through %s" % expect_key,
                               "elements are compared as %s" % fmt_term(l)))
            else:
                out.append(ok("R-SIB", inst, fn.loc(nd["id"]), fn.qn, req, "mirror image under parameter renaming"))
        else:
            out.append(bad("R-SIB", inst, fn.loc(nd["id"]), fn.qn, req,
                           "left is %s, right (renamed) is %s" % (fmt_term(l), fmt_term(mirrored))))
    return out


def returns(fn):
    return [nd for nd in fn.nodes if nd["k"] == "ReturnStmt" and "value" in nd]


def enclosing_if_cond(fn, nid):
    """(cond node id, in_then) of the innermost IfStmt whose then/else contains nid."""
    pm = fn.parent_map()
    cur = nid
    while cur in pm:
        par = pm[cur]
        pn = fn.n(par)
        if pn["k"] == "IfStmt":
            if pn.get("then") is not None and cur in fn.subtree(pn["then"]):
                return pn["cond"], True
            if pn.get("else") is not None and cur in fn.subtree(pn["else"]):
                return pn["cond"], False
        cur = par
    return None, None


def lexicographic_less(fn, label):
    """Shape of a strict lexicographic 'comes before': inside the loop `key(a[i]) < key(b[i])` returns true and
    `key(a[i]) > key(b[i])` returns false; after the loop strict `<` on the lengths."""
    out = []
    a, b = P(fn, 0), P(fn, 1)
    loops = [nd for nd in fn.nodes if nd["k"] in ("WhileStmt", "ForStmt")]
    if len(loops) != 1:
        raise AnalysisBroken("%s: expected one loop (shape not recognised)" % fn.qn)
    body = set(fn.subtree(loops[0]["body"]))
    seen = {}
    for r in returns(fn):
        v = fn.n(fn.strip(r["value"]))
        if r["id"] in body:
            cid, in_then = enclosing_if_cond(fn, r["id"])
            if cid is not None and "v" not in v:
                # `if (x != y) return x < y;` decides both strict orders at once
                fn.keep_casts = True
                try:
                    ct = xterm(fn, cid, local_defs(fn))
                    rt = xterm(fn, r["value"], local_defs(fn))
                finally:
                    fn.keep_casts = False
                if ct[0] == "op" and ct[1] == "!=" and rt[0] == "op" and rt[1] in ("<", ">") and {ct[2], ct[3]} == {rt[2], rt[3]} and in_then:
                    l, rr, op = rt[2], rt[3], rt[1]
                    if mentions(l, b):
                        l, rr = rr, l
                        op = "<" if op == ">" else ">"
                    other = ">" if op == "<" else "<"
                    seen[op] = (True, r, ("op", op, l, rr))
                    seen[other] = (False, r, ("op", other, l, rr))
                    continue
            if cid is None or "v" not in v:
                raise AnalysisBroken("%s: a return inside the loop is not of the form `if (cmp) return <bool>`" % fn.qn)
            fn.keep_casts = True
            try:
                ct = xterm(fn, cid, local_defs(fn))
            finally:
                fn.keep_casts = False
            if not (ct[0] == "op" and ct[1] in ("<", ">")):
                raise AnalysisBroken("%s: loop comparison is not < or >" % fn.qn)
            l, rr = ct[2], ct[3]
            op = ct[1]
            if mentions(l, b):
                l, rr = rr, l
                op = "<" if op == ">" else ">"
            seen[op] = (bool(v["v"]), r, ct)
    inst = label + "#element-order"
    req = "in the loop, key(a[i]) < key(b[i]) returns true and key(a[i]) > key(b[i]) returns false"
    if seen.get("<", (None,))[0] is True and seen.get(">", (None,))[0] is False:
        out.append(ok("R-SIB", inst, fn.loc(seen["<"][1]["id"]), fn.qn, req, "both strict comparisons decided"))
    else:
        out.append(bad("R-SIB", inst, fn.loc(loops[0]["id"]), fn.qn, req,
                       "decisions found: %s" % {k: v[0] for k, v in seen.items()}))
    tail = [r for r in returns(fn) if r["id"] not in body]
    inst = label + "#length-tiebreak"
    req = "after a common prefix the shorter string comes first: strict `<` on the lengths"
    if len(tail) == 1:
        t = xterm(fn, tail[0]["value"], local_defs(fn))
        if t == ("op", "<", ("size", a), ("size", b)) or t == ("op", ">", ("size", b), ("size", a)):
            out.append(ok("R-SIB", inst, fn.loc(tail[0]["id"]), fn.qn, req, fmt_term(t)))
        else:
            out.append(bad("R-SIB", inst, fn.loc(tail[0]["id"]), fn.qn, req, "returns %s" % fmt_term(t)))
    else:
        raise AnalysisBroken("%s: expected one return after the loop" % fn.qn)
    # the loop runs over the common prefix with one shared index
    lc = fn.term(loops[0]["cond"])
    return out


def per_char_map(fn, label, expect, F=None):
    """ConvertToUpperInPlace-like: every character c of the string is replaced by <expect>(c).
    Recognised shapes: `c = toupper(c)` in a loop over the whole string, or the ASCII range form."""
    out = []
    sv = P(fn, 0)
    loops = [nd for nd in fn.nodes if nd["k"] in ("CXXForRangeStmt", "ForStmt", "WhileStmt")]
    inst = label + "#per-char"
    req = "every character of the string is mapped through %s" % expect
    if not loops and F is not None:
        # algorithm form: std::transform(s.begin(), s.end(), s.begin(), [](char c) { return K(c); })
        tr = [nd for nd in fn.nodes if nd["k"] in CALLS and (nd.get("fq") or "") == "std::transform" and len(nd.get("args", [])) == 4]
        if len(tr) == 1:
            a = [fn.term(x) for x in tr[0]["args"]]
            whole = a[0][0] == "call" and a[0][1].split("::")[-1] == "begin" and a[0][2] == sv and a[1][0] == "call" and a[1][1].split("::")[-1] == "end" and a[1][2] == sv
            inplace = a[2] == a[0]
            lam = F.functions.get(a[3][1]) if a[3][0] == "lambda" else None
            if not whole or not inplace:
                return [bad("R-SIB", inst, fn.loc(tr[0]["id"]), fn.qn, req, "std::transform does not map the whole string onto itself")]
            if lam is not None and len(lam.params) == 1:
                rets = [x for x in lam.nodes if x["k"] == "ReturnStmt" and "value" in x]
                if len(rets) == 1:
                    rt = lam.term(rets[0]["value"])
                    pv = ("var", lam.params[0]["n"], lam.params[0]["d"])
                    if rt[0] == "call" and rt[3] == (pv,):
                        if rt[1].split("::")[-1] == expect:
                            return [ok("R-SIB", inst, fn.loc(tr[0]["id"]), fn.qn, req, "transform(s, s, c -> %s(c))" % expect)]
                        return [bad("R-SIB", inst, fn.loc(tr[0]["id"]), fn.qn, req, "maps through %s" % rt[1])]
            raise AnalysisBroken("%s: std::transform with an unrecognised per-character function" % fn.qn)
    if len(loops) != 1:
        raise AnalysisBroken("%s: expected one loop over the string" % fn.qn)
    lp = loops[0]
    if lp["k"] == "CXXForRangeStmt":
        if fn.term(lp["range"]) != sv:
            return [bad("R-SIB", inst, fn.loc(lp["id"]), fn.qn, req, "loop ranges over %s" % fmt_term(fn.term(lp["range"])))]
        lv = None
        d = fn.n(lp["loopvar"]).get("decls", [{}])[0]
        if not d.get("is_ref"):
            return [bad("R-SIB", inst, fn.loc(lp["id"]), fn.qn, req, "loop variable is a copy; the string is not modified")]
        lv = ("var", d["n"], d["d"])
        body = fn.subtree(lp["body"])
        stores = [fn.n(x) for x in body if fn.n(x)["k"] in ("BinaryOperator", "CompoundAssignOperator") and fn.n(x).get("op", "").endswith("=")
                  and fn.n(x)["op"] not in ("==", "!=", "<=", ">=") and fn.term(fn.kids(x)[0]) == lv]
        if len(stores) != 1:
            raise AnalysisBroken("%s: expected one store to the loop variable" % fn.qn)
        st = stores[0]
        rhs = fn.term(fn.kids(st["id"])[1])
        cid, in_then = enclosing_if_cond(fn, st["id"])
        if st["op"] == "=" and rhs[0] == "call" and rhs[3] == (lv,) and cid is None:
            if rhs[1].split("::")[-1] == expect:
                return [ok("R-SIB", inst, fn.loc(st["id"]), fn.qn, req, "c = %s(c) for every c" % expect)]
            return [bad("R-SIB", inst, fn.loc(st["id"]), fn.qn, req, "maps through %s" % rhs[1])]
        # ASCII range form: if (c >= 'a' && c <= 'z') c -= 32  (or c = c - 32 / c & ~0x20 / c ^ 0x20)
        if cid is not None and in_then:
            from .prove import term_cond_facts
            fs = term_cond_facts(fn.term(cid), True)
            lo = hi = None
            ct0 = fn.term(cid)
            # subtract-and-compare idiom: (unsigned char)(c - lo) < k   <=>   lo <= c <= lo + k - 1
            if ct0[0] == "op" and ct0[1] in ("<", "<=") and ct0[2][0] == "op" and ct0[2][1] == "-" and ct0[2][2] == lv \
                    and ct0[2][3][0] == "const" and ct0[3][0] == "const":
                lo = ct0[2][3][1]
                hi = lo + ct0[3][1] - (1 if ct0[1] == "<" else 0)
                fs = set()
            for f in fs:
                if f[0] in ("<=", "<") and f[2] == lv and f[1][0] == "const":
                    lo = f[1][1] + (1 if f[0] == "<" else 0)
                if f[0] in ("<=", "<") and f[1] == lv and f[2][0] == "const":
                    hi = f[2][1] - (1 if f[0] == "<" else 0)
            want = (97, 122) if expect == "toupper" else (65, 90)
            delta_ok = (st["op"] == "-=" and rhs == ("const", 32) and expect == "toupper") or \
                       (st["op"] == "+=" and rhs == ("const", 32) and expect == "tolower") or \
                       (st["op"] == "=" and rhs in (("op", "-", lv, ("const", 32)), ("op", "^", lv, ("const", 32)), ("op", "&", lv, ("const", -33))))
            if (lo, hi) == want and delta_ok:
                return [ok("R-SIB", inst, fn.loc(st["id"]), fn.qn, req, "ASCII range form over [%d, %d]" % want)]
            if lo is not None and hi is not None:
                return [bad("R-SIB", inst, fn.loc(cid), fn.qn, req,
                            "ASCII range form covers [%s, %s] instead of [%d, %d]%s" % (lo, hi, want[0], want[1], "" if delta_ok else " / wrong delta"))]
        raise AnalysisBroken("%s: per-character mapping shape not recognised" % fn.qn)
    raise AnalysisBroken("%s: loop shape not recognised" % fn.qn)


def mismatch_form(F, fn, label, expect_key):
    """The comparator written with std::mismatch: the first position where key(a[i]) != key(b[i]) is located with a lambda,
    a common prefix is decided by strict `<` on the lengths, and the strings are ordered by the SAME key at that position.
    Returns a list of obligations, or None when the function does not use std::mismatch."""
    from .facts import CALLS
    mm = [nd for nd in fn.nodes if nd["k"] in CALLS and (nd.get("fq") or "") == "std::mismatch"]
    if len(mm) != 1:
        return None
    a, b = P(fn, 0), P(fn, 1)
    out = []
    args = [fn.term(x) for x in mm[0]["args"]]
    lam = F.functions.get(args[-1][1]) if args and args[-1][0] == "lambda" else None
    inst = label + "#cmp:mismatch-predicate"
    req = "the position is found by comparing %s of both characters for equality" % expect_key
    key = None
    if lam is not None and len(lam.params) == 2:
        rs = [x for x in lam.nodes if x["k"] == "ReturnStmt" and "value" in x]
        if len(rs) == 1:
            t = lam.term(rs[0]["value"])
            p1, p2 = ("var", lam.params[0]["n"], lam.params[0]["d"]), ("var", lam.params[1]["n"], lam.params[1]["d"])
            if t[0] == "op" and t[1] == "==" and substitute(t[3], {p2: p1}) == t[2]:
                k, inner = key_of(t[2], p1)
                key = k
    if key is not None and key.split("::")[-1] == expect_key:
        out.append(ok("R-SIB", inst, fn.loc(mm[0]["id"]), fn.qn, req, "%s(c1) == %s(c2)" % (expect_key, expect_key)))
    else:
        out.append(bad("R-SIB", inst, fn.loc(mm[0]["id"]), fn.qn, req, "predicate key: %s" % key))
        return out
    # the result pair
    mv = None
    for nd in fn.nodes:
        if nd["k"] == "DeclStmt":
            for d in nd.get("decls", []):
                if "init" in d and fn.strip(d["init"]) == mm[0]["id"]:
                    mv = ("var", d["n"], d["d"])
    if mv is None:
        raise AnalysisBroken("%s: std::mismatch result is not kept in a local (shape not recognised)" % fn.qn)
    first, second = ("un", "*", ("mem", mv, "first")), ("un", "*", ("mem", mv, "second"))
    rets = returns(fn)
    inst = label + "#element-order"
    req = "at the first position that differs under %s, the strings are ordered by %s of the two characters" % (expect_key, expect_key)
    elem = [r for r in rets if mentions(fn.term(r["value"]), mv)]
    tail = [r for r in rets if not mentions(fn.term(r["value"]), mv)]
    if len(elem) != 1 or len(tail) != 1:
        raise AnalysisBroken("%s: expected one return on the mismatching pair and one on the lengths (shape not recognised)" % fn.qn)
    t = fn.term(elem[0]["value"])
    want = lambda x: ("call", key, None, (x,))
    fn.keep_casts = False
    def strip_key(x):
        k2, inner = key_of(x, first) if mentions(x, first) else key_of(x, second)
        return k2
    if t[0] == "op" and t[1] == "<" and mentions(t[2], first) and mentions(t[3], second):
        kl = key_of(t[2], first)[0]
        kr = key_of(t[3], second)[0]
        if kl is not None and kr is not None and kl.split("::")[-1] == expect_key and kr.split("::")[-1] == expect_key:
            out.append(ok("R-SIB", inst, fn.loc(elem[0]["id"]), fn.qn, req, fmt_term(t)))
        else:
            out.append(bad("R-SIB", inst, fn.loc(elem[0]["id"]), fn.qn, req,
                           "returns %s: the position was found with %s but is ordered by the unfolded characters (equal-ignoring-case names are then ordered inconsistently)" % (fmt_term(t), expect_key)))
    else:
        out.append(bad("R-SIB", inst, fn.loc(elem[0]["id"]), fn.qn, req, "returns %s" % fmt_term(t)))
    tt = xterm(fn, tail[0]["value"], local_defs(fn))
    inst = label + "#length-tiebreak"
    req = "after a common prefix the shorter string comes first: strict `<` on the lengths"
    if tt == ("op", "<", ("size", a), ("size", b)) or tt == ("op", ">", ("size", b), ("size", a)):
        out.append(ok("R-SIB", inst, fn.loc(tail[0]["id"]), fn.qn, req, fmt_term(tt)))
    else:
        out.append(bad("R-SIB", inst, fn.loc(tail[0]["id"]), fn.qn, req, "returns %s" % fmt_term(tt)))
    return out


def case_insensitive_less(F, fn, label, expect_key="tolower"):
    """The case-insensitive 'comes before' in whichever recognised form it is written (index loop, or std::mismatch)."""
    mf = mismatch_form(F, fn, label, expect_key)
    if mf is not None:
        return mf
    return symmetric_keys(fn, label, expect_key=expect_key) + lexicographic_less(fn, label)

"""Compile-only type witnesses: snippets that must (or must not) type-check against /repo's headers.

All witnesses of one property are batched into one translation unit and compiled once with
`clang++ -fsyntax-only -ferror-limit=0`; diagnostics are mapped back to witnesses by line."""
import os
import re
import subprocess

from .extract import AnalysisBroken, compile_db
from .report import ok, bad


def run_witnesses(F, prop, witnesses, preamble=""):
    """witnesses: list of (name, code, expect) with expect in {"compiles", "rejected"}; code is the body of a function.
    Returns obligations."""
    repo = F.repo
    lines = ['#include "OP2Utility.h"', '#include "../src/Stream/DynamicMemoryWriter.h"', "#include <type_traits>",
             "#include <utility>", "using namespace OP2Utility;", preamble]
    spans = []
    for i, (name, code, expect) in enumerate(witnesses):
        start = len(lines) + 1
        lines.append("namespace w%d { %s }" % (i, " ".join(code.split("\n"))))
        spans.append((start, len(lines), name, expect, code))
    src = os.path.join(F.dir, "witness_%s.cpp" % prop)
    with open(src, "w") as fh:
        fh.write("\n".join(lines) + "\n")
    std = F.meta.get("std", "-std=c++17")
    cmd = ["clang++", "-fsyntax-only", "-ferror-limit=0", std, "-UNDEBUG", "-Wno-everything",
           "-I" + os.path.join(repo, "include"), "-I" + os.path.join(repo, "src"), src]
    p = subprocess.run(cmd, capture_output=True, text=True)
    errs = {}
    pat = re.compile(r"^%s:(\d+):\d+: (?:fatal )?error: (.*)$" % re.escape(src))
    other = []
    for ln in p.stderr.splitlines():
        m = pat.match(ln)
        if m:
            errs.setdefault(int(m.group(1)), []).append(m.group(2))
        elif ": error:" in ln or ": fatal error:" in ln:
            other.append(ln)
    if other:
        raise AnalysisBroken("witness TU has errors outside the witnesses: " + other[0])
    out = []
    for (a, b, name, expect, code) in spans:
        es = [e for l in range(a, b + 1) for e in errs.get(l, [])]
        inst = "witness:" + name
        if expect == "compiles":
            if not es:
                out.append(ok("R-CONST", inst, "witness_%s.cpp" % prop, "(type witness)", "`%s` type-checks" % code.strip(), "accepted by clang -fsyntax-only"))
            else:
                out.append(bad("R-CONST", inst, "witness_%s.cpp" % prop, "(type witness)", "`%s` type-checks" % code.strip(), "rejected: " + es[0]))
        else:
            if es:
                out.append(ok("R-CONST", inst, "witness_%s.cpp" % prop, "(type witness)", "`%s` is rejected by the type system" % code.strip(), "rejected: " + es[0][:120]))
            else:
                out.append(bad("R-CONST", inst, "witness_%s.cpp" % prop, "(type witness)", "`%s` is rejected by the type system" % code.strip(), "it compiles"))
    return out

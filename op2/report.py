"""Obligations, verdicts, evidence files, known findings."""
import json
import os
import time

VERIF = os.path.dirname(os.path.dirname(os.path.abspath(__file__)))

ASSUMPTIONS = [
    "LP64 data model (size_t/uint64_t 64-bit, int 32-bit); 32-bit targets are not analysed",
    "field-based alias model: a member is (record, field path); distinct objects of one class are not distinguished",
    "resource-exhaustion exceptions of the standard library (bad_alloc, length_error) are not throw sites",
    "standard-library callees are modelled by a short table (vector/string/fstream/memcpy/sort/abs/swap)",
    "facts come from clang 14's type-checked AST / record layouts / CFG of the compile commands `make -n -B all` prints, plus -UNDEBUG",
    "a pass means every listed structural obligation is discharged on the current source; the behaviour itself is not executed or observed",
]


class Obligation:
    __slots__ = ("rule", "instance", "site", "function", "required", "status", "detail", "nontrivial")

    def __init__(self, rule, instance, site, function, required, status, detail="", nontrivial=True):
        self.rule = rule
        self.instance = instance      # stable key: no line numbers
        self.site = site              # file:line for humans
        self.function = function
        self.required = required
        self.status = status          # "discharged" | "violated" | "undecided"
        self.detail = detail
        self.nontrivial = nontrivial

    def key(self):
        return "%s|%s" % (self.rule, self.instance)

    def to_json(self):
        return {"rule": self.rule, "instance": self.instance, "site": self.site, "function": self.function,
                "required": self.required, "status": self.status, "detail": self.detail}


def ok(rule, instance, site, function, required, detail="", nontrivial=True):
    return Obligation(rule, instance, site, function, required, "discharged", detail, nontrivial)


def bad(rule, instance, site, function, required, detail=""):
    return Obligation(rule, instance, site, function, required, "violated", detail)


def load_known():
    p = os.path.join(VERIF, "known_findings.json")
    if not os.path.exists(p):
        return {"open": [], "fixed": []}
    with open(p) as fh:
        return json.load(fh)


class Run:
    def __init__(self, prop, tier, seed=0):
        self.prop = prop
        self.tier = tier
        self.seed = seed
        self.t0 = time.time()
        self.obligations = []
        self.floors = {}       # rule -> (found, floor)
        self.fixtures = []     # (name, matched)
        self.extra = {}
        self.declined = []
        self.explanation = ""

    def add(self, obs):
        if isinstance(obs, Obligation):
            obs = [obs]
        self.obligations.extend(obs)

    def floor(self, rule, found, floor):
        self.floors[rule] = (found, floor)

    def fixture(self, name, matched):
        self.fixtures.append((name, bool(matched)))

    def finish(self, stats, write_evidence=True):
        """Prints the report, writes evidence and the replay file, returns the exit code."""
        known = load_known()
        open_known = {(k["property"], k["key"]): k for k in known.get("open", [])}
        broken = []
        for rule, (found, floor) in sorted(self.floors.items()):
            # The floor is the instance count confirmed by hand on the reviewed tree. Its purpose is to stop a rule from
            # passing vacuously (matching nothing, or a fraction of what it is meant to cover); a refactoring that merges
            # two duplicated sites or drops a redundant cast legitimately lowers the count a little. Vacuity is declared
            # below 60% of the confirmed count (and always at zero).
            eff = max(1, (floor * 3) // 5)
            if found < eff:
                broken.append("rule %s matched %d instances, below 60%% of the confirmed count %d" % (rule, found, floor))
        for name, matched in self.fixtures:
            if not matched:
                broken.append("positive fixture %s no longer matches" % name)
        viol, knownhit = [], []
        seen = set()
        dedup = []
        for o in self.obligations:
            if (o.key(), o.status) in seen:
                continue
            seen.add((o.key(), o.status))
            dedup.append(o)
        self.obligations = dedup
        if os.environ.get("OP2_LIST"):
            for o in self.obligations:
                print("  OBLIGATION %s %s %s" % (o.rule, o.instance, o.status))
        for o in self.obligations:
            if o.status == "violated":
                if (self.prop, o.key()) in open_known:
                    knownhit.append(o)
                else:
                    viol.append(o)
        n = len(self.obligations)
        nd = sum(1 for o in self.obligations if o.status == "discharged")
        print("property %s tier=%s: units=%d functions=%d cfg_blocks=%d call_sites=%d" % (
            self.prop, self.tier, stats["units"], stats["functions"], stats["cfg_blocks"], stats["call_sites"]))
        byrule = {}
        for o in self.obligations:
            r = byrule.setdefault(o.rule, [0, 0])
            r[0] += 1
            r[1] += o.status == "discharged"
        for r in sorted(byrule):
            fl = self.floors.get(r)
            print("  %-12s obligations=%-4d discharged=%-4d%s" % (r, byrule[r][0], byrule[r][1],
                                                                 (" floor=%d" % fl[1]) if fl else ""))
        for name, matched in self.fixtures:
            print("  fixture %-40s %s" % (name, "matched" if matched else "NOT MATCHED"))
        for o in knownhit:
            k = open_known[(self.prop, o.key())]
            print("KNOWN-FINDING: property=%s %s [%s at %s]" % (self.prop, k.get("what", o.required), o.key(), o.site))
        replay = None
        if viol:
            os.makedirs(os.path.join(VERIF, "reports"), exist_ok=True)
            replay = os.path.join(VERIF, "reports", "%s.violation.json" % self.prop)
            with open(replay, "w") as fh:
                json.dump({"property": self.prop, "tier": self.tier, "tree_key": stats.get("tree_key"),
                           "violations": [o.to_json() for o in viol]}, fh, indent=1)
            for o in viol:
                print("  violated: [%s] %s in %s at %s\n      required: %s\n      found:    %s" % (
                    o.rule, o.instance, o.function, o.site, o.required, o.detail))
        wall = time.time() - self.t0
        if write_evidence:
            self._write_evidence(stats, n, nd, viol, knownhit, broken, wall)
        for b in broken:
            print("ANALYSIS-BROKEN: " + b)
        if viol:
            # a concrete unmet obligation outranks the vacuity guard (instance floors / fixtures)
            print("VIOLATION property=%s replay=%s" % (self.prop, replay))
            return 1
        if broken:
            return 2
        print("OK property=%s obligations=%d discharged=%d known_findings=%d wall=%.1fs" % (
            self.prop, n, nd, len(knownhit), wall))
        return 0

    def _write_evidence(self, stats, n, nd, viol, knownhit, broken, wall):
        disch = [o for o in self.obligations if o.status == "discharged"]
        nontriv = {o.key() for o in disch if o.nontrivial}
        samples = []
        seen_rules = {}
        for o in disch:
            c = seen_rules.get(o.rule, 0)
            if c < 3:
                samples.append(o.to_json())
                seen_rules[o.rule] = c + 1
        ev = {
            "property_id": self.prop,
            "tier": self.tier,
            "seed": self.seed,
            "level": "other",
            "coverage": {
                "explanation": self.explanation,
                "obligations": n,
                "discharged": nd,
                "evaluations": max(n, 1),
                "distinct_nontrivial": len(nontriv),
                "rule": "one evaluation per (rule, function, instance) obligation raised on the current /repo source; "
                        "distinct_nontrivial counts distinct obligation keys that needed a non-empty guard / agreement / "
                        "layout argument (obligations discharged trivially, e.g. by a constant, are not counted)",
                "samples": samples,
                "analysed": stats,
                "per_rule": {},
                "instance_floors": {r: {"found": f, "floor": fl} for r, (f, fl) in self.floors.items()},
                "fixtures": [{"name": nm, "matched": m} for nm, m in self.fixtures],
                "known_findings_hit": [o.to_json() for o in knownhit],
                "violations": [o.to_json() for o in viol],
                "analysis_broken": broken,
                "declined_clauses": self.declined,
                "exhaustive": False,
            },
            "assumptions": ASSUMPTIONS + ["declined (not decided): " + d for d in self.declined],
            "wall_s": round(wall, 3),
            "violations": len(viol),
        }
        for o in self.obligations:
            r = ev["coverage"]["per_rule"].setdefault(o.rule, {"obligations": 0, "discharged": 0})
            r["obligations"] += 1
            r["discharged"] += o.status == "discharged"
        ev["coverage"].update(self.extra)
        os.makedirs(os.path.join(VERIF, "evidence"), exist_ok=True)
        with open(os.path.join(VERIF, "evidence", "%s.json" % self.prop), "w") as fh:
            json.dump(ev, fh, indent=1, default=str)

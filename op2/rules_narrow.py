"""R-NARROW: every narrowing of a non-constant value on a serialisation path is dominated by a refusal."""
from .facts import CALLS, CTORS, CASTS, fmt_term
from .flow import Engine, final_site_facts, fmt_fact
from .prove import Width, prove_le
from .report import ok, bad
from .rules_archive import facts_txt


def capacity(iw, signed):
    return (1 << (iw - (1 if signed else 0))) - 1


def narrowing_sites(fn, explicit_only=False, sign_conversions=True):
    """(node id, source node id, capacity, description) for conversions that may lose value bits."""
    W = Width(fn)
    out = []
    for nd in fn.nodes:
        k = nd["k"]
        if k in CASTS and nd.get("iw") and nd.get("ck") in ("IntegralCast", "NoOp", None) or \
                (k in ("CXXStaticCastExpr", "CStyleCastExpr", "CXXFunctionalCastExpr") and nd.get("iw")):
            if k == "ImplicitCastExpr" and (explicit_only or nd.get("ck") != "IntegralCast"):
                continue
            ks = fn.kids(nd["id"])
            if not ks:
                continue
            src = fn.n(ks[0])
            # explicit cast wrapping an implicit one: take the innermost value
            inner = ks[0]
            while fn.n(inner)["k"] == "ImplicitCastExpr" and fn.kids(inner):
                inner = fn.kids(inner)[0]
            isrc = fn.n(inner)
            if isrc.get("iw") is None or isrc.get("bool") or nd.get("bool"):
                continue
            if "cv" in isrc or "cv" in nd:
                continue
            cap = capacity(nd["iw"], nd.get("is"))
            need = W.needed(inner)
            if not sign_conversions and nd["iw"] == isrc.get("iw"):
                continue        # same width: every bit is kept (only the reading as signed / unsigned changes)
            negative_possible = isrc.get("is") and not nd.get("is")
            if (1 << need) - 1 <= cap and not (negative_possible and sign_conversions):
                continue
            if isrc.get("enum") or nd.get("enum"):
                continue
            out.append((nd["id"], inner, cap, "%s -> %s" % (isrc.get("ct"), nd.get("ct"))))
        elif k == "CompoundAssignOperator" and nd.get("op") in ("+=", "*=", "<<=") and nd.get("iw"):
            ks = fn.kids(nd["id"])
            lw = fn.n(ks[0]).get("iw")
            if lw is None:
                continue
            cap = capacity(lw, fn.n(ks[0]).get("is"))
            a, b = W.needed(ks[0]), W.needed(ks[1])
            need = max(a, b) + 1 if nd["op"] == "+=" else a + b
            if (1 << need) - 1 <= cap:
                continue
            out.append((nd["id"], nd["id"], cap, "accumulation in %s" % fn.n(ks[0]).get("ct")))
        elif k == "BinaryOperator" and nd.get("op") == "=":
            ks = fn.kids(nd["id"])
            l = fn.n(fn.strip(ks[0], casts=False))
            if l.get("k") == "MemberExpr" and l.get("bitfield"):
                cap = capacity(l["bfw"], l.get("is"))
                inner = ks[1]
                while fn.n(inner)["k"] in ("ImplicitCastExpr",) and fn.kids(inner):
                    inner = fn.kids(inner)[0]
                if "cv" in fn.n(inner):
                    continue
                if (1 << W.needed(inner)) - 1 <= cap:
                    continue
                out.append((nd["id"], inner, cap, "store into %d-bit field %s" % (l["bfw"], l.get("m"))))
    return out


def value_term(fn, nid):
    nd = fn.n(nid)
    if nd["k"] == "CompoundAssignOperator":
        ks = fn.kids(nid)
        op = nd["op"][:-1]
        return ("op", op, fn.term(ks[0]), fn.term(ks[1]))
    return fn.term(nid)


def r_narrow(F, S, fn, entry=frozenset(), explicit_only=False, label=None, engine=None, sign_conversions=True):
    eng = engine or Engine(F, S)
    eng.analyze(fn, frozenset(entry))
    out = []
    n = 0
    for (nid, src, cap, desc) in narrowing_sites(fn, explicit_only, sign_conversions):
        site = final_site_facts(eng, fn, nid)
        if site is None:
            continue
        n += 1
        t = value_term(fn, src)
        inst = "%s#narrow:%s" % (label or fn.qn, fmt_term(t))
        req = "%s <= %d is established before the conversion (%s)" % (fmt_term(t), cap, desc)
        if prove_le(site, t, ("const", cap)):
            out.append(ok("R-NARROW", inst, fn.loc(nid), fn.qn, req, "a refusal of larger values dominates the conversion"))
        else:
            out.append(bad("R-NARROW", inst, fn.loc(nid), fn.qn, req, "no dominating bound; facts at site: " + facts_txt(site)))
    return out, n

"""R-ACCT: symbolic size accounting for the archive writers (linear normalisation of source expressions; nothing is run)."""
from .extract import AnalysisBroken
from .facts import CALLS, CTORS, fmt_term
from .report import ok, bad
from .rules_stream import linear, lin_diff, is_store

AR = "OP2Utility::Archive::"
VOL, CLM = AR + "VolFile", AR + "ClmFile"


def lin_str(d):
    co, c = d
    parts = ["%+d*%s" % (v, fmt_term(k)) for k, v in sorted(co, key=lambda x: repr(x[0]))]
    return " ".join(parts) + (" %+d" % c if c else "") or "0"


def add(a, b):
    co = dict(a[0])
    for k, v in b[0].items():
        co[k] = co.get(k, 0) + v
    return {k: v for k, v in co.items() if v}, a[1] + b[1]


def same(a, b):
    return {k: v for k, v in a[0].items() if v} == {k: v for k, v in b[0].items() if v} and a[1] == b[1]


def write_calls(fn, stream):
    out = []
    for nd in fn.nodes:
        if nd["k"] == "CXXMemberCallExpr" and nd.get("fname") == "Write" and "obj" in nd and fn.term(nd["obj"]) == stream:
            out.append(nd)
    return sorted(out, key=lambda n: n["id"])


def emitted_size(F, fn, nd, loop_sum):
    """Linear byte count of one Write call; loops over names are summarised by `loop_sum`."""
    args = nd.get("args", [])
    ps = nd.get("params", [])
    targs = nd.get("targs") or []
    if len(args) == 2 and ps and ps[0].get("ptr"):
        return linear(fn.xterm(args[1]))
    if len(args) == 1 and len(targs) == 1 and targs[0].get("size_bits") and not (targs[0].get("record") or "").startswith("std::vector"):
        return {}, targs[0]["size_bits"] // 8
    raise AnalysisBroken("R-ACCT: cannot size the write at %s" % fn.loc(nd["id"]))


def vol_accounting(F, S):
    out = []
    wh = F.fn(VOL + "::WriteHeader", nparams=2)
    ph = F.fn(VOL + "::PrepareHeader", nparams=2)
    wf = F.fn(VOL + "::WriteFiles", nparams=2)
    w = ("var", wh.params[0]["n"], wh.params[0]["d"])
    vi = ("var", wh.params[1]["n"], wh.params[1]["d"])
    M = lambda f: ("mem", vi, f)
    S_, I_, pS, pI = M("stringTableLength"), M("indexTableLength"), M("paddedStringTableLength"), M("paddedIndexTableLength")
    # the name loop emits names[i].size() + 1 per file: the same quantity PrepareHeader accumulates into stringTableLength
    loops = [nd for nd in wh.nodes if nd["k"] in ("ForStmt", "CXXForRangeStmt")]
    if len(loops) != 1:
        raise AnalysisBroken("WriteHeader: expected one loop (names)")
    range_var = None
    if loops[0]["k"] == "CXXForRangeStmt":
        d0 = wh.n(loops[0]["loopvar"])["decls"][0]
        rt = wh.term(loops[0]["range"])
        if rt[0] == "mem" and rt[2] == "names":
            range_var = ("var", d0["n"], d0["d"])
    body = set(wh.subtree(loops[0]["body"]))
    calls = write_calls(wh, w)
    total = ({}, 0)
    hdr_lengths = {}
    name_term = None
    for c in calls:
        if c["id"] in body:
            t = wh.term(c["args"][1])
            name_term = t
            continue
        total = add(total, emitted_size(F, wh, c, None))
        a0 = wh.term(c["args"][0])
        if a0[0] == "ctor" and (a0[1] or "").endswith("SectionHeader") and len(a0[2]) >= 2 and a0[2][0][0] == "global":
            hdr_lengths[a0[2][0][1].split("::")[-1]] = wh.through_locals_at(a0[2][1], c["id"])
    # PrepareHeader's accumulation
    from .through import closure
    ph_all = closure(F, ph)
    acc = None
    for f in ph_all:
        for nd in f.nodes:
            if nd["k"] == "CompoundAssignOperator" and nd.get("op") == "+=":
                l = f.term(f.kids(nd["id"])[0])
                if l[0] == "mem" and l[2] == "stringTableLength":
                    acc = f.xterm(f.kids(nd["id"])[1])
            elif nd["k"] == "BinaryOperator" and nd.get("op") == "=":
                # `len = len + x` (possibly through a wider local that is range-checked first) is the same accumulation
                l = f.term(f.kids(nd["id"])[0])
                if l[0] == "mem" and l[2] == "stringTableLength":
                    r = f.xterm(f.kids(nd["id"])[1])
                    co, c0 = linear(r)
                    if co.get(l) == 1:
                        rest = {k: v for k, v in co.items() if k != l}
                        if len(rest) == 1 and list(rest.values()) == [1]:
                            acc = ("op", "+", list(rest.keys())[0], ("const", c0))
    def shape(t):
        # size(names[i]) + 1 irrespective of the object it hangs off (or size(name) + 1 for `name` ranging over names)
        if not (t[0] == "op" and t[1] == "+" and t[3] == ("const", 1) and t[2][0] == "size"):
            return False
        e = t[2][1]
        return (e[0] == "idx" and e[1][0] == "mem" and e[1][2] == "names") or (range_var is not None and e == range_var)
    inst = VOL + "#names==stringTableLength"
    req = "the bytes emitted per name (size + 1) are what PrepareHeader accumulates into stringTableLength, over the same 0..fileCount() range"
    if name_term is not None and acc is not None and shape(name_term) and shape(acc):
        out.append(ok("R-ACCT", inst, wh.loc(loops[0]["id"]), wh.qn, req, "both are names[i].size() + 1"))
        total = add(total, linear(S_))
    else:
        out.append(bad("R-ACCT", inst, wh.loc(loops[0]["id"]), wh.qn, req, "writer emits %s per name, PrepareHeader adds %s" % (fmt_term(name_term) if name_term else "?", fmt_term(acc) if acc else "?")))
        return out
    want_total = add(add(linear(pS), linear(pI)), ({}, 32))
    inst = VOL + "::WriteHeader#total"
    req = "the header bytes emitted sum to paddedStringTableLength + paddedIndexTableLength + 32"
    if same(total, want_total):
        out.append(ok("R-ACCT", inst, wh.loc(wh.body), wh.qn, req, "8+8+8+4+S+(pS-(S+4))+8+I+(pI-I) normalises to pS + pI + 32"))
    else:
        out.append(bad("R-ACCT", inst, wh.loc(wh.body), wh.qn, req, "emitted: %s" % lin_str((total[0].items(), total[1]))))
    checks = [("TagVOL_", add(want_total, ({}, -8)), "'VOL ' length = everything after its own 8-byte header up to the first block"),
              ("TagVOLH", ({}, 0), "'volh' length = 0"),
              ("TagVOLS", linear(pS), "'vols' length = padded name table (count word + names + padding)"),
              ("TagVOLI", linear(I_), "'voli' length = index table bytes")]
    for tag, want, what in checks:
        inst = "%s::WriteHeader#%s-length" % (VOL, tag)
        got = hdr_lengths.get(tag)
        if got is not None and same(linear(got), want):
            out.append(ok("R-ACCT", inst, wh.loc(wh.body), wh.qn, what, fmt_term(got)))
        else:
            out.append(bad("R-ACCT", inst, wh.loc(wh.body), wh.qn, what, "recorded length is %s" % (fmt_term(got) if got is not None else "missing")))
    # padding shapes and first offset in PrepareHeader
    # stores of PrepareHeader and of the helpers it is split into, with each helper's CreateVolumeInfo parameter read as
    # PrepareHeader's own (so the terms compare)
    pv = ("var", ph.params[0]["n"], ph.params[0]["d"])
    from .flow import substitute as _subst

    def rr(f, t):
        if f.key == ph.key:
            return t
        m = {("var", p["n"], p["d"]): pv for p in f.params if "CreateVolumeInfo" in (p.get("ct") or "")}
        return _subst(t, m) if m else t
    stores = {}
    lvals = {}
    locals_init = {}
    local_stores = []
    for f in ph_all:
        for nd in f.nodes:
            if is_store(nd) and nd.get("op") == "=":
                l = rr(f, f.term(f.kids(nd["id"])[0]))
                v = rr(f, f.term(f.kids(nd["id"])[1]))
                if l[0] == "mem":
                    stores.setdefault(l[2], []).append((nd, v))
                    lvals[id(nd)] = l
                elif l[0] == "var":
                    local_stores.append((l, v))
            elif nd["k"] == "DeclStmt":
                for d in nd.get("decls", []):
                    if "init" in d and "d" in d:
                        locals_init[("var", d["n"], d["d"])] = rr(f, f.term(d["init"]))
    PM = lambda f: ("mem", pv, f)
    def r4(t, k):
        return t == ("op", "&", ("op", "+", k[0], ("const", k[1])), ("const", -4))
    inst = VOL + "::PrepareHeader#padded-lengths"
    ps_ok = "paddedStringTableLength" in stores and r4(stores["paddedStringTableLength"][0][1], (PM("stringTableLength"), 7))
    pi_ok = "paddedIndexTableLength" in stores and r4(stores["paddedIndexTableLength"][0][1], (PM("indexTableLength"), 3))
    req = "padded name table = (S + 4 + 3) & ~3 and padded index = (I + 3) & ~3: multiples of 4 not below the unpadded sizes"
    if ps_ok and pi_ok:
        out.append(ok("R-ACCT", inst, ph.loc(stores["paddedStringTableLength"][0][0]["id"]), ph.qn, req, "(S + 7) & ~3 ; (I + 3) & ~3"))
    else:
        out.append(bad("R-ACCT", inst, ph.loc(ph.body), ph.qn, req, "name table %s, index %s" % (
            fmt_term(stores["paddedStringTableLength"][0][1]) if "paddedStringTableLength" in stores else "?",
            fmt_term(stores["paddedIndexTableLength"][0][1]) if "paddedIndexTableLength" in stores else "?")))
    from .props.c05 import alias_defs, resolve
    defs = alias_defs(ph)
    offs = stores.get("dataBlockOffset", [])
    inst = VOL + "::PrepareHeader#first-offset"
    req = "the first block offset equals the header bytes emitted (pS + pI + 32)"
    want0 = add(add(linear(PM("paddedStringTableLength")), linear(PM("paddedIndexTableLength"))), ({}, 32))
    first = [t for (nd, t) in offs if "('const', 0)" in repr(lvals[id(nd)])]
    f0 = None
    if first:
        f0 = first[0]
        # the stored value is the 64-bit local last assigned before it: take that local's initialiser
        if f0[0] == "var" and f0 in locals_init:
            f0 = locals_init[f0]
    if f0 is not None and same(linear(f0), want0):
        out.append(ok("R-ACCT", inst, ph.loc(ph.body), ph.qn, req, fmt_term(f0)))
    else:
        out.append(bad("R-ACCT", inst, ph.loc(ph.body), ph.qn, req, "first offset is %s" % (fmt_term(f0) if f0 is not None else "?")))
    # block step: next = (prev.offset + prev.size + 8 + 3) & ~3 ; emitted per block: 8 + size + ((-size) & 3)
    step = None
    # the running offset local is whichever local the dataBlockOffset stores take their value from
    running = {t for (_n, t) in offs if t[0] == "var"}
    for (l, v) in local_stores:
        if l in running:
            step = v
    if step is None:
        later = [t for (nd, t) in offs if "('const', 0)" not in repr(lvals[id(nd)])]
        step = later[0] if later else None
    if step is not None and step[0] == "var" and step in locals_init:
        step = locals_init[step]        # (a local of its own per block, initialised with the step expression)
    inst = VOL + "::PrepareHeader#block-step"
    req = "next block offset = (previous offset + previous size + 8 + 3) & ~3, matching the 8-byte header + size + ((-size) & 3) the writer emits"
    good = False
    if step is not None and step[0] == "op" and step[1] == "&" and step[3] == ("const", -4):
        co, c = linear(step[2])
        names = sorted(k[2] for k in co if k[0] == "mem")
        good = c == 11 and names == ["dataBlockOffset", "fileSize"] and all(v == 1 for v in co.values())
    # the padding write, in WriteFiles or in a helper the block body was moved into (its parameters read as the arguments)
    from .through import find_calls
    pad_ok = False
    for st_ in find_calls(F, wf, lambda nd: nd["k"] == "CXXMemberCallExpr" and nd.get("fname") == "Write" and len(nd.get("args", [])) == 2
                          and (nd.get("params") or [{}])[0].get("ptr"), depth=2):
        t = st_.owner.xterm(st_.node["args"][1])
        if st_.subst:
            from .flow import substitute as _sub
            t = _sub(t, st_.subst)
        for _ in range(4):
            t2 = wf.through_locals_at(t, st_.outer_id())
            if t2 == t:
                break
            t = t2
        if t[0] == "op" and t[1] == "&" and t[3] == ("const", 3) and t[2][0] == "un" and t[2][1] == "-" and "fileSize" in repr(t[2][2]):
            pad_ok = True
    if good and pad_ok:
        out.append(ok("R-ACCT", inst, ph.loc(ph.body), ph.qn, req, "%s ; padding (-size) & 3 ; lemma R4(o + s + 8) = o + 8 + R4(s) for o = 0 mod 4" % fmt_term(step)))
    else:
        out.append(bad("R-ACCT", inst, ph.loc(ph.body), ph.qn, req, "step %s; writer padding (-size)&3: %s" % (fmt_term(step) if step else "?", pad_ok)))
    return out


def clm_accounting(F, S):
    out = []
    pi = F.fn(CLM + "::PrepareIndex", nparams=3)
    wa = F.fn(CLM + "::WriteArchive", nparams=5)
    # offset0 = headerSize + names.size() * sizeof(IndexEntry); headerSize argument is sizeof(header)
    off0 = None
    # the running offset is the local stored (through the checked cast) into an entry's dataOffset
    roles = set()
    for nd in pi.nodes:
        if is_store(nd):
            ks = pi.kids(nd["id"])
            l = pi.term(ks[0])
            if l[0] == "mem" and l[2] == "dataOffset" and pi.term(ks[1])[0] == "var":
                roles.add(pi.term(ks[1]))
    for nd in pi.nodes:
        if nd["k"] == "DeclStmt":
            for d in nd.get("decls", []):
                if ("var", d.get("n"), d.get("d")) in roles and "init" in d:
                    off0 = pi.term(d["init"])
    hs = ("var", pi.params[0]["n"], pi.params[0]["d"])
    nm = ("var", pi.params[1]["n"], pi.params[1]["d"])
    want = ("op", "+", hs, ("op", "*", ("size", nm), ("const", 16)))
    call = [nd for nd in wa.nodes if nd["k"] in CALLS and nd.get("fname") == "PrepareIndex"]
    rec = F.record(CLM + "::ClmHeader")
    inst = CLM + "::PrepareIndex#first-offset"
    req = "first data offset = sizeof(ClmHeader) + count x sizeof(IndexEntry): the bytes the writer emits before the data"
    good = off0 == want and call and wa.term(call[0]["args"][0]) == ("const", rec["size_bits"] // 8)
    if good:
        out.append(ok("R-ACCT", inst, pi.loc(pi.body), pi.qn, req, "%s with headerSize = %d" % (fmt_term(off0), rec["size_bits"] // 8)))
    else:
        out.append(bad("R-ACCT", inst, pi.loc(pi.body), pi.qn, req, "offset starts at %s; headerSize argument %s" % (fmt_term(off0) if off0 else "?", fmt_term(wa.term(call[0]["args"][0])) if call else "?")))
    # the step: `offset += e.dataLength`, or `offset = <offset + e.dataLength>` (possibly through a const local)
    from .props.c05 import alias_defs, resolve
    adefs = alias_defs(pi)
    steps = []
    incs = []
    for nd in pi.nodes:
        if is_store(nd) and pi.term(pi.kids(nd["id"])[0]) in roles and nd["k"] in ("CompoundAssignOperator", "BinaryOperator"):
            l = pi.term(pi.kids(nd["id"])[0])
            r = resolve(pi.term(pi.kids(nd["id"])[1]), {k: v for k, v in adefs.items() if k not in roles})
            if nd.get("op") == "+=":
                steps.append(nd)
                incs.append(r)
            elif nd.get("op") == "=" and r[0] == "op" and r[1] == "+" and l in (r[2], r[3]):
                steps.append(nd)
                incs.append(r[3] if r[2] == l else r[2])
            else:
                steps.append(nd)
                incs.append(("?",))
    inst = CLM + "::PrepareIndex#step"
    good = len(steps) == 1 and incs[0][0] == "mem" and incs[0][2] == "dataLength"
    if good:
        out.append(ok("R-ACCT", inst, pi.loc(steps[0]["id"]), pi.qn, "each later offset = previous offset + previous dataLength", "offset += indexEntries[i].dataLength"))
    else:
        out.append(bad("R-ACCT", inst, pi.loc(pi.body), pi.qn, "each later offset = previous offset + previous dataLength", "step not found"))
    wc = F.fn(AR + "WaveHeader::Create", nparams=2)
    from .through import built_record, field_value
    built = built_record(F, wc)
    if built is None:
        raise AnalysisBroken("WaveHeader::Create: the way the header is built is not recognised (assignments to a local, or a braced initialiser)")
    st = {"chunkSize": field_value(built, ("riffHeader", "chunkSize")), "length": field_value(built, ("dataChunk", "length"))}
    dl = ("var", wc.params[1]["n"], wc.params[1]["d"])
    fc = F.record(AR + "FormatChunk")["size_bits"] // 8
    ch = F.record(AR + "ChunkHeader")["size_bits"] // 8
    inst = AR + "WaveHeader::Create#riff-size"
    got = st.get("chunkSize")
    if got is not None and same(linear(got), add(linear(dl), ({}, 4 + fc + ch))) and st.get("length") == dl:
        out.append(ok("R-ACCT", inst, wc.loc(wc.body), wc.qn, "RIFF size = 4 + sizeof(FormatChunk) + sizeof(ChunkHeader) + data length; data chunk length = data length", fmt_term(got)))
    else:
        out.append(bad("R-ACCT", inst, wc.loc(wc.body), wc.qn, "RIFF size = 4 + sizeof(FormatChunk) + sizeof(ChunkHeader) + data length; data chunk length = data length",
                       "chunkSize %s, data length %s" % (fmt_term(got) if got is not None else "?", fmt_term(st.get("length")) if st.get("length") else "?")))
    return out

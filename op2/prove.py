"""Entailment over guard facts, local-definition expansion, and the bit-width domain."""
from .flow import norm_cmp, mentions, substitute, subterms
from .facts import CASTS, WRAPPERS, CALLS


def definitions(facts):
    """var -> defining term, from ("==", var, term) facts. A constant definition wins; otherwise the definition
    must be unique and non-self-referential."""
    consts, others = {}, {}
    for f in facts:
        if f[0] == "==":
            for (x, y) in ((f[1], f[2]), (f[2], f[1])):
                if x[0] != "var" or mentions(y, x):
                    continue
                if y[0] == "const":
                    consts.setdefault(x, y)
                elif y[0] != "var":
                    if x in others and others[x] != y:
                        others[x] = None
                    else:
                        others.setdefault(x, y)
    # var == var where the other side has a constant definition
    for f in facts:
        if f[0] == "==" and f[1][0] == "var" and f[2][0] == "var":
            for (x, y) in ((f[1], f[2]), (f[2], f[1])):
                if y in consts and x not in consts:
                    consts[x] = consts[y]
    defs = {k: v for k, v in others.items() if v is not None and k not in consts}
    defs.update(consts)
    return defs


def expand(t, defs, depth=6):
    for _ in range(depth):
        n = substitute(t, defs)
        if n == t:
            break
        t = n
    return t


def term_cond_facts(t, truth):
    """Facts implied by a boolean *term* (as produced by Function.term) being true/false."""
    if t[0] == "op" and t[1] in ("<", ">", "<=", ">=", "==", "!="):
        from .flow import REL_NEG
        rel = t[1] if truth else REL_NEG[t[1]]
        return {norm_cmp(rel, t[2], t[3])}
    if t[0] == "un" and t[1] == "!":
        return term_cond_facts(t[2], not truth)
    if t[0] == "op" and t[1] == "&&" and truth:
        return term_cond_facts(t[2], True) | term_cond_facts(t[3], True)
    if t[0] == "op" and t[1] == "||" and not truth:
        return term_cond_facts(t[2], False) | term_cond_facts(t[3], False)
    return set()


def equal_terms(a, b, facts):
    if a == b:
        return True
    defs = definitions(facts)
    return expand(a, defs) == expand(b, defs)


def prove_le(facts, a, b, strict=False, depth=4):
    """facts |- a <= b (or a < b when strict). Terms are value terms; conservative (False = unknown)."""
    defs = definitions(facts)
    fx = set()
    for f in facts:
        if f[0] in ("<", "<=", "==", "!="):
            fx.add((f[0], expand(f[1], defs), expand(f[2], defs)))
    return _le(fx, expand(a, defs), expand(b, defs), strict, depth)


def upper_const(fx, t, depth=3):
    """Smallest constant c with t <= c derivable from the facts (None if unknown)."""
    if t[0] == "const":
        return t[1]
    best = None

    def upd(c):
        nonlocal best
        if c is not None and (best is None or c < best):
            best = c
    for f in fx:
        if f[0] == "<=" and f[1] == t and f[2][0] == "const":
            upd(f[2][1])
        elif f[0] == "<" and f[1] == t and f[2][0] == "const":
            upd(f[2][1] - 1)
        elif f[0] == "==" and depth > 0:
            if f[1] == t and f[2] != t:
                upd(upper_const(fx - {f}, f[2], depth - 1))
            elif f[2] == t and f[1] != t:
                upd(upper_const(fx - {f}, f[1], depth - 1))
    if t[0] == "op" and depth > 0:
        if t[1] == "/" and t[3][0] == "const" and t[3][1] > 0:
            u = upper_const(fx, t[2], depth - 1)
            if u is not None:
                upd(u // t[3][1])
        elif t[1] == "&":
            for x in (t[2], t[3]):
                if x[0] == "const":
                    upd(x[1])
        elif t[1] == ">>" and t[3][0] == "const":
            u = upper_const(fx, t[2], depth - 1)
            if u is not None:
                upd(u >> t[3][1])
    return best


def prove_fact(facts, f):
    """facts |- f for a normalised comparison fact f."""
    if f[0] == "<":
        return prove_le(facts, f[1], f[2], strict=True)
    if f[0] == "<=":
        return prove_le(facts, f[1], f[2])
    if f[0] == "==":
        return prove_le(facts, f[1], f[2]) and prove_le(facts, f[2], f[1])
    return f in facts


def _nonneg(t):
    """Terms that are unsigned quantities by construction (container sizes, sizeof)."""
    return t[0] in ("size", "sizeof", "max_size")


def _le(fx, a, b, strict, depth):
    if a == b:
        return not strict
    if not strict and _nonneg(b):
        u = upper_const(fx, a)
        if u is not None and u <= 0:
            return True
    if a[0] == "const" and b[0] == "const":
        return a[1] < b[1] if strict else a[1] <= b[1]
    if ("<", a, b) in fx:
        return True
    # T - c < T  (c > 0) provided c <= T, i.e. the subtraction does not wrap
    if a[0] == "op" and a[1] == "-" and a[2] == b and a[3][0] == "const" and a[3][1] > 0 and depth > 0:
        if _le(fx, ("const", a[3][1] - 1), b, True, depth - 1) or _le(fx, a[3], b, False, depth - 1):
            return True
    if not strict and (("<=", a, b) in fx or norm_cmp("==", a, b) in fx):
        return True
    if depth <= 0:
        return False
    # conditional on the left: (c ? x : y) <= b  iff  c => x<=b  and  !c => y<=b
    if a[0] == "cond":
        ft = fx | term_cond_facts(a[1], True)
        ff = fx | term_cond_facts(a[1], False)
        if _le(ft, a[2], b, strict, depth - 1) and _le(ff, a[3], b, strict, depth - 1):
            return True
    if b[0] == "cond":
        ft = fx | term_cond_facts(b[1], True)
        ff = fx | term_cond_facts(b[1], False)
        if _le(ft, a, b[2], strict, depth - 1) and _le(ff, a, b[3], strict, depth - 1):
            return True
    # std::min(x, y) <= b if x<=b or y<=b
    if a[0] == "call" and a[1] in ("std::min",) and len(a[3]) == 2:
        if _le(fx, a[3][0], b, strict, depth - 1) or _le(fx, a[3][1], b, strict, depth - 1):
            return True
    # transitivity through one intermediate
    for f in fx:
        if f[0] in ("<", "<=", "==") and f[1] == a and f[2] != b:
            st = strict and f[0] != "<"
            if _le(fx - {f}, f[2], b, st, depth - 1):
                return True
        if f[0] == "==" and f[2] == a and f[1] != b:
            if _le(fx - {f}, f[1], b, strict, depth - 1):
                return True
        if f[0] in ("<", "<=", "==") and f[2] == b and f[1] != a:
            st = strict and f[0] != "<"
            if _le(fx - {f}, a, f[1], st, depth - 1):
                return True
        if f[0] == "==" and f[1] == b and f[2] != a:
            if _le(fx - {f}, a, f[2], strict, depth - 1):
                return True
    # unsigned: 0 <= anything
    if a == ("const", 0) and not strict:
        return True
    # linear consequence: the goal's slack exceeds a fact's slack by non-negative terms (all atoms are
    # unsigned quantities: sizes, lengths, offsets)
    eg = _lin(b, a)
    if eg is not None:
        gc = eg[1] - (1 if strict else 0)          # integers: a < b  <=>  b - a - 1 >= 0
        forms = []
        for f in fx:
            if f[0] in ("<=", "<"):
                ef = _lin(f[2], f[1])
                forms.append((ef[0], ef[1] - (1 if f[0] == "<" else 0)))
            elif f[0] == "==":
                ef = _lin(f[2], f[1])
                forms.append((ef[0], ef[1]))
                forms.append(({k: -v for k, v in ef[0].items()}, -ef[1]))
        forms = [x for x in forms if x[0]]

        def covers(parts):
            dc = dict(eg[0])
            c = gc
            atoms = set()
            for (co, k0) in parts:
                for k, v in co.items():
                    dc[k] = dc.get(k, 0) - v
                    atoms.add(k)
                c -= k0
            return all(v >= 0 for v in dc.values()) and c >= 0 and bool(atoms & set(eg[0]))
        for i, x in enumerate(forms):
            if covers([x]):
                return True
        if len(forms) <= 40:
            for i, x in enumerate(forms):
                for y in forms[i + 1:]:
                    if covers([x, y]):
                        return True
    return False


def _lin(hi, lo):
    """Linear form of hi - lo as ({atom: coef}, const); None if not linear."""
    def lin(t):
        if t[0] == "const":
            return {}, t[1]
        if t[0] == "op" and t[1] in ("+", "-"):
            a = lin(t[2])
            b = lin(t[3])
            sg = 1 if t[1] == "+" else -1
            out = dict(a[0])
            for k, v in b[0].items():
                out[k] = out.get(k, 0) + sg * v
            return out, a[1] + sg * b[1]
        if t[0] == "op" and t[1] == "*" and (t[2][0] == "const" or t[3][0] == "const"):
            c, o = (t[2][1], t[3]) if t[2][0] == "const" else (t[3][1], t[2])
            a = lin(o)
            return {k: v * c for k, v in a[0].items()}, a[1] * c
        return {t: 1}, 0
    a, b = lin(hi), lin(lo)
    out = dict(a[0])
    for k, v in b[0].items():
        out[k] = out.get(k, 0) - v
    return {k: v for k, v in out.items() if v != 0}, a[1] - b[1]


# ------------------------------------------------------------------------------------------
def bits_of(v):
    v = int(v)
    if v < 0:
        return 64
    return max(v.bit_length(), 1)


class Width:
    """Bit-width abstract domain over AST nodes. needed(n) = upper bound on the number of bits of
    the mathematical value of n provided no sub-expression wrapped; wraps() lists the arithmetic
    nodes whose mathematical value may exceed their type."""

    def __init__(self, fn, field_bits=None):
        self.fn = fn
        self.field_bits = field_bits or {}     # member name -> value bits established by a separate obligation

    def needed(self, i):
        fn = self.fn
        nd = fn.n(i)
        k = nd["k"]
        if "cv" in nd:
            return bits_of(nd["cv"])
        if k in ("IntegerLiteral", "CharacterLiteral", "CXXBoolLiteralExpr"):
            return bits_of(nd["v"])
        if k == "MemberExpr" and nd.get("m") in self.field_bits:
            return self.field_bits[nd["m"]]
        if k == "DeclRefExpr" and nd.get("d") is not None:
            # a local that only names a value (never reassigned, its inputs unchanged while it lives) is as wide as that value
            vv = ("var", nd.get("n"), nd.get("d"))
            dn = fn.local_init_node_at(vv, i) if fn.local_value_at(vv, i) is not None else None
            if dn is not None:
                inner = self.needed(dn)
                iw = nd.get("iw")
                return min(inner, iw) if iw is not None else inner
        if k in WRAPPERS:
            ks = fn.kids(i)
            return self.needed(ks[0]) if ks else nd.get("iw", 64)
        if k in CASTS:
            ks = fn.kids(i)
            inner = self.needed(ks[0]) if ks else 64
            iw = nd.get("iw")
            if iw is None:
                return inner
            src = fn.n(ks[0]) if ks else {}
            if src.get("is") and not nd.get("is") and "cv" not in src and not \
                    (fn.n(fn.strip(ks[0])).get("k") == "MemberExpr" and fn.n(fn.strip(ks[0])).get("m") in self.field_bits):
                # signed -> unsigned conversion of a possibly negative value fills the destination
                if inner >= src.get("iw", 64):
                    return iw
            return min(inner, iw)
        if k in ("BinaryOperator", "CompoundAssignOperator"):
            op = nd["op"].rstrip("=") if nd["op"] not in ("==", "<=", ">=", "!=") and nd["op"] != "=" else nd["op"]
            ks = fn.kids(i)
            if nd["op"] == "=":
                return self.needed(ks[1])
            a, b = self.needed(ks[0]), self.needed(ks[1])
            if op == "+":
                return max(a, b) + 1
            if op == "*":
                return a + b
            if op == "-":
                return a
            if op == "/":
                return a
            if op == "%":
                return b
            if op == "&":
                return min(a, b)
            if op in ("|", "^"):
                return max(a, b)
            if op == "<<":
                rb = fn.n(fn.strip(ks[1]))
                if "cv" in rb:
                    return a + int(rb["cv"])
                return a + (1 << min(b, 7)) - 1
            if op == ">>":
                rb = fn.n(fn.strip(ks[1]))
                if "cv" in rb:
                    return max(a - int(rb["cv"]), 1)
                return a
            if op in ("<", ">", "<=", ">=", "==", "!=", "&&", "||"):
                return 1
            if op == ",":
                return b
        if k == "ConditionalOperator":
            ks = fn.kids(i)
            return max(self.needed(ks[1]), self.needed(ks[2]))
        if k == "UnaryOperator":
            ks = fn.kids(i)
            if nd["op"] in ("+",):
                return self.needed(ks[0])
            if nd["op"] == "!":
                return 1
        iw = nd.get("iw")
        return iw if iw is not None else 64

    def arith_nodes(self, i):
        """Arithmetic operator nodes (+ - * <<) in the subtree of i that are evaluated at run time."""
        fn = self.fn
        out = []
        for x in fn.subtree(i):
            nd = fn.n(x)
            if nd["k"] in ("BinaryOperator", "CompoundAssignOperator") and "cv" not in nd:
                op = nd["op"]
                base = op[:-1] if op.endswith("=") and op not in ("==", "<=", ">=", "!=") and op != "=" else op
                if base in ("+", "-", "*", "<<") and nd.get("iw") is not None:
                    out.append((x, base))
        return out

    def may_wrap(self, i, base):
        nd = self.fn.n(i)
        iw = nd.get("iw") or 64
        if nd["k"] == "CompoundAssignOperator":
            iw = nd.get("cres_iw") or iw
        if base == "-":
            return not nd.get("is")   # unsigned subtraction wraps unless b <= a is known
        need = self.needed(i) if nd["k"] != "CompoundAssignOperator" else self._compound_needed(i, base)
        if nd.get("is") or (nd["k"] == "CompoundAssignOperator" and nd.get("cres_is")):
            return need > iw - 1
        return need > iw

    def _compound_needed(self, i, base):
        ks = self.fn.kids(i)
        a, b = self.needed(ks[0]), self.needed(ks[1])
        if base == "+":
            return max(a, b) + 1
        if base == "*":
            return a + b
        if base == "<<":
            return a + b
        return a

"""R-INIT: field-sensitive definite initialisation of records that are serialised or returned by parsers."""
from .extract import AnalysisBroken
from .facts import CALLS, CTORS, fmt_term
from .flow import CFG
from .report import ok, bad


def is_repo_record(F, q):
    return q in F.records and not q.startswith("std::")


def leaves(F, rec, prefix=()):
    """Leaf field paths of a record (tuples of names); nested repo records are expanded, everything else is a leaf."""
    out = []
    r = F.records.get(rec)
    if r is None:
        return [prefix]
    for f in r["fields"]:
        sub = f.get("record")
        if sub and is_repo_record(F, sub):
            out += leaves(F, sub, prefix + (f["name"],))
        elif f.get("array_len") and f.get("elem", {}).get("record") and is_repo_record(F, f["elem"]["record"]):
            out.append(prefix + (f["name"],))
        else:
            out.append(prefix + (f["name"],))
    return out or [prefix]


def self_defined_type(F, f):
    """Field types that are always initialised by their own default constructor (std containers, strings, smart pointers)."""
    ct = f.get("ct") or ""
    return ct.startswith(("std::vector", "std::basic_string", "std::unique_ptr", "std::shared_ptr", "std::basic_ifstream", "std::basic_ofstream"))


def ctor_defined(F, rec, _seen=None):
    """Leaf paths that EVERY constructor of `rec` (including the implicit default one) leaves defined."""
    _seen = _seen or set()
    if rec in _seen:
        return set()
    _seen = _seen | {rec}
    r = F.records.get(rec)
    if r is None:
        return set()
    allv = set(leaves(F, rec))

    def default_member(f):
        out = set()
        if f.get("has_init") or self_defined_type(F, f):
            sub = f.get("record")
            if sub and is_repo_record(F, sub):
                out |= {(f["name"],) + p for p in leaves(F, sub)}
            else:
                out.add((f["name"],))
        else:
            sub = f.get("record")
            if sub and is_repo_record(F, sub):
                out |= {(f["name"],) + p for p in ctor_defined(F, sub, _seen)}
        return out
    implicit = set()
    for f in r["fields"]:
        implicit |= default_member(f)
    ctors = [fn for fn in F.functions.values() if fn.cls == rec and fn.d.get("ctor") and not fn.d.get("copy_ctor")]
    user = [c for c in ctors if not c.d.get("implicit")]
    if not user:
        return implicit
    common = None
    for c in user:
        d = set(implicit)
        for ini in c.d.get("inits", []):
            fname = ini.get("field")
            if not fname or not ini.get("written", True) and False:
                continue
            fl = [f for f in r["fields"] if f["name"] == fname]
            if not fl:
                continue
            f = fl[0]
            nd0 = c.n(c.strip(ini["init"], casts=False)) if ini.get("init") is not None else {}
            sub = f.get("record")
            if sub and is_repo_record(F, sub):
                if nd0.get("k") in CTORS and nd0.get("default_ctor") and not nd0.get("zero_init") and not ini.get("written"):
                    d |= {(fname,) + p for p in ctor_defined(F, sub, _seen)}
                elif nd0.get("k") in CTORS and nd0.get("default_ctor") and not nd0.get("zero_init") and not nd0.get("list_init"):
                    d |= {(fname,) + p for p in ctor_defined(F, sub, _seen)}
                else:
                    d |= {(fname,) + p for p in leaves(F, sub)}
            elif ini.get("written") or f.get("has_init") or self_defined_type(F, f):
                d.add((fname,))
        # stores in the body
        for nd in c.nodes:
            if nd["k"] in ("BinaryOperator",) and nd.get("op") == "=":
                t = c.term(c.kids(nd["id"])[0])
                p = member_path(t, ("this",))
                if p:
                    d |= {x for x in allv if x[:len(p)] == p}
        common = d if common is None else (common & d)
    return common or set()


def ctor_cover(F, c):
    """Leaf paths defined by one particular constructor body `c`."""
    rec = c.cls
    r = F.records.get(rec)
    if r is None:
        return set()
    allv = set(leaves(F, rec))
    d = set()
    for f in r["fields"]:
        if f.get("has_init") or self_defined_type(F, f):
            sub = f.get("record")
            d |= ({(f["name"],) + p for p in leaves(F, sub)} if sub and is_repo_record(F, sub) else {(f["name"],)})
    for ini in c.d.get("inits", []):
        fname = ini.get("field")
        if not fname:
            continue
        fl = [f for f in r["fields"] if f["name"] == fname]
        if not fl:
            continue
        f = fl[0]
        nd0 = c.n(c.strip(ini["init"], casts=False)) if ini.get("init") is not None else {}
        sub = f.get("record")
        if sub and is_repo_record(F, sub):
            if nd0.get("k") in CTORS and nd0.get("default_ctor") and not nd0.get("zero_init") and not nd0.get("list_init"):
                d |= {(fname,) + p for p in ctor_defined(F, sub)}
            else:
                d |= {(fname,) + p for p in leaves(F, sub)}
        elif ini.get("written") or f.get("has_init") or self_defined_type(F, f):
            d.add((fname,))
    for nd in c.nodes:
        if nd["k"] == "BinaryOperator" and nd.get("op") == "=":
            p = member_path(c.term(c.kids(nd["id"])[0]), ("this",))
            if p:
                d |= {x for x in allv if x[:len(p)] == p}
    return d


def member_path(t, root):
    """Path of field names from `root` to lvalue term t, or None."""
    path = []
    while True:
        if t == root:
            return tuple(reversed(path))
        if t[0] == "mem":
            path.append(t[2])
            t = t[1]
            continue
        if t[0] == "un" and t[1] == "*" and t[2] == root:
            return tuple(reversed(path))
        return None


def local_defined(F, S, fn, var, rec, use_nid):
    """Leaf paths of local record variable `var` definitely assigned where node use_nid executes."""
    g = CFG(fn)
    eb = g.elem_block()
    dom = g.dominators()
    allv = set(leaves(F, rec))
    if use_nid not in eb:
        # use inside a larger expression: find an enclosing element
        pm = fn.parent_map()
        x = use_nid
        while x not in eb and x in pm:
            x = pm[x]
        use_nid = x
    ub, ui = eb.get(use_nid, (None, None))
    gens = {}               # defining node -> leaf paths it assigns
    always = set()          # what the declaration itself defines

    def cover(p):
        return {x for x in allv if x[:len(p)] == p}

    def gen(nid, paths):
        if nid in eb:
            gens.setdefault(nid, set()).update(paths)
    for nd in fn.nodes:
        k = nd["k"]
        if k == "DeclStmt":
            for d in nd.get("decls", []):
                if ("var", d.get("n"), d.get("d")) != var:
                    continue
                if "init" not in d:
                    continue
                ini = fn.n(fn.strip(d["init"], casts=False))
                if ini["k"] in CTORS and ini.get("default_ctor") and not ini.get("zero_init") and not ini.get("list_init"):
                    always |= ctor_defined(F, rec)
                elif ini["k"] in CTORS and not ini.get("copy_or_move") and ini.get("callee_in_repo") and not ini.get("ctor_implicit"):
                    cal = [x for x in F.callees(ini) if x.d.get("ctor")]
                    always |= ctor_cover(F, cal[0]) if cal else ctor_defined(F, rec)
                else:
                    always |= allv          # aggregate / value initialisation / copy of another object / call result
        elif k in ("BinaryOperator",) and nd.get("op") == "=":
            p = member_path(fn.term(fn.kids(nd["id"])[0]), var)
            if p is not None:
                gen(nd["id"], cover(p))
        elif k == "CXXOperatorCallExpr" and nd.get("op") == "=" and nd.get("args"):
            p = member_path(fn.term(nd["args"][0]), var)
            if p is not None:
                gen(nd["id"], cover(p))
        elif k == "CXXMemberCallExpr" and nd.get("fname") in ("Read", "Peek") and nd.get("args"):
            p = member_path(fn.term(nd["args"][0]), var)
            if p is not None:
                gen(nd["id"], cover(p))
        elif k in CALLS:
            # passed by non-const reference to a repo function that writes it
            for cal in F.callees(nd):
                w = {it[1] for it in S.writes(cal) if it[0] in ("param",)}
                args = nd.get("args", [])
                for i in w:
                    if i < len(args):
                        p = member_path(fn.term(args[i]), var)
                        if p is not None:
                            gen(nd["id"], cover(p))
    if ub is None:
        return set(always)
    # forward must-analysis: a leaf is definitely assigned at a point if it is on every path reaching it (an assignment
    # on each arm of a branch counts, an assignment on one arm only does not)
    OUT = {}
    IN = {g.entry: set()}

    def flow(b, upto=None):
        cur = set(IN[b])
        for i, e in enumerate(g.blocks[b]["elems"]):
            if upto is not None and i >= upto:
                break
            if isinstance(e, int) and e in gens:
                cur |= gens[e]
        return cur
    changed = True
    rounds = 0
    while changed and rounds < 50:
        changed = False
        rounds += 1
        for b in g.order:
            if b != g.entry:
                ps = [OUT[p] for p in g.pred[b] if p in OUT and p not in g.throws]
                if not ps:
                    continue
                new_in = set.intersection(*[set(x) for x in ps])
                if IN.get(b) != new_in:
                    IN[b] = new_in
                    changed = True
            if b in IN:
                o = flow(b)
                if OUT.get(b) != o:
                    OUT[b] = o
                    changed = True
    defined = set(always)
    if ub in IN:
        defined |= flow(ub, ui)
    return defined


def returned_record_complete(F, S, fn, rec):
    """fn returns a `rec` every field of which was given a value: a braced initialiser naming all of them, or a local record
    every leaf of which is definitely assigned where it is returned. Returns (verdict, detail); verdict None = shape unknown."""
    rets = [nd for nd in fn.nodes if nd["k"] == "ReturnStmt" and "value" in nd]
    if not rets:
        return None, "no return"
    nfields = len(F.record(rec)["fields"])
    details = []
    for r in rets:
        ninit = None
        for x in fn.subtree(r["value"]):
            if fn.n(x)["k"] == "InitListExpr" and fn.n(x).get("rec") == rec:
                ninit = len([k for k in fn.kids(x) if fn.n(k)["k"] != "ImplicitValueInitExpr"])
        if ninit is not None:
            if ninit != nfields:
                return False, "%s explicit initialisers for %d fields" % (ninit, nfields)
            details.append("%d initialisers" % ninit)
            continue
        t = fn.term(r["value"])
        while t[0] == "ctor" and len(t[2]) == 1:
            t = t[2][0]
        if t[0] != "var":
            return None, "returns %r" % (t,)
        allv = set(leaves(F, rec))
        missing = allv - local_defined(F, S, fn, t, rec, r["id"])
        if missing:
            return False, "not definitely assigned: %s" % fmt_paths(missing)
        details.append("%d leaf fields assigned before the return" % len(allv))
    return True, "; ".join(details)


def fmt_paths(ps):
    return ", ".join(".".join(p) for p in sorted(ps))


def r_init_local(F, S, fn, var, rec, use_nid, label, what):
    allv = set(leaves(F, rec))
    d = local_defined(F, S, fn, var, rec, use_nid)
    missing = allv - d
    inst = "%s#init:%s" % (label, var[1])
    req = "every field of %s `%s` is assigned on every path before %s" % (rec.split("::")[-1], var[1], what)
    if not missing:
        return ok("R-INIT", inst, fn.loc(use_nid), fn.qn, req, "%d leaf fields definitely assigned" % len(allv))
    return bad("R-INIT", inst, fn.loc(use_nid), fn.qn, req, "not definitely assigned: %s" % fmt_paths(missing))

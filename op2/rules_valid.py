"""Validators by what they refuse, not by their name.

A rule that needs "X was validated" accepts the call of the validator (event `called V`), and - when V no longer exists
because it was inlined into its caller - the refusals V performed on the reviewed tree, recorded in spec/refusals.json in an
abstract form: variables of record type are named by their type, scalar parameters are wildcards. A validator that still
exists but is not called, or an inlined one whose refusals are not all passed, is not validated."""
import json
import os

from .extract import AnalysisBroken
from .flow import Engine

_SPEC = None


def spec():
    global _SPEC
    if _SPEC is None:
        p = os.path.join(os.path.dirname(os.path.dirname(os.path.abspath(__file__))), "spec", "refusals.json")
        with open(p) as fh:
            _SPEC = json.load(fh)["validators"]
    return _SPEC


def var_types(fn):
    vt = {}
    for p in fn.params:
        if p.get("n"):
            vt[("var", p["n"], p["d"])] = p
    for nd in fn.nodes:
        if nd["k"] == "DeclStmt":
            for d in nd.get("decls", []):
                if "d" in d:
                    vt[("var", d["n"], d["d"])] = d
        elif nd["k"] == "CXXForRangeStmt" and "loopvar" in nd:
            for d in fn.n(nd["loopvar"]).get("decls", []):
                if "d" in d:
                    vt[("var", d["n"], d["d"])] = d
    return vt


def _rec_of(d):
    r = d.get("rec") or d.get("record")
    if r:
        return r
    ct = (d.get("ct") or "").replace("const ", "").replace("&", "").replace("*", "").strip()
    return ct if "::" in ct and not ct.startswith("std::") else None


_GLOBAL_VT = {}


def global_var_types(F):
    """(name, decl id) -> declaration, over every function (events carry the variables of the callee they were passed in);
    ambiguous keys are dropped."""
    key = id(F)
    if key not in _GLOBAL_VT:
        m = {}
        for fn in F.functions.values():
            for v, d in var_types(fn).items():
                r = _rec_of(d)
                if v in m and m[v] != r:
                    m[v] = "?"
                else:
                    m[v] = r
        _GLOBAL_VT[key] = m
    return _GLOBAL_VT[key]


def abstract(fn, t, vt=None, gvt=None):
    """Value term with this / record-typed variables named by their type and other variables as the wildcard ("S",)."""
    vt = vt if vt is not None else var_types(fn)
    gvt = gvt or {}

    def rec(x):
        if not isinstance(x, tuple) or not x:
            return x
        if x == ("this",):
            return ["V", fn.cls or "?"]
        if x[0] == "var":
            d = vt.get(x)
            r = _rec_of(d) if d else gvt.get(x)
            return ["V", r] if r and r != "?" else ["S"]
        return [rec(y) if isinstance(y, tuple) else y for y in x]
    return rec(t)


def amatch(need, have):
    """need (with ["S"] wildcards standing for any scalar expression) against a concrete abstract term."""
    if need == ["S"]:
        return True
    if isinstance(need, list) and isinstance(have, list):
        if need and need[0] in ("==", "!=") and len(need) == 3 and len(have) == 3 and have[0] == need[0]:
            return (amatch(need[1], have[1]) and amatch(need[2], have[2])) or (amatch(need[1], have[2]) and amatch(need[2], have[1]))
        return len(need) == len(have) and all(amatch(a, b) for a, b in zip(need, have))
    return need == have


def refusals_of(F, S, v):
    """Abstract refusal facts a validator function performs on every returning path."""
    eng = Engine(F, S)
    ex = eng.analyze(v, frozenset()) or frozenset()
    vt = var_types(v)
    out = []
    for f in ex:
        g = None
        if f[0] == "ev" and f[1] == "passed":
            g = ("one", f[2])
        elif f[0] == "ev" and f[1] == "each" and f[2][0] == "ev" and f[2][1] == "passed":
            g = ("each", f[2][2])
        if g is not None:
            a = [g[0], abstract(v, g[1], vt)]
            if a not in out:
                out.append(a)
    return sorted(out, key=repr)


def validated(F, fn, facts, qn):
    """`facts` (site or exit facts of fn) show that validator qn ran, or - if it was inlined away - that all its recorded
    refusals were passed."""
    if ("ev", "called", qn) in facts or ("ev", "each", ("ev", "called", qn)) in facts:
        return True
    if F.by_qn.get(qn):
        return False
    rec = spec().get(qn)
    if rec is None:
        raise AnalysisBroken("validator %s no longer exists and its refusals were not recorded" % qn)
    vt = var_types(fn)
    gvt = global_var_types(F)
    have = []
    for f in facts:
        if f[0] == "ev" and f[1] == "passed":
            have.append(["one", abstract(fn, f[2], vt, gvt)])
        elif f[0] == "ev" and f[1] == "each" and f[2][0] == "ev" and f[2][1] == "passed":
            have.append(["each", abstract(fn, f[2][2], vt, gvt)])
    for need in rec:
        if not any(h[0] == need[0] and amatch(need[1], h[1]) for h in have):
            return False
    return bool(rec)


def verifier_arguments(F, name_pred=None):
    """A range verifier judges the value it receives: if the argument is implicitly narrowed (or its sign reinterpreted) at
    the call, the verifier sees a different number than the caller goes on to use. Every integer argument of every call of a
    Verify*/Validate*/Check* function must reach it unchanged."""
    from .report import ok, bad
    from .facts import CALLS, fmt_term
    out = []
    n = 0
    pred = name_pred or (lambda nm: nm.startswith(("Verify", "Validate", "Check")))
    for fn in sorted(F.functions.values(), key=lambda f: f.key):
        if not fn.cfg or fn.d.get("implicit") or not fn.file.startswith(F.repo):
            continue
        for nd in fn.nodes:
            if nd["k"] not in CALLS or not pred(nd.get("fname") or "") or not nd.get("callee_in_repo", True):
                continue
            for a, prm in zip(nd.get("args", []), nd.get("params", [])):
                if not prm.get("iw"):
                    continue
                an = fn.n(a)
                inner = a
                while fn.n(inner)["k"] == "ImplicitCastExpr" and fn.kids(inner):
                    inner = fn.kids(inner)[0]
                src = fn.n(inner)
                if not src.get("iw") or "cv" in src:
                    continue
                n += 1
                inst = "%s#arg-to:%s(%s)" % (fn.qn, nd.get("fname"), fmt_term(fn.term(a)))
                req = "the value handed to %s is the value the caller uses: no implicit narrowing or sign change at the call" % nd.get("fname")
                narrowed = prm["iw"] < src["iw"] or (bool(prm.get("is")) != bool(src.get("is")) and prm["iw"] <= src["iw"])
                if narrowed and an["k"] == "ImplicitCastExpr":
                    out.append(bad("R-NARROW", inst, fn.loc(nd["id"]), fn.qn, req,
                                   "%s (%s) is converted to %s at the call: the verifier tests the converted value" % (fmt_term(fn.term(a)), src.get("ct"), prm.get("ct"))))
                else:
                    out.append(ok("R-NARROW", inst, fn.loc(nd["id"]), fn.qn, req, "%s -> %s" % (src.get("ct"), prm.get("ct")), nontrivial=False))
    return out, n

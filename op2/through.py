"""Looking through extracted helpers: a call the rule needs may sit in a small helper the anchored function calls
(an "extract method" refactoring). `find_calls` returns call sites found in the function itself or, failing that, in the
repository callees it calls (same object or static, up to `depth` levels), each with the substitution that expresses the
helper's parameters in the caller's vocabulary."""
from .facts import CALLS
from .flow import substitute


class Site:
    def __init__(self, owner, node, subst, via):
        self.owner = owner      # function that syntactically contains the call
        self.node = node
        self.subst = subst      # owner's parameter variables -> terms of the outer function
        self.via = via          # chain of helper call nodes (outer first)

    def term(self, nid):
        return substitute(self.owner.term(nid), self.subst) if self.subst else self.owner.term(nid)

    def args(self):
        return [self.term(a) for a in self.node.get("args", [])]

    def obj(self):
        return self.term(self.node["obj"]) if "obj" in self.node else None

    def loc(self):
        return self.owner.loc(self.node["id"])

    def outer_id(self):
        """Node id in the outer function at which the call happens (the helper call, or the call itself)."""
        return self.via[0]["id"] if self.via else self.node["id"]


def find_calls(F, fn, pred, depth=2, _subst=None, _via=(), _seen=None):
    """Sites of calls satisfying pred(node) in fn, or in helpers fn calls on the same object / statically."""
    _seen = _seen or {fn.key}
    here = [Site(fn, nd, _subst or {}, list(_via)) for nd in fn.nodes if nd["k"] in CALLS and pred(nd)]
    if here or depth == 0:
        return here
    out = []
    for nd in fn.nodes:
        if nd["k"] not in CALLS:
            continue
        if nd["k"] == "CXXMemberCallExpr" and "obj" in nd and fn.term(nd["obj"]) != ("this",):
            continue
        for cal in F.callees(nd):
            if not cal.cfg or cal.key in _seen or cal.d.get("ctor"):
                continue
            if not (cal.file.startswith(F.repo) or True):
                continue
            args = nd.get("args", [])
            sub = {}
            for i, p in enumerate(cal.params):
                if i < len(args):
                    t = fn.term(args[i])
                    sub[("var", p["n"], p["d"])] = substitute(t, _subst) if _subst else t
            out += find_calls(F, cal, pred, depth - 1, sub, tuple(_via) + (nd,), _seen | {cal.key})
    return out


def inline_single_return(F, t, depth=2):
    """If value term t is a call of a repository function whose body is a single `return expr;`, the returned expression
    with the parameters (and the receiver) substituted; otherwise t."""
    while depth > 0 and isinstance(t, tuple) and t and t[0] == "call":
        cands = [c for c in F.by_qn.get(t[1], []) if c.body is not None and len(c.params) == len(t[3]) and not c.d.get("virtual")]
        if len(cands) != 1:
            return t
        c = cands[0]
        ks = c.kids(c.body)
        if len(ks) != 1 or c.n(ks[0])["k"] != "ReturnStmt" or "value" not in c.n(ks[0]):
            return t
        sub = {("var", p["n"], p["d"]): a for p, a in zip(c.params, t[3])}
        r = substitute(c.term(c.n(ks[0])["value"]), sub)
        if t[2] is not None and t[2] != ("this",):
            r = substitute(r, {("this",): t[2]})
        t = r
        depth -= 1
    return t


def continue_conditions(fn, loop):
    """Terms that must all hold for the loop to go round again: the conjuncts of its condition (a constant-true condition
    contributes none) and the negation of every `if (c) break;` guard in its body. An exit the helper cannot express
    contributes ("?",). `return` and `throw` exits are not listed (they leave the function, not just the loop)."""
    from .facts import NEGATED_CMP
    from .rules_sib import enclosing_if_cond

    def conj(t):
        if t[0] == "op" and t[1] == "&&":
            return conj(t[2]) + conj(t[3])
        return [t]
    out = []
    if "cond" in loop:
        for t in conj(fn.term(loop["cond"])):
            if t[0] == "const" and t[1] != 0:
                continue
            out.append(t)
    body = set(fn.subtree(loop["body"]))
    inner = set()
    for x in body:
        if fn.n(x)["k"] in ("ForStmt", "WhileStmt", "DoStmt", "CXXForRangeStmt", "SwitchStmt"):
            inner |= set(fn.subtree(x)) - {x}
    for x in sorted(body - inner):
        if fn.n(x)["k"] != "BreakStmt":
            continue
        cid, in_then = enclosing_if_cond(fn, x)
        t = fn.term(cid) if cid is not None else None
        if t is not None and in_then and t[0] == "op" and t[1] in NEGATED_CMP:
            out.append(("op", NEGATED_CMP[t[1]], t[2], t[3]))
        else:
            out.append(("?",))
    return out


def closure(F, fn, depth=2, same_class_only=True):
    """fn and the repository helpers it calls on the same object or statically (transitively, up to `depth`), in call
    order: the code a "split function" / "extract method" refactoring may have moved statements into."""
    out = [fn]
    seen = {fn.key}

    def walk(f, d):
        if d == 0:
            return
        for nd in sorted([n for n in f.nodes if n["k"] in CALLS], key=lambda n: n["id"]):
            if nd["k"] == "CXXMemberCallExpr" and "obj" in nd and f.term(nd["obj"]) != ("this",):
                continue
            for cal in F.callees(nd):
                if not cal.cfg or cal.key in seen or cal.d.get("ctor") or cal.d.get("virtual"):
                    continue
                if same_class_only and fn.cls and cal.cls and cal.cls != fn.cls:
                    continue
                if not cal.cls and cal.file != fn.file:
                    continue            # free helpers: only file-local ones
                seen.add(cal.key)
                out.append(cal)
                walk(cal, d - 1)
    walk(fn, depth)
    return out


def _field_path(t, root):
    """Field names from variable `root` down to the designated sub-object, or None if t is not below root."""
    path = []
    while t != root:
        if t[0] == "mem":
            path.append(t[2])
            t = t[1]
        else:
            return None
    return tuple(reversed(path))


def built_record(F, fn, var=None, _depth=0):
    """The record a function builds and returns (or, with `var`, the local record `var` as it stands at the end of fn):
    {field path: value term}. A value ("whole", X) at a path means the whole sub-object there is a copy of X (entries at
    longer paths override parts of it). Recognised: a local record filled by assignments and returned; a braced
    initialiser (nested) returned directly; locals used inside a braced initialiser that were themselves built that way.
    Returns None when the shape is not one of these."""
    def set_path(built, path, val):
        for k in [k for k in built if k[:len(path)] == path]:
            del built[k]
        built[path] = val

    def from_init(nid, path, built):
        i = fn.strip(nid)
        nd = fn.n(i)
        if nd["k"] == "InitListExpr" and nd.get("rec") and nd["rec"] in F.records:
            fields = F.records[nd["rec"]]["fields"]
            ks = fn.kids(i)
            if len(ks) > len(fields):
                return False
            for f, c in zip(fields, ks):
                if not from_init(c, path + (f["name"],), built):
                    return False
            return True
        t = fn.term(i)
        if t[0] == "var" and _depth < 3 and is_local_record(t):
            sub = built_record(F, fn, var=t, _depth=_depth + 1)
            if sub is None:
                return False
            for k in [k for k in built if k[:len(path)] == path]:
                del built[k]
            for k, v in sub.items():
                built[path + k] = v
            return True
        set_path(built, path, fn.xterm(i) if t[0] != "var" or not is_record_value(i) else ("whole", t))
        return True

    def decl_of(v):
        for nd in fn.nodes:
            if nd["k"] == "DeclStmt":
                for d in nd.get("decls", []):
                    if ("var", d.get("n"), d.get("d")) == v:
                        return nd, d
        return None, None

    def is_local_record(v):
        nd, d = decl_of(v)
        return d is not None and bool(d.get("rec")) and d["rec"] in F.records and not d.get("is_ref") and F.records[d["rec"]]["qn"].startswith("OP2Utility")

    def is_record_value(i):
        nd = fn.n(fn.strip(i))
        return bool(nd.get("rec")) or (nd.get("ct") or "") in F.records

    if var is None:
        rets = [x for x in fn.nodes if x["k"] == "ReturnStmt" and "value" in x]
        if len(rets) != 1:
            return None
        i = fn.strip(rets[0]["value"])
        if fn.n(i)["k"] == "InitListExpr":
            built = {}
            return built if from_init(i, (), built) else None
        t = fn.term(i)
        if t[0] != "var" or not is_local_record(t):
            return None
        var = t
    nd, d = decl_of(var)
    if d is None:
        return None
    built = {}
    if "init" in d:
        i0 = fn.strip(d["init"])
        n0 = fn.n(i0)
        if n0["k"] == "InitListExpr":
            if not from_init(i0, (), built):
                return None
        elif n0["k"] in ("CXXConstructExpr", "CXXTemporaryObjectExpr") and not n0.get("args"):
            pass            # default construction: nothing is known yet
        else:
            t0 = fn.term(i0)
            if t0[0] in ("var", "mem", "idx"):
                built[()] = ("whole", t0)
            elif t0[0] == "ctor" and not t0[2]:
                pass
            else:
                return None
    from .rules_stream import is_store
    for st in fn.nodes:
        if st["id"] <= nd["id"]:
            continue
        if is_store(st) and st.get("op") == "=":
            ks = fn.kids(st["id"])
        elif st["k"] == "CXXOperatorCallExpr" and st.get("op") == "=" and len(st.get("args", [])) == 2:
            ks = st["args"]
        else:
            continue
        path = _field_path(fn.term(ks[0]), var)
        if path is None or not path:
            continue
        rt = fn.term(ks[1])
        if is_record_value(ks[1]) and rt[0] in ("var", "mem", "idx"):
            set_path(built, path, ("whole", rt))
        else:
            set_path(built, path, fn.xterm(ks[1]))
    return built


def field_value(built, path):
    """The value built_record recorded for `path` (a member of a wholesale-copied sub-object reads as that member of the source)."""
    if built is None:
        return None
    if path in built:
        return built[path]
    for n in range(len(path) - 1, -1, -1):
        v = built.get(path[:n])
        if v is not None and v[0] == "whole":
            t = v[1]
            for f in path[n:]:
                t = ("mem", t, f)
            return t
    return None


def with_lambdas(F, fn):
    """fn and the bodies of the lambdas written inside it (a loop body moved into an algorithm's lambda is still fn's code)."""
    out = [fn]
    for nd in fn.nodes:
        if nd["k"] == "LambdaExpr" and nd.get("lambda_fn") in F.functions:
            lf = F.functions[nd["lambda_fn"]]
            if lf not in out:
                out.append(lf)
    return out


def private_closure(F, fn, depth=2):
    """Keys of fn and of the non-public helpers it calls (transitively) that nothing outside this set calls: the code that
    runs only as part of fn, however fn has been split up."""
    from .invariants import callers_map
    cm = callers_map(F)
    access = {}
    for r in F.records.values():
        for m in r["methods"]:
            access[m["key"]] = m["access"]
    keys = {fn.key}
    changed = True
    cands = closure(F, fn, depth=depth)[1:]
    while changed:
        changed = False
        for h in cands:
            if h.key in keys:
                continue
            if h.cls and access.get(h.key, h.d.get("access")) == "public":
                continue
            callers = cm.get(h.key, set())
            if callers and all(c in keys for c in callers):
                keys.add(h.key)
                changed = True
    return keys


def searches(F, fn):
    """Existential searches over a range in fn, whatever their form. Each: dict(kind, range, elem, pred, node) where
    pred is the predicate's value term over the element variable `elem`:
      kind "algo:any_of" / "algo:find_if" / ...  - std algorithm over (R.begin(), R.end(), lambda)
      kind "loop"                                - range-for over R whose body is `if (pred) <leave>`"""
    out = []
    for nd in fn.nodes:
        if nd["k"] in CALLS and (nd.get("fq") or "") in ("std::any_of", "std::none_of", "std::all_of", "std::find_if", "std::find_if_not", "std::count_if") \
                and len(nd.get("args", [])) == 3:
            a = [fn.term(x) for x in nd["args"]]
            if a[0][0] == "call" and a[0][1].endswith("begin") and a[1][0] == "call" and a[1][1].endswith("end") and a[0][2] == a[1][2] and a[2][0] == "lambda":
                lam = F.functions.get(a[2][1])
                if lam is not None and len(lam.params) == 1:
                    rets = [x for x in lam.nodes if x["k"] == "ReturnStmt" and "value" in x]
                    if len(rets) == 1:
                        ld = {}
                        for x in lam.nodes:
                            if x["k"] == "DeclStmt":
                                for d2 in x.get("decls", []):
                                    if "init" in d2 and "d" in d2:
                                        ld[("var", d2["n"], d2["d"])] = substitute(lam.term(d2["init"]), ld)
                        out.append({"kind": "algo:" + nd["fq"].split("::")[-1], "range": a[0][2], "elem": ("var", lam.params[0]["n"], lam.params[0]["d"]),
                                    "pred": substitute(lam.term(rets[0]["value"]), ld), "node": nd, "pred_fn": lam})
        elif nd["k"] == "CXXForRangeStmt":
            d = fn.n(nd["loopvar"])["decls"][0]
            body = fn.n(nd["body"])
            ks = fn.kids(nd["body"]) if body["k"] == "CompoundStmt" else [nd["body"]]
            ifs = [fn.n(x) for x in ks if fn.n(x)["k"] == "IfStmt"]
            decls_only = all(fn.n(x)["k"] in ("DeclStmt", "IfStmt") for x in ks)
            if decls_only and len(ifs) == 1 and ifs[0].get("else") is None:
                # locals declared in the body name sub-expressions of the test
                ld = {}
                for x in ks:
                    if fn.n(x)["k"] == "DeclStmt":
                        for d2 in fn.n(x).get("decls", []):
                            if "init" in d2 and "d" in d2:
                                ld[("var", d2["n"], d2["d"])] = substitute(fn.term(d2["init"]), ld)
                out.append({"kind": "loop", "range": fn.term(nd["range"]), "elem": ("var", d["n"], d["d"]),
                            "pred": substitute(fn.term(ifs[0]["cond"]), ld), "node": nd, "pred_fn": fn, "if": ifs[0]})
    return out


def entry_producer(F, ph, rec_suffix="VolFile::IndexEntry", container="indexEntries"):
    """Where the record appended to `container` by ph is built. Returns dict(host, ent, use, push, subst):
    host  - the function that declares the local record and assigns its fields (ph itself, or a helper whose result is pushed)
    ent   - the local record variable in host
    use   - node id in host at which the record leaves it (the push_back in ph, or the helper's return statement)
    push  - the push_back node in ph
    subst - host parameters -> argument terms in ph (empty when host is ph)"""
    pushes = [nd for nd in ph.nodes if nd["k"] == "CXXMemberCallExpr" and nd.get("fname") in ("push_back", "emplace_back") and "obj" in nd
              and ph.term(nd["obj"])[0] == "mem" and ph.term(nd["obj"])[2] == container and nd.get("args")]
    if len(pushes) != 1:
        return None
    pb = pushes[0]
    a = ph.term(pb["args"][0])
    def local_rec(f, v):
        for nd in f.nodes:
            if nd["k"] == "DeclStmt":
                for d in nd.get("decls", []):
                    if ("var", d.get("n"), d.get("d")) == v and (d.get("rec") or "").endswith(rec_suffix) and not d.get("is_ref"):
                        return True
        return False
    if a[0] == "var" and local_rec(ph, a):
        return {"host": ph, "ent": a, "use": pb["id"], "push": pb, "subst": {}}
    an = ph.n(ph.strip(pb["args"][0]))
    if an["k"] in CALLS:
        for h in F.callees(an):
            if not h.cfg:
                continue
            rets = [x for x in h.nodes if x["k"] == "ReturnStmt" and "value" in x]
            if len(rets) == 1:
                rv = h.term(rets[0]["value"])
                if rv[0] == "var" and local_rec(h, rv):
                    sub = {("var", p["n"], p["d"]): ph.term(x) for p, x in zip(h.params, an.get("args", []))}
                    return {"host": h, "ent": rv, "use": rets[0]["id"], "push": pb, "subst": sub}
    return None


def on_every_returning_path(fn, node_ids):
    """True iff every path from the entry of fn to its normal exit executes at least one of the given nodes
    (a forward must-analysis over the CFG of one flag; throwing paths do not count as exits)."""
    from .flow import CFG
    g = CFG(fn)
    ids = set(node_ids)

    def transfer(b, st):
        for e in g.blocks[b]["elems"]:
            nid = e if isinstance(e, int) else e.get("init")
            if nid in ids or (ids & set(fn.subtree(nid)) if isinstance(nid, int) and fn.n(nid)["k"] in ("ExprWithCleanups",) else False):
                st = True
        return st
    IN, OUT = {g.entry: False}, {}
    changed, rounds = True, 0
    while changed and rounds < 60:
        changed = False
        rounds += 1
        for b in g.order:
            if b == g.entry:
                new_in = False
            else:
                ps = [p for p in g.pred[b] if p in OUT and p not in g.throws]
                if not ps:
                    continue
                new_in = all(OUT[p] for p in ps)
            o = transfer(b, new_in)
            if IN.get(b) != new_in or OUT.get(b) != o:
                IN[b], OUT[b] = new_in, o
                changed = True
    exits = [p for p in g.pred[g.exit] if p in OUT and p not in g.throws]
    return bool(exits) and all(OUT[p] for p in exits)

"""Looking through extracted helpers: a call the rule needs may sit in a small helper the anchored function calls
(an "extract method" refactoring). `find_calls` returns call sites found in the function itself or, failing that, in the
repository callees it calls (same object or static, up to `depth` levels), each with the substitution that expresses the
helper's parameters in the caller's vocabulary."""
from .facts import CALLS
from .flow import substitute


class Site:
    def __init__(self, owner, node, subst, via):
        self.owner = owner      # function that syntactically contains the call
        self.node = node
        self.subst = subst      # owner's parameter variables -> terms of the outer function
        self.via = via          # chain of helper call nodes (outer first)

    def term(self, nid):
        return substitute(self.owner.term(nid), self.subst) if self.subst else self.owner.term(nid)

    def args(self):
        return [self.term(a) for a in self.node.get("args", [])]

    def obj(self):
        return self.term(self.node["obj"]) if "obj" in self.node else None

    def loc(self):
        return self.owner.loc(self.node["id"])

    def outer_id(self):
        """Node id in the outer function at which the call happens (the helper call, or the call itself)."""
        return self.via[0]["id"] if self.via else self.node["id"]


def find_calls(F, fn, pred, depth=2, _subst=None, _via=(), _seen=None):
    """Sites of calls satisfying pred(node) in fn, or in helpers fn calls on the same object / statically."""
    _seen = _seen or {fn.key}
    here = [Site(fn, nd, _subst or {}, list(_via)) for nd in fn.nodes if nd["k"] in CALLS and pred(nd)]
    if here or depth == 0:
        return here
    out = []
    for nd in fn.nodes:
        if nd["k"] not in CALLS:
            continue
        if nd["k"] == "CXXMemberCallExpr" and "obj" in nd and fn.term(nd["obj"]) != ("this",):
            continue
        for cal in F.callees(nd):
            if not cal.cfg or cal.key in _seen or cal.d.get("ctor"):
                continue
            if not (cal.file.startswith(F.repo) or True):
                continue
            args = nd.get("args", [])
            sub = {}
            for i, p in enumerate(cal.params):
                if i < len(args):
                    t = fn.term(args[i])
                    sub[("var", p["n"], p["d"])] = substitute(t, _subst) if _subst else t
            out += find_calls(F, cal, pred, depth - 1, sub, tuple(_via) + (nd,), _seen | {cal.key})
    return out


def inline_single_return(F, t, depth=2):
    """If value term t is a call of a repository function whose body is a single `return expr;`, the returned expression
    with the parameters (and the receiver) substituted; otherwise t."""
    while depth > 0 and isinstance(t, tuple) and t and t[0] == "call":
        cands = [c for c in F.by_qn.get(t[1], []) if c.body is not None and len(c.params) == len(t[3]) and not c.d.get("virtual")]
        if len(cands) != 1:
            return t
        c = cands[0]
        ks = c.kids(c.body)
        if len(ks) != 1 or c.n(ks[0])["k"] != "ReturnStmt" or "value" not in c.n(ks[0]):
            return t
        sub = {("var", p["n"], p["d"]): a for p, a in zip(c.params, t[3])}
        r = substitute(c.term(c.n(ks[0])["value"]), sub)
        if t[2] is not None and t[2] != ("this",):
            r = substitute(r, {("this",): t[2]})
        t = r
        depth -= 1
    return t


def continue_conditions(fn, loop):
    """Terms that must all hold for the loop to go round again: the conjuncts of its condition (a constant-true condition
    contributes none) and the negation of every `if (c) break;` guard in its body. An exit the helper cannot express
    contributes ("?",). `return` and `throw` exits are not listed (they leave the function, not just the loop)."""
    from .facts import NEGATED_CMP
    from .rules_sib import enclosing_if_cond

    def conj(t):
        if t[0] == "op" and t[1] == "&&":
            return conj(t[2]) + conj(t[3])
        return [t]
    out = []
    if "cond" in loop:
        for t in conj(fn.term(loop["cond"])):
            if t[0] == "const" and t[1] != 0:
                continue
            out.append(t)
    body = set(fn.subtree(loop["body"]))
    inner = set()
    for x in body:
        if fn.n(x)["k"] in ("ForStmt", "WhileStmt", "DoStmt", "CXXForRangeStmt", "SwitchStmt"):
            inner |= set(fn.subtree(x)) - {x}
    for x in sorted(body - inner):
        if fn.n(x)["k"] != "BreakStmt":
            continue
        cid, in_then = enclosing_if_cond(fn, x)
        t = fn.term(cid) if cid is not None else None
        if t is not None and in_then and t[0] == "op" and t[1] in NEGATED_CMP:
            out.append(("op", NEGATED_CMP[t[1]], t[2], t[3]))
        else:
            out.append(("?",))
    return out


def closure(F, fn, depth=2, same_class_only=True):
    """fn and the repository helpers it calls on the same object or statically (transitively, up to `depth`), in call
    order: the code a "split function" / "extract method" refactoring may have moved statements into."""
    out = [fn]
    seen = {fn.key}

    def walk(f, d):
        if d == 0:
            return
        for nd in sorted([n for n in f.nodes if n["k"] in CALLS], key=lambda n: n["id"]):
            if nd["k"] == "CXXMemberCallExpr" and "obj" in nd and f.term(nd["obj"]) != ("this",):
                continue
            for cal in F.callees(nd):
                if not cal.cfg or cal.key in seen or cal.d.get("ctor") or cal.d.get("virtual"):
                    continue
                if same_class_only and fn.cls and cal.cls and cal.cls != fn.cls:
                    continue
                if not cal.cls and cal.file != fn.file:
                    continue            # free helpers: only file-local ones
                seen.add(cal.key)
                out.append(cal)
                walk(cal, d - 1)
    walk(fn, depth)
    return out


def searches(F, fn):
    """Existential searches over a range in fn, whatever their form. Each: dict(kind, range, elem, pred, node) where
    pred is the predicate's value term over the element variable `elem`:
      kind "algo:any_of" / "algo:find_if" / ...  - std algorithm over (R.begin(), R.end(), lambda)
      kind "loop"                                - range-for over R whose body is `if (pred) <leave>`"""
    out = []
    for nd in fn.nodes:
        if nd["k"] in CALLS and (nd.get("fq") or "") in ("std::any_of", "std::none_of", "std::all_of", "std::find_if", "std::find_if_not", "std::count_if") \
                and len(nd.get("args", [])) == 3:
            a = [fn.term(x) for x in nd["args"]]
            if a[0][0] == "call" and a[0][1].endswith("begin") and a[1][0] == "call" and a[1][1].endswith("end") and a[0][2] == a[1][2] and a[2][0] == "lambda":
                lam = F.functions.get(a[2][1])
                if lam is not None and len(lam.params) == 1:
                    rets = [x for x in lam.nodes if x["k"] == "ReturnStmt" and "value" in x]
                    if len(rets) == 1:
                        out.append({"kind": "algo:" + nd["fq"].split("::")[-1], "range": a[0][2], "elem": ("var", lam.params[0]["n"], lam.params[0]["d"]),
                                    "pred": lam.term(rets[0]["value"]), "node": nd, "pred_fn": lam})
        elif nd["k"] == "CXXForRangeStmt":
            d = fn.n(nd["loopvar"])["decls"][0]
            body = fn.n(nd["body"])
            ks = fn.kids(nd["body"]) if body["k"] == "CompoundStmt" else [nd["body"]]
            ifs = [fn.n(x) for x in ks if fn.n(x)["k"] == "IfStmt"]
            if len(ks) == 1 and len(ifs) == 1 and ifs[0].get("else") is None:
                out.append({"kind": "loop", "range": fn.term(nd["range"]), "elem": ("var", d["n"], d["d"]), "pred": fn.term(ifs[0]["cond"]),
                            "node": nd, "pred_fn": fn, "if": ifs[0]})
    return out

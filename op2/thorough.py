"""Thorough tier: replays the mutation catalogue (hand-written one-edit mutants, reverts of every repair, and the
confirmed sub-agent seeds) against the *current* tree's shape on a scratch copy, and requires the property's check to
report a violation for every mutant it reported before (seeded/STATUS.json is the recorded reference).

A patch that no longer applies (the tree under test was edited) is skipped and counted, never an error. The scratch copy
lives outside /repo and /verif and is removed before the command returns."""
import glob
import importlib
import json
import os
import shutil
import subprocess
import tempfile

from .extract import AnalysisBroken, CACHE
from .facts import Facts
from .report import Run, VERIF


def catalogue(prop):
    st_path = os.path.join(VERIF, "seeded", "STATUS.json")
    status = json.load(open(st_path)) if os.path.exists(st_path) else {}
    items = []
    for name, s in sorted(status.items()):
        if not s.get("applies"):
            continue
        if prop in s.get("violation_reported_by", []):
            path = os.path.join(VERIF, "seeded", name, "patch.diff") if s["kind"] == "seed" else os.path.join(VERIF, "mutations", name + ".patch")
            if os.path.exists(path):
                items.append((name, path, sorted(s.get("rules", {}).get(prop, []))))
    return items


def replay(prop, repo, max_items=None):
    """Returns dict with per-mutant outcomes."""
    items = catalogue(prop)
    if max_items:
        items = items[:max_items]
    res = {"caught": [], "missed": [], "skipped": [], "total": len(items)}
    if not items:
        return res
    scratch = tempfile.mkdtemp(prefix="op2verif-scratch-")
    try:
        dst = os.path.join(scratch, "repo")
        os.makedirs(dst)
        for sub in ("src", "include", "makefile"):
            s = os.path.join(repo, sub)
            if os.path.isdir(s):
                shutil.copytree(s, os.path.join(dst, sub))
            elif os.path.exists(s):
                shutil.copy2(s, os.path.join(dst, sub))
        mod = importlib.import_module("op2.props.%s" % prop.lower())
        for name, path, rules in items:
            a = subprocess.run(["git", "apply", "--whitespace=nowarn", path], cwd=dst, capture_output=True, text=True)
            if a.returncode != 0:
                res["skipped"].append(name)
                continue
            try:
                try:
                    F = Facts(dst)
                    r = Run(prop, "quick")
                    mod.check(F, r, "quick")
                    viol = sorted({o.rule for o in r.obligations if o.status == "violated"})
                    # cached facts of the scratch tree are not needed again
                    shutil.rmtree(F.dir, ignore_errors=True)
                except AnalysisBroken as e:
                    viol = []
                if viol:
                    res["caught"].append({"mutant": name, "rules": viol})
                else:
                    res["missed"].append(name)
            finally:
                subprocess.run(["git", "apply", "-R", "--whitespace=nowarn", path], cwd=dst, capture_output=True, text=True)
    finally:
        shutil.rmtree(scratch, ignore_errors=True)
        pass
    return res

"""Compile-database generation, cached parallel fact extraction and merge.

Everything here inspects /repo's *current working tree*: the cache key is a hash over every
file under /repo/src, /repo/include, /repo/makefile and over the verif-side translation
units and the extractor binary, so any edit re-extracts.
"""
import concurrent.futures
import hashlib
import json
import os
import shlex
import shutil
import subprocess
import sys

VERIF = os.path.dirname(os.path.dirname(os.path.abspath(__file__)))
REPO = os.environ.get("OP2_REPO", "/repo")
CACHE = os.path.join(VERIF, ".cache")
OP2FACTS = os.path.join(VERIF, "bin", "op2facts")
TU_DIR = os.path.join(VERIF, "tu")
FIXTURE_DIR = os.path.join(VERIF, "fixtures")


class AnalysisBroken(Exception):
    """The analysis could not be carried out (exit code 2): never a pass, never a violation."""


def _sha_tree(paths):
    h = hashlib.sha256()
    for root in paths:
        if os.path.isfile(root):
            files = [root]
        else:
            files = []
            for d, dirs, fs in os.walk(root):
                dirs.sort()
                if ".build" in d.split(os.sep):
                    continue
                for f in sorted(fs):
                    files.append(os.path.join(d, f))
        for f in sorted(files):
            h.update(f.encode())
            try:
                with open(f, "rb") as fh:
                    h.update(hashlib.sha256(fh.read()).digest())
            except OSError:
                h.update(b"?")
    return h.hexdigest()


def tree_key(repo=REPO):
    return _sha_tree([os.path.join(repo, "src"), os.path.join(repo, "include"),
                      os.path.join(repo, "makefile"), TU_DIR, FIXTURE_DIR, OP2FACTS])[:24]


def compile_db(repo=REPO):
    """Compile commands as the makefile states them (make -n -B all), de-duplicated."""
    p = subprocess.run(["make", "-n", "-B", "all"], cwd=repo, capture_output=True, text=True)
    if p.returncode != 0:
        raise AnalysisBroken("make -n -B all failed: " + p.stderr[-400:])
    units = {}
    for line in p.stdout.splitlines():
        try:
            argv = shlex.split(line)
        except ValueError:
            continue
        if not argv or "-c" not in argv:
            continue
        srcs = [a for a in argv if a.endswith(".cpp")]
        if not srcs:
            continue
        src = srcs[-1]
        flags = []
        skip = 0
        for a in argv[1:]:
            if skip:
                skip -= 1
                continue
            if a in ("-MT", "-MF", "-o"):
                skip = 1
                continue
            if a in ("-MMD", "-MP", "-MD", "-c") or a == src:
                continue
            flags.append(a)
        units[os.path.normpath(os.path.join(repo, src))] = flags
    if not units:
        raise AnalysisBroken("no compile commands found in `make -n -B all` output")
    return units


def _common_flags(repo):
    return ["-UNDEBUG", "-Wno-everything", "-I" + os.path.join(repo, "src")]


def _extract_one(args):
    src, flags, out, roots, repo = args
    cmd = [OP2FACTS, "-o", out]
    for r in roots:
        cmd += ["--root", r]
    cmd += [src, "--", "clang++"] + flags + _common_flags(repo)
    p = subprocess.run(cmd, cwd=repo, capture_output=True, text=True)
    ok = p.returncode == 0 and os.path.exists(out)
    return src, ok, (p.stderr or "")[-2000:]


def extract(repo=REPO, verbose=False):
    """Returns (facts_dir, meta). Re-extracts unless the cache matches the working tree."""
    if not os.path.exists(OP2FACTS):
        raise AnalysisBroken("extractor not built: run MANIFEST.setup_cmd (make -C /verif setup)")
    key = tree_key(repo)
    if repo != "/repo":
        key = "alt-" + hashlib.sha256(repo.encode()).hexdigest()[:8] + "-" + key
    out_dir = os.path.join(CACHE, key)
    meta_path = os.path.join(out_dir, "meta.json")
    if os.path.exists(meta_path):
        with open(meta_path) as fh:
            return out_dir, json.load(fh)
    units = compile_db(repo)
    std = None
    for fl in units.values():
        for a in fl:
            if a.startswith("-std="):
                std = a
    std = std or "-std=gnu++17"
    roots = [os.path.realpath(os.path.join(repo, "src")) + "/", os.path.realpath(os.path.join(repo, "include")) + "/",
             os.path.realpath(TU_DIR) + "/", os.path.realpath(FIXTURE_DIR) + "/"]
    tmp = out_dir + ".tmp%d" % os.getpid()
    shutil.rmtree(tmp, ignore_errors=True)
    os.makedirs(tmp)
    jobs = []
    names = {}
    for i, (src, flags) in enumerate(sorted(units.items())):
        out = os.path.join(tmp, "u%03d.json" % i)
        names[src] = out
        jobs.append((src, flags, out, roots, repo))
    extra = []
    for d in (TU_DIR, FIXTURE_DIR):
        if os.path.isdir(d):
            for f in sorted(os.listdir(d)):
                if f.endswith(".cpp") and not f.startswith("witness"):
                    extra.append(os.path.join(d, f))
    for j, src in enumerate(extra):
        out = os.path.join(tmp, "x%03d.json" % j)
        names[src] = out
        jobs.append((src, [std, "-I" + os.path.join(repo, "include")], out, roots, repo))
    failed = []
    with concurrent.futures.ThreadPoolExecutor(max_workers=16) as ex:
        for src, ok, err in ex.map(_extract_one, jobs):
            if not ok:
                failed.append((src, err))
    if failed:
        shutil.rmtree(tmp, ignore_errors=True)
        msg = "; ".join("%s: %s" % (s, e.strip().splitlines()[-1] if e.strip() else "no output") for s, e in failed)
        raise AnalysisBroken("units failed to parse: " + msg + "\n" + failed[0][1])
    meta = {"key": key, "repo": repo, "std": std,
            "units": [{"src": s, "facts": os.path.basename(o)} for s, o in sorted(names.items())],
            "repo_units": len(units), "extra_units": len(extra)}
    with open(os.path.join(tmp, "meta.json"), "w") as fh:
        json.dump(meta, fh, indent=1)
    os.makedirs(CACHE, exist_ok=True)
    # keep the cache small: drop older entries
    # (entries younger than an hour may be in use by a concurrent check of another tree state)
    import time
    now = time.time()
    for old in os.listdir(CACHE):
        pth = os.path.join(CACHE, old)
        try:
            age = now - os.path.getmtime(pth)
        except OSError:
            continue
        if old != key and not old.startswith(key) and age > 3600:
            shutil.rmtree(pth, ignore_errors=True)
    try:
        os.rename(tmp, out_dir)
    except OSError:
        shutil.rmtree(tmp, ignore_errors=True)  # another process won the race
    return out_dir, meta


if __name__ == "__main__":
    d, m = extract(verbose=True)
    print(d, m["repo_units"], m["extra_units"])

"""C12 — Readers deliver exactly the addressed bytes and fail atomically at bounds."""
from ..extract import AnalysisBroken
from ..facts import CTORS, CALLS, fmt_term
from ..flow import Engine, Summaries, norm_cmp, final_site_facts, fmt_fact
from ..prove import prove_le, Width
from ..report import ok, bad
from ..rules_stream import r_atomic, r_nowrap, r_cursor, r_count, guard_blocks, mutates_this, r_guard_exact
from ..invariants import class_invariants

NS = "OP2Utility::Stream::"
MR = NS + "MemoryReader"
SR = NS + "SliceReader<OP2Utility::Stream::FileReader>"

DECLINED = [
    "that a successful read returns exactly the source bytes (values), beyond the copy source being buffer+cursor",
    "behaviour of file-backed readers inside std::ifstream",
    "atomicity of the multi-step typed helpers (size prefix already consumed when a bad size is rejected)",
]


def seekforward_delegate(F, S):
    """Recorded delegation: SliceReader::SeekForward's sum `Position() + offset` may wrap, but the only action it
    guards is `wrappedStream.SeekForward(offset)` with the same operand, whose own guard on
    `wrapped Position() + offset` is wrap-checked; slice Position() = wrapped Position() - startingOffset is not
    larger than the wrapped position, so a wrap of the slice sum implies a wrap (hence a refusal) below.
    Every structural premise is re-checked here on each run."""
    def delegate(fn, x, lt, rt):
        if fn.qn != SR + "::SeekForward":
            return None
        posc = ("call", SR + "::Position", ("this",), ())
        if posc not in (lt, rt):
            return None
        v = rt if lt == posc else lt
        ws = ("mem", ("this",), "wrappedStream")
        # (1) the only state change is wrappedStream.SeekForward(v)
        muts = [nd for nd in fn.nodes if mutates_this(F, S, fn, nd)]
        if len(muts) != 1:
            return None
        m = muts[0]
        if m.get("fname") != "SeekForward" or fn.term(m.get("obj", -1)) != ws or fn.term(m["args"][0]) != v:
            return None
        # (2) slice position is wrapped position minus a non-negative offset
        pf = F.fn(SR + "::Position", nparams=0)
        rets = [nd for nd in pf.nodes if nd["k"] == "ReturnStmt" and "value" in nd]
        if len(rets) != 1:
            return None
        rt_ = pf.term(rets[0]["value"])
        if not (rt_[0] == "op" and rt_[1] == "-" and rt_[2][0] == "call" and rt_[2][1].endswith("::Position") and rt_[2][2] == ws):
            return None
        # (3) the callee's own guard is wrap-checked
        inner = F.fn(NS + "FileReader::SeekForward", nparams=1)
        obs, g = r_nowrap(F, Engine(F, S), inner)
        if not obs or any(o.status != "discharged" for o in obs):
            return None
        return ("delegated: a wrap of Position()+offset implies a wrap of the wrapped stream's own position sum, which "
                "FileReader::SeekForward refuses (post-check idiom) before moving")
    return delegate


def slice_cursor_rule(F, S, run, inv, sum_ok=False):
    """R-CURSOR, slice form: every call that moves SliceReader::wrappedStream is preceded by the guard
    that keeps startingOffset <= wrapped position <= startingOffset + sliceLength."""
    out = []
    n = 0
    ws = ("mem", ("this",), "wrappedStream")
    slen = ("mem", ("this",), "sliceLength")
    soff = ("mem", ("this",), "startingOffset")
    for fn in sorted(F.functions.values(), key=lambda f: f.key):
        if fn.cls != SR or fn.d.get("ctor"):
            continue
        eng = Engine(F, S)
        eng.analyze(fn, frozenset(inv))
        pos = None
        for nd in fn.nodes:
            if nd["k"] != "CXXMemberCallExpr" or "obj" not in nd or fn.term(nd["obj"]) != ws:
                continue
            name = nd.get("fname")
            if name not in ("Seek", "SeekForward", "SeekBackward", "Read", "ReadPartial", "ReadImplementation"):
                continue
            n += 1
            site = final_site_facts(eng, fn, nd["id"]) or set()
            args = [fn.term(a) for a in nd.get("args", [])]
            posc = ("call", SR + "::Position", ("this",), ())
            wpos = ("call", NS + "FileReader::Position", ws, ())
            inst = "%s#wrappedStream.%s" % (fn.qn, name)
            good, req = None, ""
            if name == "Seek":
                req = "argument is startingOffset + p with p <= sliceLength (or startingOffset itself)"
                a = args[0]
                if a == soff:
                    good = "seek to the slice start"
                elif a[0] == "op" and a[1] == "+" and soff in (a[2], a[3]):
                    p = a[3] if a[2] == soff else a[2]
                    if prove_le(site, p, slen):
                        good = "%s <= sliceLength holds" % fmt_term(p)
            elif name == "SeekForward":
                a = args[0]
                req = "%s <= sliceLength - Position()" % fmt_term(a)
                if prove_le(site, a, ("op", "-", slen, posc)):
                    good = "subtraction-form guard holds"
                elif sum_ok and (prove_le(site, ("op", "+", posc, a), slen) or prove_le(site, ("op", "+", a, posc), slen)):
                    good = "sum-form guard holds and its sum is wrap-checked by delegation (R-NOWRAP)"
            elif name == "SeekBackward":
                a = args[0]
                req = "%s <= Position()" % fmt_term(a)
                if prove_le(site, a, posc):
                    good = "guard holds"
            elif name in ("Read", "ReadImplementation", "ReadPartial"):
                a = args[1]
                req = "%s <= sliceLength - Position()" % fmt_term(a)
                if prove_le(site, a, ("op", "-", slen, posc)):
                    good = "subtraction-form guard holds"
            if good:
                out.append(ok("R-CURSOR", inst, fn.loc(nd["id"]), fn.qn, req, good))
            else:
                out.append(bad("R-CURSOR", inst, fn.loc(nd["id"]), fn.qn, req,
                               "no wrap-safe dominating guard; facts at site: " +
                               ("; ".join(sorted(fmt_fact(f) for f in site if f[0] not in ("ev", "called"))) or "none")))
    return out, n


def P(fn, i):
    return ("var", fn.params[i]["n"], fn.params[i]["d"])


def M(name):
    return ("mem", ("this",), name)


def reader_guard_specs(F):
    """(function, [(X, Y)]): the operation is in bounds iff X <= Y."""
    posc = ("call", SR + "::Position", ("this",), ())
    out = []
    f = F.fn(MR + "::ReadImplementation", nparams=2); out.append((f, [(P(f, 1), ("op", "-", M("streamSize"), M("position")))]))
    f = F.fn(MR + "::Seek", nparams=1); out.append((f, [(P(f, 0), M("streamSize"))]))
    f = F.fn(MR + "::SeekForward", nparams=1); out.append((f, [(P(f, 0), ("op", "-", M("streamSize"), M("position")))]))
    f = F.fn(MR + "::SeekBackward", nparams=1); out.append((f, [(P(f, 0), M("position"))]))
    f = F.fn(MR + "::Slice", nparams=2); out.append((f, [(("op", "+", P(f, 0), P(f, 1)), M("streamSize"))]))
    f = F.fn(SR + "::ReadImplementation", nparams=2); out.append((f, [(P(f, 1), ("op", "-", M("sliceLength"), posc))]))
    f = F.fn(SR + "::Seek", nparams=1); out.append((f, [(P(f, 0), M("sliceLength"))]))
    f = F.fn(SR + "::SeekForward", nparams=1); out.append((f, [(P(f, 0), ("op", "-", M("sliceLength"), posc))]))
    f = F.fn(SR + "::SeekBackward", nparams=1); out.append((f, [(P(f, 0), posc)]))
    f = F.fn(SR + "::Slice", nparams=2); out.append((f, [(("op", "+", P(f, 0), P(f, 1)), M("sliceLength"))]))
    f = F.fn(SR + "::Initialize", nparams=0)
    out.append((f, [(("op", "+", M("startingOffset"), M("sliceLength")), ("call", NS + "FileReader::Length", M("wrappedStream"), ()))]))
    return out


def typed_helpers(F, S, run):
    out = []
    n = 0
    # Read(T&) passes sizeof(T); container overload passes size()*sizeof(value_type)
    for fn in sorted(F.fns(NS + "Reader::Read"), key=lambda f: f.key):
        targs = fn.d.get("targs") or []
        calls = [nd for nd in fn.nodes if nd["k"] in CALLS and nd.get("fname") in ("ReadImplementation", "Read")]
        if len(fn.params) == 1 and len(targs) == 1 and calls and calls[0].get("fname") == "ReadImplementation":
            n += 1
            nd = calls[0]
            a = nd["args"]
            sz = fn.n(fn.strip(a[1]))
            t0 = targs[0]
            inst = "%s#length" % fn.key
            if "cv" in sz:
                want = t0.get("size_bits", 0) // 8
                if int(sz["cv"]) == want and fn.term(a[0]) == ("un", "&", ("var", fn.params[0]["n"], fn.params[0]["d"])):
                    out.append(ok("R-SEQ", inst, fn.loc(nd["id"]), fn.qn, "fixed-size read consumes sizeof(T) into &object",
                                  "length %d == sizeof(%s)" % (want, t0.get("ct")), nontrivial=False))
                else:
                    out.append(bad("R-SEQ", inst, fn.loc(nd["id"]), fn.qn, "fixed-size read consumes sizeof(T) into &object",
                                   "length %s, sizeof(T)=%d" % (sz.get("cv"), want)))
            else:
                t = fn.xterm(a[1])
                pv = ("var", fn.params[0]["n"], fn.params[0]["d"])
                good = t[0] == "op" and t[1] == "*" and ("size", pv) in (t[2], t[3])
                other = None
                if good:
                    other = t[3] if t[2] == ("size", pv) else t[2]
                    good = other[0] == "const" and other[1] >= 1
                dst = fn.term(a[0])
                good = good and mentions_var(dst, pv)
                if good:
                    out.append(ok("R-SEQ", inst, fn.loc(nd["id"]), fn.qn,
                                  "container read consumes size()*sizeof(value_type) into the container's storage",
                                  "length %s" % fmt_term(t), nontrivial=False))
                else:
                    out.append(bad("R-SEQ", inst, fn.loc(nd["id"]), fn.qn,
                                   "container read consumes size()*sizeof(value_type) into the container's storage",
                                   "length %s into %s" % (fmt_term(t), fmt_term(dst))))
        if len(fn.params) == 1 and len(targs) == 3 and "basic_string" in fn.key and calls and len(calls[0].get("args", [])) == 2:
            # the string overload (template over the character type): length = size() * sizeof(CharT) into the string's storage
            n += 1
            nd = calls[0]
            pv = ("var", fn.params[0]["n"], fn.params[0]["d"])
            t = fn.xterm(nd["args"][1])
            dst = fn.term(nd["args"][0])
            inst = "%s#length" % fn.key
            req = "a string read consumes size() * sizeof(CharT) bytes into the string's own storage (the element size is part of the length for every character type)"
            good = t[0] == "op" and t[1] == "*" and ("size", pv) in (t[2], t[3]) and mentions_var(dst, pv)
            if good:
                other = t[3] if t[2] == ("size", pv) else t[2]
                good = other[0] == "const" and other[1] == (targs[0].get("size_bits", 8) // 8)
            if good:
                out.append(ok("R-SEQ", inst, fn.loc(nd["id"]), fn.qn, req, "length %s" % fmt_term(t), nontrivial=False))
            else:
                out.append(bad("R-SEQ", inst, fn.loc(nd["id"]), fn.qn, req,
                               "length %s: the character size does not enter (right only for one-byte characters)" % fmt_term(t)))
        if len(targs) == 2 and len(fn.params) == 1:
            # size-prefixed: sign guard (signed prefixes), max_size guard, then resize(count), then Read(container)
            n += 1
            eng = Engine(F, S)
            eng.analyze(fn, frozenset())
            rs = [nd for nd in fn.nodes if nd["k"] == "CXXMemberCallExpr" and nd.get("fname") == "resize"]
            if len(rs) != 1:
                raise AnalysisBroken("Reader::Read<SizeType,T>: expected one resize() in %s" % fn.key)
            nd = rs[0]
            # whatever the prefix says (0 included), the destination ends up with exactly that many elements: the resize is on
            # every returning path (an early return for an empty record would leave the destination's old contents in place)
            from ..through import on_every_returning_path
            if on_every_returning_path(fn, [nd["id"]]):
                out.append(ok("R-MUSTCALL", "%s#always-resized" % fn.key, fn.loc(nd["id"]), fn.qn,
                              "the container is resized to the stored count on every returning path", "resize on every path", nontrivial=False))
            else:
                out.append(bad("R-MUSTCALL", "%s#always-resized" % fn.key, fn.loc(nd["id"]), fn.qn,
                               "the container is resized to the stored count on every returning path",
                               "a path returns without the resize: a record of that size leaves the destination as it was (stale elements)"))
            site = final_site_facts(eng, fn, nd["id"]) or set()
            cnt = fn.term(nd["args"][0])
            pv = ("var", fn.params[0]["n"], fn.params[0]["d"])
            signed = bool(targs[0].get("is"))
            inst = "%s#prefix" % fn.key
            need_sign = (not signed) or prove_le(site, ("const", 0), cnt_nonneg(cnt), strict=False) and \
                any(f[0] == "<=" and f[1] == ("const", 0) and f[2] == cnt for f in site)
            maxf = any(f[0] == "<=" and f[1] == cnt and f[2][0] == "max_size" for f in site)
            if signed and not need_sign:
                out.append(bad("R-MUSTCALL", inst + "-sign", fn.loc(nd["id"]), fn.qn,
                               "a negative size prefix is refused before resize()", "no dominating `size < 0` refusal"))
            else:
                out.append(ok("R-MUSTCALL", inst + "-sign", fn.loc(nd["id"]), fn.qn,
                              "a negative size prefix is refused before resize()",
                              "refusal dominates resize" if signed else "unsigned prefix type", nontrivial=signed))
            if maxf:
                out.append(ok("R-MUSTCALL", inst + "-max", fn.loc(nd["id"]), fn.qn,
                              "an unsatisfiable size is refused before resize()", "count <= max_size() holds at resize"))
            else:
                out.append(bad("R-MUSTCALL", inst + "-max", fn.loc(nd["id"]), fn.qn,
                               "an unsatisfiable size is refused before resize()", "no dominating max_size() refusal"))
            # the container read that follows uses the freshly sized container
            after = [c for c in fn.nodes if c["k"] in CALLS and c.get("fname") == "Read" and c["id"] != nd["id"]
                     and c.get("args") and fn.term(c["args"][0]) == pv]
            rd_cnt = [c for c in fn.nodes if c["k"] in CALLS and c.get("fname") == "Read" and c.get("args")
                      and fn.term(c["args"][0]) == cnt]
            if after and rd_cnt:
                out.append(ok("R-SEQ", inst + "-order", fn.loc(nd["id"]), fn.qn,
                              "prefix is read, container sized by it, then filled", "Read(count); resize(count); Read(container)",
                              nontrivial=False))
            else:
                out.append(bad("R-SEQ", inst + "-order", fn.loc(nd["id"]), fn.qn,
                               "prefix is read, container sized by it, then filled", "shape not found"))
    return out, n


def string_bound(F, S):
    """ReadNullTerminatedString(maxCount): every character is read only while fewer than maxCount were taken (so a bound of 0
    consumes nothing), whatever the loop's form."""
    fn = F.fn(NS + "Reader::ReadNullTerminatedString", nparams=1)
    eng = Engine(F, S)
    eng.analyze(fn, frozenset())
    mx = ("var", fn.params[0]["n"], fn.params[0]["d"])
    out = []
    n = 0
    rets = [nd for nd in fn.nodes if nd["k"] == "ReturnStmt" and "value" in nd]
    strv = fn.term(rets[0]["value"]) if rets else None
    for nd in fn.nodes:
        if nd["k"] in CALLS and nd.get("fname") in ("Read", "ReadImplementation") and nd.get("args"):
            n += 1
            site = final_site_facts(eng, fn, nd["id"]) or set()
            inst = "%s#read-under-bound" % fn.qn
            req = "a character is read only while the number already taken is < maxCount"
            counters = [f[1] for f in site if f[0] == "<" and f[2] == mx]
            if counters or (strv is not None and prove_le(site, ("size", strv), mx, strict=True)):
                out.append(ok("R-GUARD", inst, fn.loc(nd["id"]), fn.qn, req, "bound test dominates the read"))
            else:
                out.append(bad("R-GUARD", inst, fn.loc(nd["id"]), fn.qn, req,
                               "the read is reached without `count < maxCount` (first iteration of a do-while?): maxCount == 0 still consumes a character; facts: %s" % (
                                   "; ".join(sorted(fmt_fact(f) for f in site if f[0] not in ("ev", "called"))) or "none")))
    if n == 0:
        raise AnalysisBroken("ReadNullTerminatedString: no character read found")
    return out


def cnt_nonneg(t):
    return t


def mentions_var(t, v):
    from ..flow import mentions
    return mentions(t, v)


def check(F, run, tier):
    S = Summaries(F)
    from ..rules_archive import discarded_exception_obligations
    discarded_exception_obligations(F, S, run)
    # a failed or short file read must not leave the shared stream failed: later seeks and reads on the same reader would be ignored
    from ..rules_archive import r_fstream
    for _nm in ("ReadImplementation", "ReadPartial"):
        run.add(r_fstream(F, S, F.fn("OP2Utility::Stream::FileReader::" + _nm, nparams=2)))
    from ..rules_archive import noexcept_obligations
    noexcept_obligations(F, S, run)
    run.declined = DECLINED
    run.explanation = (
        "Static analysis of the stream reader classes (clang AST + CFG of /repo's current source). Decided: R-ATOMIC "
        "(no change of reader state on a path that can still throw), R-NOWRAP (arithmetic inside every throwing bounds "
        "guard cannot wrap: bit-width domain, or the repo's pre-check / post-check / subtraction idioms), R-CURSOR "
        "(every store to MemoryReader::position and every call that moves SliceReader::wrappedStream preserves the "
        "cursor invariant), R-COUNT (returned count == copied length == cursor advance in each ReadPartial), and the "
        "refusal-before-allocation order of the size-prefixed typed helpers in every instantiated prefix width.")

    # ---- class invariants used as inductive hypotheses
    inv_slice, notes = class_invariants(F, S, SR)
    inv_mem = {norm_cmp("<=", ("mem", ("this",), "position"), ("mem", ("this",), "streamSize"))}

    # ---- R-CURSOR (memory reader)
    eng = Engine(F, S)
    obs, n = r_cursor(F, eng, MR, "position", ("mem", ("this",), "streamSize"))
    run.add(obs)
    run.floor("R-CURSOR", n, 5)
    cursor_ok = all(o.status == "discharged" for o in obs)

    # ---- R-CURSOR (slice form)
    deleg = seekforward_delegate(F, S)
    sf = F.fn(SR + "::SeekForward", nparams=1)
    inv_slice = set(inv_slice) | {norm_cmp("<=", ("call", SR + "::Position", ("this",), ()), ("mem", ("this",), "sliceLength"))}
    sf_obs, _ = r_nowrap(F, Engine(F, S), sf, invariants=inv_slice, delegate=deleg)
    sum_ok = bool(sf_obs) and all(o.status == "discharged" for o in sf_obs)
    obs, n2 = slice_cursor_rule(F, S, run, inv_slice, sum_ok=sum_ok)
    run.add(obs)
    run.floor("R-CURSOR", n + n2, 5 + 5)

    # ---- R-NOWRAP
    total_guards = 0
    mem_fns = [("ReadImplementation", 2), ("Seek", 1), ("SeekForward", 1), ("SeekBackward", 1), ("Slice", 2)]
    for name, np_ in mem_fns:
        fn = F.fn(MR + "::" + name, nparams=np_)
        obs, g = r_nowrap(F, Engine(F, S), fn, invariants=inv_mem)
        total_guards += g
        run.add(obs)
    for name, np_ in [("ReadImplementation", 2), ("Seek", 1), ("SeekForward", 1), ("SeekBackward", 1), ("Slice", 2),
                      ("Initialize", 0)]:
        fn = F.fn(SR + "::" + name, nparams=np_)
        obs, g = r_nowrap(F, Engine(F, S), fn, invariants=inv_slice, delegate=deleg)
        total_guards += g
        run.add(obs)
    for fn in F.fns(SR + "::SliceReader"):
        if not fn.d.get("copy_ctor"):
            obs, g = r_nowrap(F, Engine(F, S), fn)
            total_guards += g
            run.add(obs)
    run.floor("R-NOWRAP(guards)", total_guards, 12)

    # ---- R-GUARD: each bounds guard refuses exactly the out-of-bounds arguments
    ng = 0
    for fn, specs in reader_guard_specs(F):
        inv = inv_slice if fn.cls == SR else inv_mem
        run.add(r_guard_exact(F, Engine(F, S), fn, specs, invariants=inv))
        ng += 1
    run.floor("R-GUARD", ng, 11)

    # ---- R-ATOMIC
    nat = 0
    for name, np_ in mem_fns + [("Slice", 1)]:
        run.add(r_atomic(F, S, F.fn(MR + "::" + name, nparams=np_), label="%s::%s/%d" % (MR, name, np_)))
        nat += 1
    for name, np_ in [("ReadImplementation", 2), ("Seek", 1), ("SeekForward", 1), ("SeekBackward", 1), ("Slice", 2),
                      ("Slice", 1)]:
        run.add(r_atomic(F, S, F.fn(SR + "::" + name, nparams=np_), label="%s::%s/%d" % (SR, name, np_)))
        nat += 1
    run.add(r_atomic(F, S, F.fn(NS + "BidirectionalReader::Peek", nparams=2),
                     inverse_exempt=("ReadImplementation", "SeekBackward")))
    nat += 1
    run.floor("R-ATOMIC", nat, 13)

    # ---- R-NARROW: no bounds decision is taken on a reinterpreted (sign-changed or narrowed) copy of an argument
    from ..rules_narrow import r_narrow
    nn = 0
    sweep = [F.fn(MR + "::" + nm, nparams=k) for nm, k in mem_fns + [("Slice", 1), ("ReadPartial", 2)]]
    sweep += [F.fn(SR + "::" + nm, nparams=k) for nm, k in [("ReadImplementation", 2), ("ReadPartial", 2), ("Seek", 1), ("SeekForward", 1),
                                                            ("SeekBackward", 1), ("Slice", 2), ("Slice", 1), ("Initialize", 0)]]
    sweep += [F.fn(NS + "FileReader::" + nm, nparams=k) for nm, k in [("ReadImplementation", 2), ("ReadPartial", 2), ("Seek", 1),
                                                                     ("SeekForward", 1), ("SeekBackward", 1)]]
    sweep.append(F.fn(NS + "BidirectionalReader::Peek", nparams=2))
    for fn in sweep:
        inv = inv_slice if fn.cls == SR else inv_mem if fn.cls == MR else frozenset()
        if fn.cls == MR:
            # language rule: no object (hence no buffer a MemoryReader spans) is larger than PTRDIFF_MAX bytes
            inv = set(inv) | {norm_cmp("<=", M("streamSize"), ("const", (1 << 63) - 1))}
        obs, _ = r_narrow(F, S, fn, entry=frozenset(inv), explicit_only=True)
        # a position spelled out as the stream library's own offset type on its way into seekg / std::fpos is the conversion
        # `seekg(position)` performs implicitly: a value of 2^63 or more becomes a negative offset, which seekg refuses
        # (standard-library contract, as for gcount below)
        to_fpos = set()
        for nd in fn.nodes:
            if (nd["k"] in CTORS and (nd.get("ctor_rec") or "").startswith("std::fpos")) or \
                    (nd["k"] == "CXXMemberCallExpr" and nd.get("fname") == "seekg" and (nd.get("mrec") or "").startswith("std::basic_istream")):
                for a in nd.get("args", []):
                    x = fn.n(fn.strip(a, casts=False))
                    if x["k"] in ("CXXStaticCastExpr", "CStyleCastExpr", "CXXFunctionalCastExpr") and "streamoff" in (x.get("t") or "") + (x.get("td") or ""):
                        to_fpos.add(fn.loc(x["id"]))
        for o in obs:
            if "accumulation in" in o.required:
                continue        # cursor advances: decided by R-CURSOR above
            if o.site in to_fpos and o.instance.split("#")[-1].startswith("narrow:"):
                continue
            if o.instance.endswith("file.gcount()"):
                continue        # std::streamsize gcount() is the non-negative count of the last read (standard-library contract)
            run.add(o)
        nn += 1
    run.floor("R-NARROW(functions)", nn, 20)
    # the slice reader also with implicit and same-width sign conversions: its clamps and bounds tests compare unsigned 64-bit
    # quantities, and a detour through a signed type (std::min<std::streamoff>(size, left)) turns a huge request into a
    # negative one that wins the minimum. None on the reviewed tree; the sweep is what keeps it so.
    for fn in [f for f in sweep if f.cls == SR]:
        obs, _ = r_narrow(F, S, fn, entry=frozenset(inv_slice), explicit_only=False, sign_conversions=True)
        have = {x.key() for x in run.obligations}
        run.add([o for o in obs if "accumulation in" not in o.required and o.key() not in have and not o.instance.endswith("file.gcount()")])
    fx = [f for f in F.fixture_functions.values() if f.qn == "fixture::Cursor::Back"]
    hit = False
    if fx:
        o, _ = r_narrow(F, S, fx[0], explicit_only=True)
        hit = sum(1 for x in o if x.status == "violated") >= 2
    run.fixture("fixtures/raw_read.cpp: static_cast<int64_t>(offset) before a bounds test is reported by R-NARROW", hit)

    # ---- R-COUNT
    nc = 0
    for q in (MR, SR, NS + "FileReader"):
        fn = F.fn(q + "::ReadPartial", nparams=2)
        run.add(r_count(F, Engine(F, S), fn))
        nc += 1
    run.floor("R-COUNT", nc, 3)

    # ---- copy source is the cursor
    fn = F.fn(MR + "::ReadImplementation", nparams=2)
    for f2 in (fn, F.fn(MR + "::ReadPartial", nparams=2)):
        from ..through import find_calls
        mc = find_calls(F, f2, lambda nd: nd.get("fname") == "memcpy")      # (in the function, or in a helper it runs on itself)
        if len(mc) != 1:
            raise AnalysisBroken("expected one memcpy in %s" % f2.qn)
        src = mc[0].args()[1]
        want = ("op", "+", ("mem", ("this",), "streamBuffer"), ("mem", ("this",), "position"))
        dst = mc[0].args()[0]
        if src == want and dst == ("var", f2.params[0]["n"], f2.params[0]["d"]):
            run.add(ok("R-SEQ", f2.qn + "#copy-source", f2.loc(mc[0].outer_id()), f2.qn,
                       "bytes are copied from streamBuffer + position into the caller's buffer", fmt_term(src), nontrivial=False))
        else:
            run.add(bad("R-SEQ", f2.qn + "#copy-source", f2.loc(mc[0].outer_id()), f2.qn,
                        "bytes are copied from streamBuffer + position into the caller's buffer",
                        "memcpy(%s, %s, …)" % (fmt_term(dst), fmt_term(src))))

    run.add(string_bound(F, S))
    # ---- typed helpers
    obs, n = typed_helpers(F, S, run)
    run.add(obs)
    run.floor("typed-helpers", n, 12)
    run.extra["class_invariants"] = {"SliceReader": sorted(fmt_fact(f) for f in inv_slice),
                                     "MemoryReader": sorted(fmt_fact(f) for f in inv_mem), "notes": [str(x) for x in notes]}

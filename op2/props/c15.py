"""C15 — Adaptive Huffman tree stays a valid code equal to the reference on every history."""
from ..extract import AnalysisBroken
from ..facts import CALLS, fmt_term
from ..flow import Engine, Summaries, final_site_facts, fmt_fact, mentions
from ..prove import prove_le
from ..report import ok, bad
from ..invariants import class_invariants
from ..rules_archive import facts_txt, subscript_sites
from ..rules_sib import P, returns
from ..rules_stream import r_atomic, r_guard_exact, is_store

AH = "OP2Utility::Archive::AdaptiveHuffmanTree"

DECLINED = [
    "validity of the code (full binary prefix tree, sibling property) and shape equality with a reference implementation: "
    "properties of update histories; no abstract domain in reach carries the relation between linkOrData, subtreeCount and "
    "parentIndex through SwapNodes",
    "the block-leader scan staying in bounds (subtreeCount[blockLeaderIndex + 1]) and table-derived indices in general: true only by the sibling property",
    "that the encoder's bit order matches the decoder's walk (left children at even indices by construction) - recorded, not decided",
]


def capacity(F, S):
    out = []
    fn = F.fn(AH + "::UpdateCodeCount", nparams=1)
    out += r_atomic(F, S, fn)
    eng = Engine(F, S)
    eng.analyze(fn, frozenset())
    stores = sorted([nd for nd in fn.nodes if is_store(nd) and "subtreeCount" in repr(fn.term(fn.kids(nd["id"])[0]))], key=lambda n: n["id"])
    if not stores:
        raise AnalysisBroken("UpdateCodeCount: no count store found")
    site = final_site_facts(eng, fn, stores[0]["id"]) or set()
    rec = F.record(AH)
    fld = [f for f in rec["fields"] if f["name"] == "subtreeCount"][0]
    # element width of the counters
    iw = 16
    import re
    m = re.search(r"std::vector<([^,>]+)", fld.get("ct") or "")
    widths = {"unsigned short": 16, "unsigned int": 32, "unsigned char": 8, "unsigned long": 64}
    if m and m.group(1).strip() in widths:
        iw = widths[m.group(1).strip()]
    cmax = (1 << iw) - 1
    root = ("idx", ("mem", ("this",), "subtreeCount"), ("mem", ("this",), "rootNodeIndex"))
    good = any((f[0] == "!=" and root in (f[1], f[2]) and ("const", cmax) in (f[1], f[2])) or
               (f[0] == "<" and f[1] == root and f[2] == ("const", cmax)) for f in site)
    inst = AH + "::UpdateCodeCount#capacity"
    req = "the update that would wrap the %d-bit counters (root count == %d) is refused before the first count is changed" % (iw, cmax)
    if good:
        out.append(ok("R-MUSTCALL", inst, fn.loc(stores[0]["id"]), fn.qn, req, "refusal on the root count dominates the first store"))
    else:
        near = [fmt_fact(f) for f in site if "subtreeCount" in repr(f)]
        out.append(bad("R-MUSTCALL", inst, fn.loc(stores[0]["id"]), fn.qn, req,
                       "no refusal of root count == %d before the first store%s" % (cmax, ("; found instead: " + "; ".join(near)) if near else "")))
    return out


def verifiers_first(F, S, inv):
    out = []
    table = [("GetChildNode", 2, "VerifyNodeIndexInBounds"), ("IsLeaf", 1, "VerifyNodeIndexInBounds"), ("GetNodeData", 1, "VerifyNodeIndexInBounds"),
             ("UpdateCodeCount", 1, "VerifyNodeDataInBounds"), ("GetEncodedBitString", 2, "VerifyNodeDataInBounds")]
    for name, np_, ver in table:
        fn = F.fn(AH + "::" + name, nparams=np_)
        eng = Engine(F, S)
        eng.analyze(fn, frozenset(inv))
        arg = P(fn, 0)
        want = ("called", AH + "::" + ver, (arg,))
        n = 0
        for (nd, base, idx, ext) in subscript_sites(fn):
            if not mentions(idx, arg):
                continue
            n += 1
            site = final_site_facts(eng, fn, nd["id"]) or set()
            inst = "%s::%s#%s[%s]" % (AH, name, fmt_term(base), fmt_term(idx))
            req = "%s < %s.size() at the subscript (verifier passed, table sizes fixed by the constructor)" % (fmt_term(idx), fmt_term(base))
            if want in site and prove_le(site, idx, ("size", base), strict=True):
                out.append(ok("R-INDEX", inst, fn.loc(nd["id"]), fn.qn, req, "%s(%s) dominates; bound entailed with the class invariants" % (ver, arg[1])))
            else:
                out.append(bad("R-INDEX", inst, fn.loc(nd["id"]), fn.qn, req,
                               "verifier passed: %s; facts: %s" % (want in site, facts_txt(site))))
        if n == 0 and name != "GetEncodedBitString":
            raise AnalysisBroken("%s: no parameter-indexed subscript found" % fn.qn)
        out += r_atomic(F, S, fn) if name not in ("UpdateCodeCount",) else []
    for ver, lim in (("VerifyNodeIndexInBounds", "nodeCount"), ("VerifyNodeDataInBounds", "terminalNodeCount")):
        v = F.fn(AH + "::" + ver, nparams=1)
        out += r_guard_exact(F, Engine(F, S), v, [(P(v, 0), ("mem", ("this",), lim), True)])
    return out


def units(F, S):
    """R-UNITS: a symbol (NodeData) becomes a node index only through the code->leaf map parentIndex[code + nodeCount]."""
    out = []
    n = 0
    for name, np_ in (("UpdateCodeCount", 1), ("GetEncodedBitString", 2)):
        fn = F.fn(AH + "::" + name, nparams=np_)
        code = P(fn, 0)
        want = ("idx", ("mem", ("this",), "parentIndex"), ("op", "+", code, ("mem", ("this",), "nodeCount")))
        want2 = ("idx", ("mem", ("this",), "parentIndex"), ("op", "+", ("mem", ("this",), "nodeCount"), code))
        for nd in fn.nodes:
            if nd["k"] == "DeclStmt":
                for d in nd.get("decls", []):
                    if (d.get("td") or "").endswith("NodeIndex") and "init" in d:
                        it = fn.term(d["init"])
                        if not mentions(it, code):
                            continue
                        n += 1
                        inst = "%s::%s#code-to-leaf:%s" % (AH, name, d["n"])
                        req = "the node index for a symbol is looked up through parentIndex[code + nodeCount] (the leaf that currently holds it)"
                        if it in (want, want2):
                            out.append(ok("R-UNITS", inst, fn.loc(nd["id"]), fn.qn, req, fmt_term(it)))
                        else:
                            out.append(bad("R-UNITS", inst, fn.loc(nd["id"]), fn.qn, req,
                                           "NodeIndex %s is initialised from %s: a symbol value used as a node position (valid only until the first swap)" % (d["n"], fmt_term(it))))
    if n < 2:
        raise AnalysisBroken("R-UNITS: expected a NodeIndex local initialised from the symbol in UpdateCodeCount and GetEncodedBitString")
    # the reverse direction: leaf -> symbol is linkOrData[i] - nodeCount
    g = F.fn(AH + "::GetNodeData", nparams=1)
    r = returns(g)
    t = g.term(r[0]["value"]) if len(r) == 1 else None
    want = ("op", "-", ("idx", ("mem", ("this",), "linkOrData"), P(g, 0)), ("mem", ("this",), "nodeCount"))
    inst = AH + "::GetNodeData#leaf-to-code"
    if t == want:
        out.append(ok("R-UNITS", inst, g.loc(r[0]["id"]), g.qn, "a leaf's symbol is linkOrData[i] - nodeCount", fmt_term(t)))
    else:
        out.append(bad("R-UNITS", inst, g.loc(g.body), g.qn, "a leaf's symbol is linkOrData[i] - nodeCount", "returns %s" % (fmt_term(t) if t else "?")))
    return out


def link_or_data_split(F, S):
    """R-SIB: every test that tells links from data compares a linkOrData value with nodeCount using the same split
    (value < nodeCount <=> link, value >= nodeCount <=> data)."""
    out = []
    n = 0
    nc = ("mem", ("this",), "nodeCount")
    for fn in sorted(F.functions.values(), key=lambda f: f.key):
        if fn.cls != AH:
            continue
        from ..props.c05 import alias_defs, resolve
        defs = alias_defs(fn)
        # locals assigned (not only initialised) from linkOrData elements
        lod_vars = set()
        for nd in fn.nodes:
            if is_store(nd) and nd.get("op") == "=" and len(fn.kids(nd["id"])) == 2:
                l, r = fn.term(fn.kids(nd["id"])[0]), fn.term(fn.kids(nd["id"])[1])
                if l[0] == "var" and r[0] == "idx" and r[1] == ("mem", ("this",), "linkOrData"):
                    lod_vars.add(l)
            if nd["k"] == "DeclStmt":
                for d in nd.get("decls", []):
                    if "init" in d:
                        r = fn.term(d["init"])
                        if r[0] == "idx" and r[1] == ("mem", ("this",), "linkOrData"):
                            lod_vars.add(("var", d["n"], d["d"]))
        for nd in fn.nodes:
            if nd["k"] == "BinaryOperator" and nd.get("op") in ("<", "<=", ">", ">="):
                ks = fn.kids(nd["id"])
                l, r = fn.term(ks[0]), fn.term(ks[1])
                op = nd["op"]
                if r != nc and l == nc:
                    l, r = r, l
                    op = {"<": ">", ">": "<", "<=": ">=", ">=": "<="}[op]
                if r != nc:
                    continue
                is_lod = (l[0] == "idx" and l[1] == ("mem", ("this",), "linkOrData")) or l in lod_vars
                if not is_lod:
                    continue
                n += 1
                inst = "%s#link-data-split:%s" % (fn.qn, fmt_term(fn.term(nd["id"])))
                req = "links are the values < nodeCount and data the values >= nodeCount, in every test"
                if op in ("<", ">="):
                    out.append(ok("R-SIB", inst, fn.loc(nd["id"]), fn.qn, req, "`%s nodeCount`" % op))
                else:
                    out.append(bad("R-SIB", inst, fn.loc(nd["id"]), fn.qn, req, "`%s nodeCount` puts the value nodeCount (symbol 0's leaf) on the wrong side" % op))
    return out, n


def check(F, run, tier):
    S = Summaries(F)
    run.declined = DECLINED
    run.explanation = (
        "Static analysis of the adaptive Huffman tree's refusal and consistency clauses (the tree invariants themselves are "
        "declined). Decided: the capacity refusal (root count == maximum of the counters' element type) dominates the first "
        "count store and nothing is stored before any throw site (R-MUSTCALL, R-ATOMIC); every public operation passes its "
        "range verifier, which refuses exactly index >= nodeCount / symbol >= terminalNodeCount, before subscripting, and "
        "the parameter-derived subscripts are entailed in range together with class invariants derived from the "
        "constructor (table sizes; R-INDEX with linear combination of facts); a symbol becomes a node position only through "
        "the code->leaf map in both the update and the encoder (R-UNITS, typedef sugar NodeData/NodeIndex).")
    inv, notes = class_invariants(F, S, AH)
    run.extra["class_invariants"] = sorted(fmt_fact(f) for f in inv)
    run.add(capacity(F, S))
    run.add(verifiers_first(F, S, inv))
    run.add(units(F, S))
    obs, n = link_or_data_split(F, S)
    run.add(obs)
    run.floor("link-data-tests", n, 3)
    run.floor("obligations", len(run.obligations), 15)

"""C15 — Adaptive Huffman tree stays a valid code equal to the reference on every history."""
from ..extract import AnalysisBroken
from ..facts import CALLS, fmt_term
from ..flow import Engine, Summaries, final_site_facts, fmt_fact, mentions
from ..prove import prove_le
from ..report import ok, bad
from ..invariants import class_invariants
from ..rules_archive import facts_txt, subscript_sites
from ..rules_sib import P, returns
from ..rules_stream import r_atomic, r_guard_exact, is_store

AH = "OP2Utility::Archive::AdaptiveHuffmanTree"

DECLINED = [
    "validity of the code (full binary prefix tree, sibling property) and shape equality with a reference implementation: "
    "properties of update histories; no abstract domain in reach carries the relation between linkOrData, subtreeCount and "
    "parentIndex through SwapNodes",
    "the block-leader scan staying in bounds (subtreeCount[blockLeaderIndex + 1]) and table-derived indices in general: true only by the sibling property",
    "that the encoder's bit order matches the decoder's walk (left children at even indices by construction) - recorded, not decided",
]


def counting_function(F, fn):
    """fn if it increments the counts itself, else the one private helper only it runs that does (the walk split off)."""
    def has(f):
        return any(is_store(nd) and "subtreeCount" in repr(f.term(f.kids(nd["id"])[0])) for nd in f.nodes)
    if has(fn):
        return fn
    from ..through import private_closure
    hs = [F.functions[k] for k in private_closure(F, fn) if k != fn.key and k in F.functions]
    hs = [h for h in hs if has(h) and not h.d.get("lambda") and h.name != "SwapNodes"]
    return hs[0] if len(hs) == 1 else fn


def capacity(F, S):
    out = []
    fn0 = F.fn(AH + "::UpdateCodeCount", nparams=1)
    out += r_atomic(F, S, fn0)
    eng = Engine(F, S)
    eng.analyze(fn0, frozenset())
    fn = counting_function(F, fn0)     # (facts at its stores are those of the context UpdateCodeCount calls it in)
    stores = sorted([nd for nd in fn.nodes if is_store(nd) and "subtreeCount" in repr(fn.term(fn.kids(nd["id"])[0]))], key=lambda n: n["id"])
    if not stores:
        # the counting may have been moved into a helper / lambda the function calls: then the refusal and the store travel
        # together, and what matters is R-ATOMIC above (a later call must not be able to refuse after an earlier call counted)
        if any(o.status == "violated" for o in out):
            return out
        raise AnalysisBroken("UpdateCodeCount: no count store found")
    site = final_site_facts(eng, fn, stores[0]["id"]) or set()
    rec = F.record(AH)
    fld = [f for f in rec["fields"] if f["name"] == "subtreeCount"][0]
    # element width of the counters
    iw = 16
    import re
    m = re.search(r"std::vector<([^,>]+)", fld.get("ct") or "")
    widths = {"unsigned short": 16, "unsigned int": 32, "unsigned char": 8, "unsigned long": 64}
    if m and m.group(1).strip() in widths:
        iw = widths[m.group(1).strip()]
    cmax = (1 << iw) - 1
    # the root's position is whatever the public accessor reports (a stored member, or an expression such as nodeCount - 1)
    root = ("idx", ("mem", ("this",), "subtreeCount"), F.method_value(AH + "::GetRootNodeIndex", ("this",)))
    def refusal(f):
        return (f[0] == "!=" and root in (f[1], f[2]) and ("const", cmax) in (f[1], f[2])) or \
            (f[0] == "<" and f[1] == root and f[2] == ("const", cmax))
    # the fact itself, or (when the first store sits in a loop whose later iterations have changed the counts) the
    # un-killable record that the refusal was passed on every path into the loop
    good = any(refusal(f) or (f[0] == "ev" and f[1] == "passed" and refusal(f[2])) for f in site)
    inst = AH + "::UpdateCodeCount#capacity"
    req = "the update that would wrap the %d-bit counters (root count == %d) is refused before the first count is changed" % (iw, cmax)
    if good:
        out.append(ok("R-MUSTCALL", inst, fn.loc(stores[0]["id"]), fn.qn, req, "refusal on the root count dominates the first store"))
    else:
        near = [fmt_fact(f) for f in site if "subtreeCount" in repr(f)]
        out.append(bad("R-MUSTCALL", inst, fn.loc(stores[0]["id"]), fn.qn, req,
                       "no refusal of root count == %d before the first store%s" % (cmax, ("; found instead: " + "; ".join(near)) if near else "")))
    return out


def root_counted(F, S):
    """Every update counts the root: the walk ends on the root (cur == rootNodeIndex at every normal exit) and the node
    the walk ends on has had its count incremented since `cur` last changed. A must-dataflow over the CFG of one flag
    ("subtreeCount[cur] was incremented and cur has not been reassigned since"); it does not depend on the loop's form."""
    from ..flow import CFG
    fn = counting_function(F, F.fn(AH + "::UpdateCodeCount", nparams=1))
    eng = Engine(F, S)
    ex = eng.analyze(fn, frozenset()) or frozenset()
    root = F.method_value(AH + "::GetRootNodeIndex", ("this",))
    # (a local that is never assigned after its declaration merely names the root's position: it is not the walk's cursor)
    assigned = set()
    for nd0 in fn.nodes:
        if is_store(nd0) or (nd0["k"] == "UnaryOperator" and nd0.get("op") in ("++", "--")):
            assigned.add(fn.term(fn.kids(nd0["id"])[0]))
    same = {root}
    for _ in range(3):
        for f in ex:
            if f[0] == "==" and (f[1] in same or f[2] in same):
                same |= {f[1], f[2]}
    curs = sorted(c for c in same if c[0] == "var" and c in assigned)
    inst = AH + "::UpdateCodeCount#root-counted"
    req = "the walk ends on the root and the root's count is incremented by every update (it is the total the capacity refusal reads)"
    if not curs:
        return [bad("R-SEQ", inst, fn.loc(fn.body), fn.qn, req, "no local is known to equal rootNodeIndex at the normal exit")]
    cur = curs[0]
    g = CFG(fn)

    def transfer(b, st):
        for e in g.blocks[b]["elems"]:
            nid = e if isinstance(e, int) else e.get("init")
            nd = fn.n(nid)
            if nd["k"] == "UnaryOperator" and nd.get("op") in ("++",) or (nd["k"] == "CompoundAssignOperator" and nd.get("op") == "+="):
                t = fn.term(fn.kids(nid)[0])
                if t == ("idx", ("mem", ("this",), "subtreeCount"), cur):
                    st = True
                elif t == cur:
                    st = False
            elif nd["k"] == "BinaryOperator" and nd.get("op") == "=" and fn.term(fn.kids(nid)[0]) == cur:
                st = False
            elif nd["k"] in CALLS and len(nd.get("args", [])) >= 1 and any(fn.term(a) == cur for a in nd["args"]) and counts_its_argument(nd):
                st = True
            elif nd["k"] == "DeclStmt" and any(("var", d.get("n"), d.get("d")) == cur for d in nd.get("decls", [])):
                st = False
        return st
    def counts_its_argument(call):
        # a helper / lambda that increments subtreeCount[<its parameter>]
        for h in F.callees(call):
            if not h.cfg:
                continue
            for i, p in enumerate(h.params):
                if i < len(call["args"]) - (1 if call["k"] == "CXXOperatorCallExpr" else 0) + (1 if call["k"] == "CXXOperatorCallExpr" else 0):
                    pv = ("var", p["n"], p["d"])
                    for x in h.nodes:
                        if x["k"] == "UnaryOperator" and x.get("op") == "++" and h.term(h.kids(x["id"])[0]) == ("idx", ("mem", ("this",), "subtreeCount"), pv):
                            return True
        return False
    IN = {g.entry: False}
    OUT = {}
    changed = True
    rounds = 0
    while changed and rounds < 50:
        changed = False
        rounds += 1
        for b in g.order:
            ps = [p for p in g.pred[b] if p in OUT and p not in g.throws]
            if b != g.entry:
                if not ps:
                    continue
                new_in = all(OUT[p] for p in ps)
            else:
                new_in = False
            o = transfer(b, new_in)
            if IN.get(b) != new_in or OUT.get(b) != o:
                IN[b], OUT[b] = new_in, o
                changed = True
    exits = [p for p in g.pred[g.exit] if p in OUT and p not in g.throws]
    if exits and all(OUT[p] for p in exits):
        return [ok("R-SEQ", inst, fn.loc(fn.body), fn.qn, req, "%s == rootNodeIndex at exit, and subtreeCount[%s] was incremented after its last assignment on every returning path" % (cur[1], cur[1]))]
    return [bad("R-SEQ", inst, fn.loc(fn.body), fn.qn, req,
                "on some returning path %s is reassigned after the last increment of subtreeCount[%s]: the node the walk ends on (the root) is not counted" % (cur[1], cur[1]))]


def domain_params(fn):
    """Parameters declared with the tree's own index / symbol typedefs (typedef sugar kept by the extractor)."""
    out = []
    for i, p in enumerate(fn.params):
        td = (p.get("td") or p.get("t") or "")
        if td.endswith("NodeIndex"):
            out.append((i, "index"))
        elif td.endswith("NodeData"):
            out.append((i, "symbol"))
    return out


def direct_mention(t, a):
    """`a` occurs in value term t outside any table lookup (a value read out of a table is table-derived, not argument-derived)."""
    if t == a:
        return True
    if not isinstance(t, tuple) or not t:
        return False
    if t[0] in ("idx", "call"):
        return False
    return any(direct_mention(x, a) for x in t[1:] if isinstance(x, tuple))


def verifiers_first(F, S, inv):
    """Every public operation, and every helper that is handed a symbol, refuses an out-of-range node position / symbol
    before it subscripts a table with it. Independent of how the refusal is packaged (a verifier call, an inline test, a
    lookup helper): what is required is that the subscript's bound is entailed where the subscript happens, that the
    refusal, where it is a function of its own, refuses exactly the out-of-range values, and that no conversion on the
    way can change the value that is tested."""
    from ..prove import definitions, expand
    from ..rules_narrow import r_narrow
    out = []
    rec = F.record(AH)
    access = {m["key"]: m["access"] for m in rec["methods"]}
    total = 0
    ops = []
    ctx_eng = None
    for fn in sorted(F.functions.values(), key=lambda f: f.key):
        if fn.cls != AH or not fn.cfg or fn.d.get("ctor") or fn.d.get("implicit"):
            continue
        dps = domain_params(fn)
        if not dps:
            continue
        pub = access.get(fn.key) == "public"
        if not pub and not any(kind == "symbol" for _, kind in dps):
            continue            # private helpers on node positions (SwapNodes): their callers' positions come from the tables
        ops.append(fn)
        if pub:
            eng = Engine(F, S)
            eng.analyze(fn, frozenset(inv))
        else:
            # a private helper cannot be called from outside: it is judged in the contexts the public operations call it in
            if ctx_eng is None:
                ctx_eng = Engine(F, S)
                for pf in sorted(F.functions.values(), key=lambda f: f.key):
                    if pf.cls == AH and pf.cfg and not pf.d.get("ctor") and not pf.d.get("implicit") and access.get(pf.key) == "public":
                        ctx_eng.analyze(pf, frozenset(inv))
            eng = ctx_eng
        n = 0
        for (nd, base, idx, ext) in subscript_sites(fn):
            site = final_site_facts(eng, fn, nd["id"])
            if site is None:
                if pub:
                    site = set()
                else:
                    continue        # not reached from any public operation
            idx_x = expand(idx, definitions(site))
            args = [P(fn, i) for i, _ in dps]
            if not any(direct_mention(idx, a) or direct_mention(idx_x, a) for a in args):
                continue
            n += 1
            inst = "%s::%s#%s[%s]" % (AH, fn.name, fmt_term(base), fmt_term(idx))
            req = "%s < %s.size() at the subscript (out-of-range argument refused first; table sizes fixed by the constructor)" % (fmt_term(idx), fmt_term(base))
            if prove_le(site, idx, ("size", base), strict=True):
                out.append(ok("R-INDEX", inst, fn.loc(nd["id"]), fn.qn, req, "bound entailed by the dominating refusal and the class invariants"))
            else:
                out.append(bad("R-INDEX", inst, fn.loc(nd["id"]), fn.qn, req, "facts: %s" % facts_txt(site)))
        total += n
        if pub and fn.name != "UpdateCodeCount":
            out += r_atomic(F, S, fn)
        # conversions of the argument (or of values computed from it) that may change its value
        o2, _ = r_narrow(F, S, fn, entry=frozenset(inv), explicit_only=False, sign_conversions=False)
        args = [P(fn, i) for i, _ in dps]
        from ..rules_narrow import narrowing_sites, value_term
        direct = set()
        for (nid, src, cap, desc) in narrowing_sites(fn, False, False):
            t = value_term(fn, src)
            if any(direct_mention(t, a) for a in args):
                direct.add("#narrow:" + fmt_term(t))
        for o in o2:
            if "accumulation in" in o.required:
                continue
            if any(o.instance.endswith(d) for d in direct):
                out.append(o)
    # refusal functions (a void helper whose only effect is to throw): exactness
    nver = 0
    for fn in sorted(F.functions.values(), key=lambda f: f.key):
        if fn.cls != AH or not fn.cfg or fn.d.get("ctor") or len(fn.params) != 1 or (fn.d.get("ret_ct") or "void") != "void":
            continue
        dps = domain_params(fn)
        if not dps or S.writes(fn):
            continue
        lim = "nodeCount" if dps[0][1] == "index" else "terminalNodeCount"
        out += r_guard_exact(F, Engine(F, S), fn, [(P(fn, 0), ("mem", ("this",), lim), True)])
        nver += 1
    # the public operations on a node position refuse nothing but positions outside the tree (a position is valid whatever
    # the node there currently holds: leaves and inner nodes trade places as the tree adapts)
    for fn in ops:
        dpi = [i for i, kind in domain_params(fn) if kind == "index"]
        if not dpi or access.get(fn.key) != "public":
            continue
        out += r_guard_exact(F, Engine(F, S), fn, [(P(fn, dpi[0]), ("mem", ("this",), "nodeCount"), True)], optional=True, no_other=True)
    # the symbol refusal itself, wherever it lives: at the first table access of every operation on a symbol, the symbol
    # is known to be below terminalNodeCount
    for fn in ops:
        dps = [i for i, kind in domain_params(fn) if kind == "symbol"]
        if not dps or access.get(fn.key) != "public":
            continue
        code = P(fn, dps[0])
        eng = Engine(F, S)
        eng.analyze(fn, frozenset(inv))
        first = None
        for nd in fn.nodes:
            if (nd["k"] == "CXXOperatorCallExpr" and nd.get("op") == "[]") or is_store(nd):
                if final_site_facts(eng, fn, nd["id"]) is not None:
                    first = nd
                    break
        inst = "%s::%s#symbol-refused-first" % (AH, fn.name)
        req = "symbol < terminalNodeCount is established before the first table access or store"
        if first is None:
            raise AnalysisBroken("%s: no table access found" % fn.qn)
        site = final_site_facts(eng, fn, first["id"]) or set()
        if prove_le(site, code, ("mem", ("this",), "terminalNodeCount"), strict=True):
            out.append(ok("R-MUSTCALL", inst, fn.loc(first["id"]), fn.qn, req, "entailed at %s" % fn.loc(first["id"])))
        else:
            out.append(bad("R-MUSTCALL", inst, fn.loc(first["id"]), fn.qn, req, "facts: %s" % facts_txt(site)))
        # a signed symbol type has values below 0 as well: they must be refused too (an unsigned type has none)
        prm = fn.params[dps[0]]
        inst2 = "%s::%s#symbol-not-negative" % (AH, fn.name)
        req2 = "a negative symbol is refused before the first table access (only needed when the symbol type is signed)"
        if not prm.get("is"):
            out.append(ok("R-MUSTCALL", inst2, fn.loc(first["id"]), fn.qn, req2, "symbol type %s is unsigned" % prm.get("ct"), nontrivial=False))
        elif any((f[0] == "<=" and f[1][0] == "const" and f[1][1] >= 0 and f[2] == code) or
                 (f[0] == "<" and f[1][0] == "const" and f[1][1] >= -1 and f[2] == code) for f in site):
            # (an explicit fact is required: the entailment engine treats atoms as non-negative quantities)
            out.append(ok("R-MUSTCALL", inst2, fn.loc(first["id"]), fn.qn, req2, "0 <= symbol entailed"))
        else:
            out.append(bad("R-MUSTCALL", inst2, fn.loc(first["id"]), fn.qn, req2,
                           "the symbol type is %s (signed): `symbol >= terminalNodeCount` alone lets negative symbols through, which index the table below the leaves" % prm.get("ct")))
    return out, total


def path_accumulator(F, S):
    """GetEncodedBitString: the path is accumulated by shifting; no step of the accumulation is stored through a conversion
    that drops high bits, and the accumulator is as wide as the result the function declares."""
    fn = F.fn(AH + "::GetEncodedBitString", nparams=2)
    out = []
    n = 0
    retw = fn.d.get("ret_iw")
    for nd in fn.nodes:
        if not (nd["k"] in ("BinaryOperator", "CompoundAssignOperator") and nd.get("op") in ("=", "<<=", "|=")):
            continue
        ks = fn.kids(nd["id"])
        sub = set(fn.subtree(ks[1])) | {nd["id"]}
        if not any(fn.n(x).get("op") in ("<<", "<<=") for x in sub if fn.n(x)["k"] in ("BinaryOperator", "CompoundAssignOperator")):
            continue
        n += 1
        l = fn.n(fn.strip(ks[0], casts=False))
        lw = l.get("iw")
        inst = "%s#accumulate:%s" % (fn.qn, fmt_term(fn.term(ks[0])))
        req = "the shifted path is stored without dropping high bits and the accumulator is as wide as the declared result (%s bits)" % retw
        rhs = fn.n(ks[1])
        inner = ks[1]
        while fn.n(inner)["k"] == "ImplicitCastExpr" and fn.kids(inner):
            inner = fn.kids(inner)[0]
        iw_in = fn.n(inner).get("iw")
        narrowed = rhs["k"] == "ImplicitCastExpr" and rhs.get("iw") and iw_in and rhs["iw"] < iw_in
        if narrowed or (lw and retw and lw < retw):
            out.append(bad("R-NARROW", inst, fn.loc(nd["id"]), fn.qn, req,
                           "accumulator is %s bits wide%s" % (lw, "; the shifted value (%s bits) is converted back on every step" % iw_in if narrowed else "")))
        else:
            out.append(ok("R-NARROW", inst, fn.loc(nd["id"]), fn.qn, req, "accumulator %s bits, no narrowing store" % lw))
    if n == 0:
        raise AnalysisBroken("GetEncodedBitString: no shift accumulation found")
    return out


def units(F, S):
    """R-UNITS: a symbol (NodeData) becomes a node index only through the code->leaf map parentIndex[code + nodeCount]."""
    out = []
    n = 0
    for name, np_ in (("UpdateCodeCount", 1), ("GetEncodedBitString", 2)):
        fn = F.fn(AH + "::" + name, nparams=np_)
        code = P(fn, 0)
        want = ("idx", ("mem", ("this",), "parentIndex"), ("op", "+", code, ("mem", ("this",), "nodeCount")))
        want2 = ("idx", ("mem", ("this",), "parentIndex"), ("op", "+", ("mem", ("this",), "nodeCount"), code))
        # locals that hold a node position: declared NodeIndex, or (whatever integer type they are given) used to subscript
        # the per-node tables
        positions = set()
        for (_nd, base, idx, _ext) in subscript_sites(fn):
            if base in (("mem", ("this",), "subtreeCount"), ("mem", ("this",), "linkOrData")) and idx[0] == "var":
                positions.add(idx)
        for nd in fn.nodes:
            if nd["k"] == "DeclStmt":
                for d in nd.get("decls", []):
                    if "init" in d and "d" in d and ((d.get("td") or "").endswith("NodeIndex") or (d.get("iw") and ("var", d["n"], d["d"]) in positions)):
                        it = fn.xterm(d["init"])
                        if not mentions(it, code):
                            continue
                        n += 1
                        inst = "%s::%s#code-to-leaf:%s" % (AH, name, d["n"])
                        req = "the node index for a symbol is looked up through parentIndex[code + nodeCount] (the leaf that currently holds it)"
                        if it[0] == "call" and it[2] in (("this",), None) and len(it[3]) == 1 and it[3][0] == code:
                            # a lookup helper: what it returns, with the symbol substituted for its parameter
                            from ..flow import substitute
                            cands = [c for c in F.fns(it[1]) if c.cfg and len(c.params) == 1]
                            rs = [c.term(r["value"]) for c in cands for r in returns(c)]
                            if len(cands) == 1 and rs:
                                sub = {substitute(r, {P(cands[0], 0): code}) for r in rs}
                                if len(sub) == 1:
                                    it = sub.pop()
                        if it in (want, want2):
                            out.append(ok("R-UNITS", inst, fn.loc(nd["id"]), fn.qn, req, fmt_term(it)))
                        else:
                            out.append(bad("R-UNITS", inst, fn.loc(nd["id"]), fn.qn, req,
                                           "NodeIndex %s is initialised from %s: a symbol value used as a node position (valid only until the first swap)" % (d["n"], fmt_term(it))))
        # ... or handed straight to a helper's node-position parameter (`Propagate(parentIndex[code + nodeCount])`)
        for nd in fn.nodes:
            if nd["k"] == "CXXMemberCallExpr" and "obj" in nd and fn.term(nd["obj"]) == ("this",):
                for cal in F.callees(nd):
                    for i, a in enumerate(nd.get("args", [])):
                        if i >= len(cal.params):
                            continue
                        pp = cal.params[i]
                        pv = ("var", pp["n"], pp["d"])
                        is_pos = (pp.get("td") or "").endswith("NodeIndex") or (pp.get("iw") and any(
                            b in (("mem", ("this",), "subtreeCount"), ("mem", ("this",), "linkOrData")) and ix == pv for (_n, b, ix, _e) in subscript_sites(cal)))
                        it = fn.xterm(a)
                        if not is_pos or not mentions(it, code):
                            continue
                        n += 1
                        inst = "%s::%s#code-to-leaf:arg%d:%s" % (AH, name, i, cal.name)
                        req = "the node index for a symbol is looked up through parentIndex[code + nodeCount] (the leaf that currently holds it)"
                        if it in (want, want2):
                            out.append(ok("R-UNITS", inst, fn.loc(nd["id"]), fn.qn, req, fmt_term(it)))
                        else:
                            out.append(bad("R-UNITS", inst, fn.loc(nd["id"]), fn.qn, req,
                                           "%s receives %s as a node position: a symbol value used as a node position (valid only until the first swap)" % (cal.name, fmt_term(it))))
    if n < 2:
        raise AnalysisBroken("R-UNITS: expected a NodeIndex local initialised from the symbol in UpdateCodeCount and GetEncodedBitString")
    # the reverse direction: leaf -> symbol is linkOrData[i] - nodeCount
    g = F.fn(AH + "::GetNodeData", nparams=1)
    r = returns(g)
    t = g.xterm(r[0]["value"]) if len(r) == 1 else None
    want = ("op", "-", ("idx", ("mem", ("this",), "linkOrData"), P(g, 0)), ("mem", ("this",), "nodeCount"))
    inst = AH + "::GetNodeData#leaf-to-code"
    if t == want:
        out.append(ok("R-UNITS", inst, g.loc(r[0]["id"]), g.qn, "a leaf's symbol is linkOrData[i] - nodeCount", fmt_term(t)))
    else:
        out.append(bad("R-UNITS", inst, g.loc(g.body), g.qn, "a leaf's symbol is linkOrData[i] - nodeCount", "returns %s" % (fmt_term(t) if t else "?")))
    return out


def link_or_data_split(F, S):
    """R-SIB: every test that tells links from data compares a linkOrData value with nodeCount using the same split
    (value < nodeCount <=> link, value >= nodeCount <=> data)."""
    out = []
    n = 0
    nc = ("mem", ("this",), "nodeCount")
    for fn in sorted(F.functions.values(), key=lambda f: f.key):
        if fn.cls != AH:
            continue
        from ..props.c05 import alias_defs, resolve
        defs = alias_defs(fn)
        # locals assigned (not only initialised) from linkOrData elements
        lod_vars = set()
        for nd in fn.nodes:
            if is_store(nd) and nd.get("op") == "=" and len(fn.kids(nd["id"])) == 2:
                l, r = fn.term(fn.kids(nd["id"])[0]), fn.term(fn.kids(nd["id"])[1])
                if l[0] == "var" and r[0] == "idx" and r[1] == ("mem", ("this",), "linkOrData"):
                    lod_vars.add(l)
            if nd["k"] == "DeclStmt":
                for d in nd.get("decls", []):
                    if "init" in d:
                        r = fn.term(d["init"])
                        if r[0] == "idx" and r[1] == ("mem", ("this",), "linkOrData"):
                            lod_vars.add(("var", d["n"], d["d"]))
        for nd in fn.nodes:
            cmp_ = None
            if nd["k"] == "BinaryOperator" and nd.get("op") in ("<", "<=", ">", ">="):
                ks = fn.kids(nd["id"])
                cmp_ = (nd["op"], fn.term(ks[0]), fn.term(ks[1]))
            elif nd["k"] in CALLS and nd["k"] != "CXXOperatorCallExpr":
                # a predicate helper that is just such a comparison (`IsLink(v)` for `v < nodeCount`), read at its call
                t0 = fn.term(nd["id"])
                if t0[0] == "op" and t0[1] in ("<", "<=", ">", ">="):
                    cmp_ = (t0[1], t0[2], t0[3])
            if cmp_ is not None:
                op, l, r = cmp_
                if r != nc and l == nc:
                    l, r = r, l
                    op = {"<": ">", ">": "<", "<=": ">=", ">=": "<="}[op]
                if r != nc:
                    continue
                is_lod = (l[0] == "idx" and l[1] == ("mem", ("this",), "linkOrData")) or l in lod_vars
                if not is_lod:
                    continue
                n += 1
                inst = "%s#link-data-split:%s" % (fn.qn, fmt_term(fn.term(nd["id"])))
                req = "links are the values < nodeCount and data the values >= nodeCount, in every test"
                if op in ("<", ">="):
                    out.append(ok("R-SIB", inst, fn.loc(nd["id"]), fn.qn, req, "`%s nodeCount`" % op))
                else:
                    out.append(bad("R-SIB", inst, fn.loc(nd["id"]), fn.qn, req, "`%s nodeCount` puts the value nodeCount (symbol 0's leaf) on the wrong side" % op))
    return out, n


def check(F, run, tier):
    S = Summaries(F)
    from ..rules_archive import discarded_exception_obligations
    discarded_exception_obligations(F, S, run)
    from ..rules_archive import noexcept_obligations
    noexcept_obligations(F, S, run)
    run.declined = DECLINED
    from ..rules_valid import verifier_arguments
    _va, _vn = verifier_arguments(F)
    run.add(_va)
    run.floor("verifier-arguments", _vn, 30)
    run.explanation = (
        "Static analysis of the adaptive Huffman tree's refusal and consistency clauses (the tree invariants themselves are "
        "declined). Decided: the capacity refusal (root count == maximum of the counters' element type) dominates the first "
        "count store and nothing is stored before any throw site (R-MUSTCALL, R-ATOMIC); every public operation passes its "
        "range verifier, which refuses exactly index >= nodeCount / symbol >= terminalNodeCount, before subscripting, and "
        "the parameter-derived subscripts are entailed in range together with class invariants derived from the "
        "constructor (table sizes; R-INDEX with linear combination of facts); a symbol becomes a node position only through "
        "the code->leaf map in both the update and the encoder (R-UNITS, typedef sugar NodeData/NodeIndex).")
    inv, notes = class_invariants(F, S, AH)
    run.extra["class_invariants"] = sorted(fmt_fact(f) for f in inv)
    run.add(capacity(F, S))
    run.add(root_counted(F, S))
    obs, n = verifiers_first(F, S, inv)
    run.add(obs)
    run.floor("argument-derived-subscripts", n, 4)
    from ..rules_narrow import r_narrow
    fx = [f for f in F.fixture_functions.values() if f.qn == "fixture::Codes::Find"]
    hit = False
    if fx:
        o, _ = r_narrow(F, S, fx[0], explicit_only=False, sign_conversions=False)
        hit = any(x.status == "violated" and "code" in x.instance for x in o)
    run.fixture("fixtures/raw_read.cpp: `uint16_t slot = code + count` before the range test is reported by R-NARROW", hit)
    run.add(units(F, S))
    run.add(path_accumulator(F, S))
    obs, n = link_or_data_split(F, S)
    run.add(obs)
    run.floor("link-data-tests", n, 2)
    run.floor("obligations", len(run.obligations), 15)

"""C05 — VOL/CLM readers and WAV intake are safe on arbitrary bytes."""
from ..extract import AnalysisBroken
from ..facts import CALLS, CTORS, fmt_term
from ..flow import CFG, Engine, Summaries, norm_cmp, final_site_facts, fmt_fact, substitute
from ..prove import prove_le
from ..report import ok, bad
from ..invariants import class_invariants
from ..rules_archive import r_index, raw_io_extents, loop_progress, r_fstream, facts_txt
from ..rules_stream import r_guard_exact, r_nowrap

AR = "OP2Utility::Archive::"
VOL, CLM, ARC = AR + "VolFile", AR + "ClmFile", AR + "ArchiveFile"
NS = "OP2Utility::Stream::"

DECLINED = [
    "absence of every out-of-bounds access and undefined operation in these readers (only the listed sink classes are decided)",
    "behaviour inside std:: (ifstream, vector, string) and resource exhaustion (a 4 GiB name table is an ordinary allocation failure)",
    "the header-consistency comparisons of ReadVolHeader (32-bit sums there can wrap, which only skips a sanity check: every "
    "read behind them is bounds-checked by the stream itself) and the 32-bit forward seek of ReadStringTable (D22: a seek past "
    "EOF, next read fails with an ordinary error)",
]


def alias_defs(fn):
    """local variable -> term it stands for (reference locals and never-reassigned value locals)."""
    from ..rules_stream import is_store
    stored = set()
    for nd in fn.nodes:
        if is_store(nd):
            stored.add(fn.term(fn.kids(nd["id"])[0]))
    # a by-value standard container / string that is modified in place (a mutating member is called on it, or its
    # begin()/end() are handed to a mutating algorithm) does not stand for its initialiser any more
    MUTATORS = ("push_back", "emplace_back", "append", "erase", "insert", "clear", "resize", "assign", "replace", "pop_back",
                "operator+=", "swap", "reserve")
    MUT_ALGOS = ("std::replace", "std::replace_if", "std::transform", "std::fill", "std::remove", "std::remove_if", "std::sort",
                 "std::reverse", "std::for_each", "std::generate", "std::unique", "std::rotate", "std::copy", "std::swap_ranges")
    for nd in fn.nodes:
        if nd["k"] in ("CXXMemberCallExpr", "CXXOperatorCallExpr") and (nd.get("mrec") or "").startswith("std::"):
            if nd["k"] == "CXXMemberCallExpr" and "obj" in nd and nd.get("fname") in MUTATORS:
                o = fn.term(nd["obj"])
                if o[0] == "var":
                    stored.add(o)
            if nd["k"] == "CXXOperatorCallExpr" and nd.get("op") in ("+=",) and nd.get("args"):
                o = fn.term(nd["args"][0])
                if o[0] == "var":
                    stored.add(o)
        if nd["k"] in ("CallExpr",) and (nd.get("fq") or "") in MUT_ALGOS:
            for a in nd.get("args", []):
                t = fn.term(a)
                if t[0] == "call" and t[1].split("::")[-1] in ("begin", "end") and t[2] is not None and t[2][0] == "var":
                    stored.add(t[2])
    out = {}
    for nd in fn.nodes:
        if nd["k"] == "DeclStmt":
            for d in nd.get("decls", []):
                if "init" in d and "d" in d:
                    v = ("var", d["n"], d["d"])
                    if v in stored:
                        continue
                    t = fn.term(d["init"])
                    if t[0] not in ("?", "lambda"):
                        out[v] = t
    return out


def mentions_term(t, sub):
    from ..flow import mentions
    return mentions(t, sub)


def resolve(t, defs):
    for _ in range(6):
        n = substitute(t, defs)
        if n == t:
            break
        t = n
    return t


def member_extents(F, S):
    """R-COPYEXT: member streams / extractions are slices of exactly the recorded extent."""
    out = []
    n = 0

    from ..through import find_calls

    def find_slice(fn, nargs):
        c = find_calls(F, fn, lambda nd: nd["k"] == "CXXMemberCallExpr" and nd.get("fname") == "Slice" and len(nd.get("args", [])) == nargs)
        if len(c) != 1:
            raise AnalysisBroken("%s: expected exactly one Slice/%d call (directly or in a helper), found %d" % (fn.qn, nargs, len(c)))
        return c[0]

    idx_t = lambda fn: ("var", fn.params[0]["n"], fn.params[0]["d"])
    # CLM: Slice(indexEntries[index].dataOffset, indexEntries[index].dataLength)
    for name in ("OpenStream", "ExtractFile"):
        fn = F.fn(CLM + "::" + name, nparams=1 if name == "OpenStream" else 2, pred=lambda f: "unsigned long" in f.key.split("(")[1])
        sl = find_slice(fn, 2)
        defs = alias_defs(fn)
        a = [resolve(x, defs) for x in sl.args()]
        ent = ("idx", ("mem", ("this",), "indexEntries"), idx_t(fn))
        n += 1
        inst = "%s::%s#extent" % (CLM, name)
        req = "the slice is (indexEntries[index].dataOffset, indexEntries[index].dataLength) of the archive's reader"
        if a == [("mem", ent, "dataOffset"), ("mem", ent, "dataLength")] and sl.obj() == ("mem", ("this",), "clmFileReader"):
            out.append(ok("R-COPYEXT", inst, sl.loc(), fn.qn, req, "Slice(%s, %s)" % (fmt_term(a[0]), fmt_term(a[1]))))
        else:
            out.append(bad("R-COPYEXT", inst, sl.loc(), fn.qn, req, "Slice(%s, %s) on %s" % (fmt_term(a[0]), fmt_term(a[1]), fmt_term(sl.obj()))))
    # VOL: header = GetSectionHeader(index) (seeks to the block and reads its header); stream = Slice(Position(), header.length)
    fn = F.fn(VOL + "::OpenStream", nparams=1, pred=lambda f: "unsigned long" in f.key.split("(")[1])
    sl = find_slice(fn, 2)
    defs = alias_defs(fn)
    a = [resolve(x, defs) for x in sl.args()]
    rd = ("mem", ("this",), "archiveFileReader")
    hdr = F.call_value(VOL + "::GetSectionHeader", ("this",), (idx_t(fn),))
    n += 1
    req = "the slice starts at the reader position left by GetSectionHeader(index) and has that header's length"
    good = sl.obj() == rd and a[0] == ("call", NS + "FileReader::Position", rd, ()) and a[1] == ("mem", hdr, "length")
    # no reader movement between GetSectionHeader and the slice
    moved = [nd for nd in fn.nodes if nd["k"] == "CXXMemberCallExpr" and "obj" in nd and fn.term(nd["obj"]) == rd
             and nd.get("fname") in ("Seek", "SeekForward", "SeekBackward", "Read", "ReadPartial")]
    if good and not moved:
        out.append(ok("R-COPYEXT", VOL + "::OpenStream#extent", sl.loc(), fn.qn, req, "Slice(Position(), GetSectionHeader(index).length)"))
    else:
        out.append(bad("R-COPYEXT", VOL + "::OpenStream#extent", sl.loc(), fn.qn, req,
                       "Slice(%s, %s)%s" % (fmt_term(a[0]), fmt_term(a[1]), "; reader is moved in between" if moved else "")))
    fn = F.fn(VOL + "::ExtractFileUncompressed", nparams=2)
    sl = find_slice(fn, 1)
    defs = alias_defs(fn)
    a = [resolve(x, defs) for x in sl.args()]
    hdr = F.call_value(VOL + "::GetSectionHeader", ("this",), (idx_t(fn),))
    n += 1
    req = "the extracted slice starts at the position left by GetSectionHeader(index) and has that header's length"
    wr = [nd for nd in fn.nodes if nd["k"] == "CXXMemberCallExpr" and nd.get("fname") == "Write"]
    src_ok = False
    for w in wr:
        t = resolve(fn.term(w["args"][0]), {})
        if t[0] == "var":
            src_ok = src_ok or defs.get(t) == fn.term(sl.outer_id())
    if sl.obj() == rd and a[0] == ("mem", hdr, "length") and src_ok:
        out.append(ok("R-COPYEXT", VOL + "::ExtractFileUncompressed#extent", sl.loc(), fn.qn, req, "Slice(GetSectionHeader(index).length) is what is copied"))
    else:
        out.append(bad("R-COPYEXT", VOL + "::ExtractFileUncompressed#extent", sl.loc(), fn.qn, req, "Slice(%s); copied source matches: %s" % (fmt_term(a[0]), src_ok)))
    # GetSectionHeader: absolute seek to the recorded block offset precedes the header read, tag is compared
    fn0 = F.fn(VOL + "::GetSectionHeader", nparams=1)
    eng = Engine(F, S)
    eng.analyze(fn0, frozenset())
    # the block-header read, in GetSectionHeader or in a helper of the class it was split into (judged with what is known
    # where it is reached from GetSectionHeader)
    from ..through import closure
    cands = [(f_, nd) for f_ in closure(F, fn0, depth=2) for nd in f_.nodes
             if nd["k"] == "CXXMemberCallExpr" and nd.get("fname") == "Read" and "obj" in nd and f_.term(nd["obj"]) == rd
             and final_site_facts(eng, f_, nd["id"]) is not None]
    if len(cands) != 1:
        raise AnalysisBroken("GetSectionHeader: expected one Read on archiveFileReader")
    fn, rd0 = cands[0]
    reads = [rd0]
    site = final_site_facts(eng, fn, reads[0]["id"]) or set()
    # (when the read sits in a helper, the helper's parameters stand for what GetSectionHeader hands it)
    hsub = {}
    if fn.key != fn0.key:
        for cnd in fn0.nodes:
            if cnd["k"] in CALLS and any(c_.key == fn.key for c_ in F.callees(cnd)):
                for p_, a_ in zip(fn.params, cnd.get("args", [])):
                    t_ = fn0.term(a_)
                    for _ in range(4):
                        t2_ = fn0.through_locals_at(t_, cnd["id"])
                        if t2_ == t_:
                            break
                        t_ = t2_
                    hsub[("var", p_["n"], p_["d"])] = t_
    want = ("called", NS + "FileReader::Seek", (("mem", ("idx", ("mem", ("this",), "m_IndexEntries"), idx_t(fn0)), "dataBlockOffset"),))
    n += 1
    req = "an absolute Seek(m_IndexEntries[index].dataBlockOffset) dominates the block-header read"
    def _res(t):
        for _ in range(4):
            t2 = fn.through_locals_at(t, reads[0]["id"])
            if t2 == t:
                break
            t = t2
        return t
    from ..flow import substitute as _subst
    seek_ok = want in site or any(f[0] == "called" and f[1] == want[1] and len(f[2]) == 1 and
                                  (_res(f[2][0]) == want[2][0] or (hsub and _subst(_res(f[2][0]), hsub) == want[2][0])) for f in site)
    if seek_ok:
        out.append(ok("R-MUSTCALL", VOL + "::GetSectionHeader#seek-first", fn.loc(reads[0]["id"]), fn.qn, req, "seek dominates read"))
    else:
        out.append(bad("R-MUSTCALL", VOL + "::GetSectionHeader#seek-first", fn.loc(reads[0]["id"]), fn.qn, req,
                       "calls passed before the read: " + ", ".join(sorted(fmt_fact(f) for f in site if f[0] == "called")) or "none"))
    ex = eng.analyze(fn0, frozenset())
    n += 1
    tagok = ex is not None and any(f[0] == "ev" and f[1] == "passed" and "TagVBLK" in str(f) for f in ex)
    if tagok:
        out.append(ok("R-MUSTCALL", VOL + "::GetSectionHeader#tag", fn.loc(fn.body), fn.qn, "the block tag is compared with 'VBLK' on every returning path", "refusal dominates the return"))
    else:
        out.append(bad("R-MUSTCALL", VOL + "::GetSectionHeader#tag", fn.loc(fn.body), fn.qn, "the block tag is compared with 'VBLK' on every returning path", "no such refusal on some returning path"))
    # optional guards on the member path must be exact when present: the block header [off, off + 8) lies in the file
    # iff off + 8 <= file size; a slice [s, s + n) lies in its source iff s + n <= source length
    gs = F.fn(VOL + "::GetSectionHeader", nparams=1)
    off = ("mem", ("idx", ("mem", ("this",), "m_IndexEntries"), idx_t(gs)), "dataBlockOffset")
    for sz in (("mem", ("this",), "m_ArchiveFileSize"), ("call", NS + "FileReader::Length", ("mem", ("this",), "archiveFileReader"), ())):
        out += r_guard_exact(F, Engine(F, S), gs, [(("op", "+", off, ("const", 8)), sz)], optional=True)
    SR = NS + "SliceReader<OP2Utility::Stream::FileReader>"
    ini = F.fn(SR + "::Initialize", nparams=0)
    inv_slice, _ = class_invariants(F, S, SR)
    out += r_guard_exact(F, Engine(F, S), ini, [(("op", "+", ("mem", ("this",), "startingOffset"), ("mem", ("this",), "sliceLength")),
                                                   ("call", NS + "FileReader::Length", ("mem", ("this",), "wrappedStream"), ()))], invariants=inv_slice)
    return out, n


PER_MEMBER = [
    (VOL, "GetName", 1), (VOL, "GetCompressionCode", 1), (VOL, "GetSize", 1), (VOL, "ExtractFile", 2), (VOL, "OpenStream", 1),
    (CLM, "GetName", 1), (CLM, "GetSize", 1), (CLM, "ExtractFile", 2), (CLM, "OpenStream", 1),
]


def per_member_verified(F, S):
    """Every per-member call passes VerifyIndexInBounds(index) before it returns or touches a table."""
    out = []
    n = 0
    for cls, name, np_ in PER_MEMBER:
        fn = F.fn(cls + "::" + name, nparams=np_, pred=lambda f: "unsigned long" in f.key.split("(")[1].split(",")[0])
        eng = Engine(F, S)
        ex = eng.analyze(fn, frozenset())
        n += 1
        idx = ("var", fn.params[0]["n"], fn.params[0]["d"])
        want = ("called", ARC + "::VerifyIndexInBounds", (idx,))
        inst = "%s::%s#verify-index" % (cls, name)
        req = "index < m_Count is established on every returning path (VerifyIndexInBounds(index) or an equivalent refusal)"
        if ex is not None and (want in ex or prove_le(set(ex), idx, ("mem", ("this",), "m_Count"), strict=True)):
            out.append(ok("R-MUSTCALL", inst, fn.loc(fn.body), fn.qn, req, "on every path to the normal exit"))
        else:
            out.append(bad("R-MUSTCALL", inst, fn.loc(fn.body), fn.qn, req, "a returning path does not establish it"))
    return out, n


def check(F, run, tier):
    S = Summaries(F)
    from ..rules_archive import find_position_obligations
    find_position_obligations(F, S, run, ["/Archive/"])
    from ..rules_archive import clamp_obligations
    clamp_obligations(F, S, run, ["/Archive/"])
    from ..rules_archive import discarded_exception_obligations
    discarded_exception_obligations(F, S, run)
    from ..rules_archive import cstring_obligations
    cstring_obligations(F, S, run)
    from ..rules_archive import handlers_rethrow
    _oh, _nh = handlers_rethrow(F, S, ["/src/"])
    run.add(_oh)
    run.floor("exception-handlers", _nh, 7)
    from ..rules_archive import noexcept_obligations
    noexcept_obligations(F, S, run)
    run.declined = DECLINED
    from ..rules_valid import verifier_arguments
    _va, _vn = verifier_arguments(F)
    run.add(_va)
    run.floor("verifier-arguments", _vn, 30)
    run.explanation = (
        "Static analysis of the archive readers. Decided: R-INDEX (every subscript of an archive table reachable from a "
        "public entry point is entailed to be < size() by guard facts plus class invariants that are themselves derived "
        "from the constructors: m_Count <= m_IndexEntryCount <= m_IndexEntries.size(), m_Count <= m_StringTable.size(), "
        "m_Count == indexEntries.size()), R-MUSTCALL (every per-member call passes VerifyIndexInBounds; the block header "
        "read is preceded by an absolute seek and followed by the tag refusal), R-GUARD (the index verifier refuses "
        "exactly index >= count), R-TAINT (raw (pointer,size) reads are bounded by the addressed extent; chunk-walk "
        "cursor updates cannot wrap), R-COPYEXT (member streams and extractions are slices of exactly the recorded "
        "extent, created through the bounds-checking slice constructor), R-FSTREAM (a failed read clears the shared "
        "stream's error flags on every exit).")
    inv_vol, notes_v = class_invariants(F, S, VOL)
    inv_clm, notes_c = class_invariants(F, S, CLM)
    run.extra["class_invariants"] = {"VolFile": sorted(fmt_fact(f) for f in inv_vol), "ClmFile": sorted(fmt_fact(f) for f in inv_clm)}

    total = 0
    for cls, inv in ((VOL, inv_vol), (CLM, inv_clm)):
        # member tables and local buffers alike (a scratch buffer sized by one header field and walked up to another)
        obs, n, eng = r_index(F, S, cls, inv, only_members=False)
        run.add(obs)
        total += n
    run.floor("R-INDEX", total, 13)
    # no division or remainder by a value that nothing keeps from being zero (header fields come from the file); none exists
    # on the reviewed tree, so the positive fixture shows the rule can fire
    from . import imgcommon as ic
    o_, _n = ic.divisors_nonzero(F, S, ["/Archive/"])
    run.add(o_)
    fxd = [f for f in F.fixture_functions.values() if f.qn == "fixture::RowsThatFit"]
    hitd = bool(fxd) and any(x.status == "violated" for x in ic.divisors_nonzero(F, S, [], functions=fxd)[0])
    run.fixture("fixtures/raw_read.cpp: totalBytes / rowBytesFromFile with nothing excluding zero is reported by R-TAINT(divisor)", hitd)
    # fixture: an unguarded subscript must be reported
    fx = [f for f in F.fixture_functions.values() if f.qn == "fixture::Table::Get"]
    hit = False
    if fx:
        from ..rules_archive import subscript_sites
        eng = Engine(F, S)
        eng.analyze(fx[0], frozenset())
        for (nd, base, idx, ext) in subscript_sites(fx[0]):
            site = final_site_facts(eng, fx[0], nd["id"]) or set()
            hit = hit or not prove_le(site, idx, ("size", base), strict=True)
    run.fixture("fixtures/raw_read.cpp: unguarded items[index] is reported by R-INDEX", hit)

    obs, n = per_member_verified(F, S)
    run.add(obs)
    run.floor("per-member", n, 9)

    v = F.fn(ARC + "::VerifyIndexInBounds", nparams=1)
    run.add(r_guard_exact(F, Engine(F, S), v, [(("var", v.params[0]["n"], v.params[0]["d"]), ("mem", ("this",), "m_Count"), True)]))

    obs, n = member_extents(F, S)
    run.add(obs)
    run.floor("R-COPYEXT", n, 6)

    readers = [F.fn(VOL + "::" + x, nparams=k) for x, k in (("ReadVolHeader", 0), ("ReadStringTable", 0), ("ReadTag", 1), ("GetSectionHeader", 1),
                                                           ("ExtractFileLzh", 2), ("ExtractFileUncompressed", 2))]
    readers += [F.fn(CLM + "::" + x, nparams=k) for x, k in (("ReadHeader", 0), ("ReadAllWaveHeaders", 3), ("FindChunk", 2))]
    readers += [f for f in F.fns(NS + "Reader::Read") if len(f.params) == 1 and "basic_string" in f.key]
    obs, n = raw_io_extents(F, S, readers, "Read")
    run.add(obs)
    obs2, n2 = raw_io_extents(F, S, [F.fn(VOL + "::ExtractFileLzh", nparams=2)], "Write")
    run.add(obs2)
    run.floor("raw-io", n + n2, 2)
    fx = [f for f in F.fixture_functions.values() if f.qn == "fixture::RawReadIntoVector"]
    hit = False
    if fx:
        o, _ = raw_io_extents(F, S, fx, "Read")
        hit = any(x.status == "violated" for x in o)
    run.fixture("fixtures/raw_read.cpp: Read(entries.data(), lengthFromFile) is reported by R-TAINT", hit)

    obs, n = loop_progress(F, S, F.fn(CLM + "::FindChunk", nparams=2))
    run.add(obs)
    run.floor("loop-progress", n, 1)

    for nm in ("ReadImplementation", "ReadPartial"):
        run.add(r_fstream(F, S, F.fn(NS + "FileReader::" + nm, nparams=2)))

    # the member streams are created by the slice constructor, whose containment check cannot wrap (shared with C13)
    SR = NS + "SliceReader<OP2Utility::Stream::FileReader>"
    inv_slice, _ = class_invariants(F, S, SR)
    for nm in ("Initialize",):
        o, g = r_nowrap(F, Engine(F, S), F.fn(SR + "::" + nm, nparams=0), invariants=inv_slice)
        run.add(o)
    for c in F.fns(SR + "::SliceReader"):
        if not c.d.get("copy_ctor"):
            o, g = r_nowrap(F, Engine(F, S), c)
            run.add(o)

"""C03 — CLM pack, reopen, extract preserves every track's audio data and format."""
from ..extract import AnalysisBroken
from ..facts import CALLS, CTORS, fmt_term
from ..flow import Engine, Summaries, final_site_facts, fmt_fact
from ..report import ok, bad
from ..rules_acct import clm_accounting
from ..rules_archive import loop_progress
from ..rules_init import r_init_local
from ..rules_layout import r_layout
from ..rules_sib import P, returns
from .seqdefs import seq_obligations
from . import c05, c18, c19, c20

AR = "OP2Utility::Archive::"
CLM = AR + "ClmFile"
NS = "OP2Utility::Stream::"

DECLINED = [
    "equality of the stored / streamed / extracted audio bytes and of the reported lengths with the source chunk (values)",
    "WAV intake details inside the RIFF walk beyond: tag checks, termination of the walk, the format read being 18 bytes into an 18-byte slot",
]


def refusals_before_write(F, S):
    out = []
    ca = F.fn(CLM + "::CreateArchive", nparams=2)
    eng = Engine(F, S)
    eng.analyze(ca, frozenset())
    wa = [nd for nd in ca.nodes if nd["k"] in CALLS and nd.get("fname") == "WriteArchive"]
    if len(wa) != 1:
        raise AnalysisBroken("ClmFile::CreateArchive: WriteArchive call not found")
    site = final_site_facts(eng, ca, wa[0]["id"]) or set()
    for q, what in ((CLM + "::ReadAllWaveHeaders", "every input is checked to be a RIFF/WAVE file with a format and a data chunk"),
                    (CLM + "::CompareWaveFormats", "inputs with differing sample formats are refused"),
                    (AR + "ArchiveFile::VerifySortedContainerHasNoDuplicateNames", "duplicate names are refused")):
        inst = "%s::CreateArchive#before-write:%s" % (CLM, q.split("::")[-1])
        from ..rules_valid import validated
        if validated(F, ca, site, q):
            out.append(ok("R-ORDER", inst, ca.loc(wa[0]["id"]), ca.qn, what + " before the archive file is created", "dominates WriteArchive"))
        else:
            out.append(bad("R-ORDER", inst, ca.loc(wa[0]["id"]), ca.qn, what + " before the archive file is created", "does not dominate WriteArchive"))
    # the only FileWriter on this path is in WriteArchive
    fw = []
    for q in ("CreateArchive", "ReadAllWaveHeaders", "CompareWaveFormats", "FindChunk", "PrepareIndex"):
        for fn in F.fns(CLM + "::" + q):
            fw += [(fn, nd) for nd in fn.nodes if nd["k"] in CTORS and (nd.get("ctor_rec") or "").endswith("Stream::FileWriter")]
    inst = CLM + "#single-output-site"
    if not fw:
        out.append(ok("R-ORDER", inst, ca.loc(ca.body), ca.qn, "no output file is opened before WriteArchive", "FileWriter only in WriteArchive", nontrivial=False))
    else:
        out.append(bad("R-ORDER", inst, fw[0][0].loc(fw[0][1]["id"]), fw[0][0].qn, "no output file is opened before WriteArchive", "FileWriter constructed earlier"))
    # RIFF / WAVE tag refusal and wave format comparison strength
    rh = F.fn(CLM + "::ReadAllWaveHeaders", nparams=3)
    eng2 = Engine(F, S)
    ex = eng2.analyze(rh, frozenset()) or frozenset()
    tags = {"tagRIFF": False, "tagWAVE": False}
    for f in ex:
        s = repr(f)
        for t in tags:
            if f[0] == "ev" and t in s and "passed" in s:
                tags[t] = True
    inst = CLM + "::ReadAllWaveHeaders#riff-wave"
    if all(tags.values()):
        out.append(ok("R-MUSTCALL", inst, rh.loc(rh.body), rh.qn, "a header whose tags are not RIFF / WAVE is refused, for every input", "refusal inside the per-file loop"))
    else:
        out.append(bad("R-MUSTCALL", inst, rh.loc(rh.body), rh.qn, "a header whose tags are not RIFF / WAVE is refused, for every input", "found: %s" % tags))
    cw = F.fn(CLM + "::CompareWaveFormats", nparams=2)
    from ..through import with_lambdas
    mcs = [(f_, nd) for f_ in with_lambdas(F, cw) for nd in f_.nodes if nd["k"] in CALLS and nd.get("fname") == "memcmp"]
    mc = [nd for (_f, nd) in mcs]
    rec = F.record(AR + "WaveFormatEx")
    inst = CLM + "::CompareWaveFormats#whole-record"
    if len(mc) == 1 and mcs[0][0].term(mc[0]["args"][2]) == ("const", rec["size_bits"] // 8):
        out.append(ok("R-SIB", inst, cw.loc(mc[0]["id"]), cw.qn, "formats are compared over the whole %d-byte record against the first input's" % (rec["size_bits"] // 8), "memcmp(&f[0], &f[i], sizeof(WaveFormatEx))"))
    else:
        out.append(bad("R-SIB", inst, cw.loc(cw.body), cw.qn, "formats are compared over the whole %d-byte record against the first input's" % (rec["size_bits"] // 8), "shape not found"))
    return out


def audio_extent(F, S):
    """R-COPYEXT: what is stored for member i is a slice of exactly dataLength_i taken at the start of its data chunk."""
    out = []
    wa = F.fn(CLM + "::WriteArchive", nparams=5)
    defs = c05.alias_defs(wa)
    copies = [nd for nd in wa.nodes if nd["k"] == "CXXMemberCallExpr" and nd.get("fname") == "Write" and len(nd.get("args", [])) == 1
              and (nd.get("targs") or [{}])[0].get("int") is not None]
    inst = CLM + "::WriteArchive#copies-data-chunk-only"
    req = "member i is a copy of Slice(indexEntries[i].dataLength) of input i (positioned at its data chunk), not of the rest of the file"
    good = len(copies) == 1
    detail = "%d stream copies" % len(copies)
    # the readers are the parameter holding std::unique_ptr<FileReader>s (whatever it is called)
    rdr_param = [("var", p["n"], p["d"]) for p in wa.params if "unique_ptr" in (p.get("ct") or "")]
    rdr_param = rdr_param[0] if rdr_param else ("?",)
    if good:
        src = c05.resolve(wa.term(copies[0]["args"][0]), defs)
        detail = fmt_term(src)
        good = src[0] == "call" and src[1].endswith("FileReader::Slice") and len(src[3]) == 1 and src[3][0][0] == "mem" and src[3][0][2] == "dataLength" \
            and c05.mentions_term(src[2], rdr_param) and src[3][0][1][0] == "idx" and src[2][2][2] == src[3][0][1][2] if src[0] == "call" and src[2][0] == "un" else False
    if good:
        out.append(ok("R-COPYEXT", inst, wa.loc(copies[0]["id"]), wa.qn, req, detail))
    else:
        out.append(bad("R-COPYEXT", inst, wa.loc(wa.body), wa.qn, req, "the reader copied is %s" % detail))
    # dataLength_i is the length FindChunk(tagDATA) returned for input i, which leaves the reader at the chunk's data
    rh = F.fn(CLM + "::ReadAllWaveHeaders", nparams=3)
    from ..rules_stream import is_store
    st = [nd for nd in rh.nodes if is_store(nd) and rh.term(rh.kids(nd["id"])[0])[0] == "mem" and rh.term(rh.kids(nd["id"])[0])[2] == "dataLength"]
    inst = CLM + "::ReadAllWaveHeaders#data-length"
    good = len(st) == 1
    if good:
        r = rh.term(rh.kids(st[0]["id"])[1])
        good = r[0] == "call" and r[1].endswith("ClmFile::FindChunk") and r[3][0] in (("global", AR + "tagDATA"),) or "tagDATA" in repr(r)
        last_move = max([nd["id"] for nd in rh.nodes if nd["k"] in CALLS and nd.get("fname") in ("FindChunk", "Read", "Seek")] or [0])
        good = good and last_move <= st[0]["id"] + 40
    if good:
        out.append(ok("R-COPYEXT", inst, rh.loc(st[0]["id"]), rh.qn, "dataLength_i is what FindChunk('data') returned for input i, the last thing done with that reader", "indexEntries[i].dataLength = FindChunk(tagDATA, reader_i)"))
    else:
        out.append(bad("R-COPYEXT", inst, rh.loc(rh.body), rh.qn, "dataLength_i is what FindChunk('data') returned for input i, the last thing done with that reader", "shape not found"))
    fc = F.fn(CLM + "::FindChunk", nparams=2)
    # the walk goes on exactly while the cursor is inside the file: a chunk header at any position < length is examined
    loops = [nd for nd in fc.nodes if nd["k"] in ("DoStmt", "WhileStmt", "ForStmt")]
    inst = CLM + "::FindChunk#walk-condition"
    req = "the chunk walk continues while currentPosition < file length (so a data chunk anywhere in the file, even empty and last, is found)"
    good = False
    detail = "loop not found"
    if len(loops) == 1:
        from ..through import continue_conditions
        cc = [c05.resolve(t, c05.alias_defs(fc)) for t in continue_conditions(fc, loops[0])]
        ct = cc[0] if len(cc) == 1 else ("?",)
        detail = " && ".join(fmt_term(t) for t in cc) or "none"
        # the cursor is whichever local the loop body seeks the reader to
        body = fc.subtree(loops[0]["body"])
        seeks = [fc.n(x) for x in body if fc.n(x)["k"] == "CXXMemberCallExpr" and fc.n(x).get("fname") == "Seek" and fc.n(x).get("args")]
        cursors = {fc.term(c["args"][0]) for c in seeks}
        good = ct[0] == "op" and ct[1] == "<" and ct[2][0] == "var" and ct[2] in cursors and ct[3][0] == "call" and ct[3][1].endswith("::Length")
    if good:
        out.append(ok("R-GUARD", inst, fc.loc(loops[0]["id"]), fc.qn, req, detail))
    else:
        out.append(bad("R-GUARD", inst, fc.loc(fc.body), fc.qn, req, "condition is %s" % detail))
    r = [x for x in returns(fc)]
    inst = CLM + "::FindChunk#returns-length-at-data"
    good = len(r) == 1 and fc.term(r[0]["value"])[0] == "mem" and fc.term(r[0]["value"])[2] == "length"
    if good:
        out.append(ok("R-COPYEXT", inst, fc.loc(r[0]["id"]), fc.qn, "FindChunk returns the matching chunk's length right after reading its header (the reader stands at the chunk's data)", "return header.length"))
    else:
        out.append(bad("R-COPYEXT", inst, fc.loc(fc.body), fc.qn, "FindChunk returns the matching chunk's length right after reading its header (the reader stands at the chunk's data)", "shape not found"))
    return out


def format_preserved(F, S):
    """The extracted format is the archive's common format: Create copies it wholesale and only resets cbSize; the format
    slot read from a source file has its trailing cbSize (which may lie beyond a 16-byte fmt payload) reset before it is compared."""
    from ..rules_stream import is_store
    out = []
    wc = F.fn(AR + "WaveHeader::Create", nparams=2)
    wf = ("var", wc.params[0]["n"], wc.params[0]["d"])
    from ..through import built_record
    built = built_record(F, wc)
    if built is None:
        raise AnalysisBroken("WaveHeader::Create: the way the header is built is not recognised (assignments to a local, or a braced initialiser)")
    fpath = ("formatChunk", "waveFormat")
    under = {k: v for k, v in built.items() if k[:2] == fpath}
    inst = AR + "WaveHeader::Create#format-copied"
    req = "the header's format block is the given WaveFormatEx copied whole, with only cbSize reset to 0"
    whole_ok = under.get(fpath) == ("whole", wf)
    other = {k: v for k, v in under.items() if k != fpath and not (k == fpath + ("cbSize",) and v == ("const", 0))}
    if whole_ok and not other:
        out.append(ok("R-SIB", inst, wc.loc(wc.body), wc.qn, req, "waveFormat = waveFormat; cbSize = 0"))
    else:
        out.append(bad("R-SIB", inst, wc.loc(wc.body), wc.qn, req, ("other values in the format block: %s" % ", ".join("%s = %s" % (".".join(k), fmt_term(v) if v[0] != "whole" else "copy of " + fmt_term(v[1])) for k, v in sorted(other.items())))
                       if whole_ok else "no whole copy of the given format"))
    rh = F.fn(CLM + "::ReadAllWaveHeaders", nparams=3)
    rdefs = c05.alias_defs(rh)
    fmts = [("var", p["n"], p["d"]) for p in rh.params if "WaveFormatEx" in (p.get("ct") or "")][0]
    rd = [nd for nd in rh.nodes if nd["k"] == "CXXMemberCallExpr" and nd.get("fname") == "Read" and nd.get("args")
          and c05.mentions_term(c05.resolve(rh.term(nd["args"][0]), rdefs), fmts)]
    st = [nd for nd in rh.nodes if is_store(nd) and rh.term(rh.kids(nd["id"])[0])[0] == "mem" and rh.term(rh.kids(nd["id"])[0])[2] == "cbSize"
          and rh.term(rh.kids(nd["id"])[1]) == ("const", 0)]
    # the slot reset is the slot read
    if len(rd) == 1 and len(st) == 1:
        if c05.resolve(rh.term(rh.kids(st[0]["id"])[0])[1], rdefs) != c05.resolve(rh.term(rd[0]["args"][0]), rdefs):
            st = []
    inst = CLM + "::ReadAllWaveHeaders#cbSize-reset"
    req = "each format slot's cbSize is reset right after the 18-byte read (a 16-byte fmt payload leaves it holding the next chunk's bytes), before formats are compared"
    if len(rd) == 1 and len(st) == 1 and st[0]["id"] > rd[0]["id"]:
        out.append(ok("R-INIT", inst, rh.loc(st[0]["id"]), rh.qn, req, "Read(waveFormats[i]); waveFormats[i].cbSize = 0"))
    else:
        out.append(bad("R-INIT", inst, rh.loc(rh.body), rh.qn, req, "no reset of cbSize after the read in the per-file loop"))
    return out


def index_refusals_exact(F, S):
    """Any refusal the CLM reader applies to an index entry's extent refuses only extents that leave the archive: an entry
    may start exactly at the end of the file (an empty last track) - `dataOffset <= size` and `dataLength <= size - dataOffset`
    are the in-bounds conditions, so a refusal must be `dataOffset > size` (strict) or `dataLength > size - dataOffset`."""
    from ..through import closure
    from ..prove import term_cond_facts
    from ..rules_sib import enclosing_if_cond
    out = []
    rh = F.fn(CLM + "::ReadHeader", nparams=0)
    n = 0
    for f in closure(F, rh):
        for th in [nd for nd in f.nodes if nd["k"] == "CXXThrowExpr"]:
            cid, in_then = enclosing_if_cond(f, th["id"])
            if cid is None:
                continue
            ct = f.term(cid)
            if "dataOffset" not in repr(ct) and "dataLength" not in repr(ct):
                continue
            n += 1
            # conditions under which the entry is ACCEPTED (the refusal's negation), disjuncts of the refusal handled one by one
            def disj(t):
                if t[0] == "op" and t[1] == "||":
                    return disj(t[2]) + disj(t[3])
                return [t]
            for part in (disj(ct) if in_then else [ct]):
                acc = term_cond_facts(part, not in_then)
                for a in acc:
                    inst = "%s::ReadHeader#entry-refusal:%s" % (CLM, fmt_term(part))
                    req = "a refusal on an index entry's extent refuses only extents outside the archive (an empty track may start at the end of the file)"
                    lhs, rhs = a[1], a[2]
                    sizeish = lambda t: "m_ArchiveFileSize" in repr(t) or "Length" in repr(t)
                    if a[0] == "<" and lhs[0] == "mem" and lhs[2] == "dataOffset" and sizeish(rhs) and "dataLength" not in repr(rhs):
                        out.append(bad("R-GUARD", inst, f.loc(cid), f.qn, req,
                                       "accepted only when %s: an entry that starts exactly at the end of the archive (offset == size, length 0) is refused" % ("%s < %s" % (fmt_term(lhs), fmt_term(rhs)))))
                    elif a[0] in ("<", "<="):
                        out.append(ok("R-GUARD", inst, f.loc(cid), f.qn, req, "accepts %s %s %s" % (fmt_term(lhs), a[0], fmt_term(rhs))))
    return out, n


def check(F, run, tier):
    S = Summaries(F)
    from ..rules_archive import verified_names_final
    run.add(verified_names_final(F, S, F.fn(CLM + "::CreateArchive", nparams=2), CLM + "::CreateArchive"))
    from ..rules_archive import handlers_rethrow
    _oh, _nh = handlers_rethrow(F, S, ["/src/"])
    run.add(_oh)
    run.floor("exception-handlers", _nh, 7)
    run.declined = DECLINED
    run.explanation = (
        "Static analysis of ClmFile::CreateArchive / ReadHeader / ExtractFile. Decided: R-SEQ (header + index written and read "
        "in the same shape, equal to spec/clm.seq.json; extraction writes a WaveHeader then a copy, spec/wav.seq.json), "
        "R-LAYOUT (ClmHeader, IndexEntry, the RIFF records, version string, 'unknown' bytes, RIFF tags), R-ACCT (first data "
        "offset = header + index, step = data length, RIFF size formula), R-COPYEXT (what is stored is Slice(dataLength) of the "
        "input positioned at its data chunk; streams and extraction are Slice(dataOffset, dataLength)), R-ORDER (non-WAV, "
        "differing formats, over-long and duplicate names are refused before the archive file is opened), R-MUSTCALL (sorted "
        "by the checked comparator first), R-INIT (WaveHeader::Create assigns every field; index zero-filled), and termination "
        "of the chunk walk.")
    obs, n = seq_obligations(F, "clm", min_sites=4, reader_prefix=True)
    o_, _n = index_refusals_exact(F, S)
    run.add(o_)
    run.add(obs)
    obs, n = seq_obligations(F, "wav", with_reader=False, min_sites=2)
    run.add(obs)
    run.add(r_layout(F, records=[CLM + "::ClmHeader", CLM + "::IndexEntry", AR + "WaveFormatEx", AR + "RiffHeader", AR + "FormatChunk", AR + "ChunkHeader", AR + "WaveHeader"],
                     constants=[AR + "standardFileVersion", AR + "standardUnknown", AR + "tagRIFF", AR + "tagWAVE", AR + "tagFMT_", AR + "tagDATA"]))
    run.add(clm_accounting(F, S))
    run.add(audio_extent(F, S))
    run.add(format_preserved(F, S))
    from ..rules_archive import extract_all_visits_every_member
    run.add(extract_all_visits_every_member(F, S))
    from ..rules_archive import extraction_always_writes
    ef = F.fn(CLM + "::ExtractFile", nparams=2, pred=lambda f: "basic_string" not in f.key.split("(")[1].split(",")[0])
    run.add(extraction_always_writes(F, ef, CLM + "::ExtractFile"))
    obs, n = c05.member_extents(F, S)
    run.add([o for o in obs if "ClmFile" in o.instance])
    run.add(refusals_before_write(F, S))
    run.add(c20.clm_names(F, S))
    run.add(c20.clm_extension_strip(F, S))
    run.add(c18.sort_before_layout(F, S)[1:])
    run.add(c19.compare_path_filenames(F))
    run.add(c19.get_filename_shape(F))
    run.add(c19.duplicate_scan(F))
    wc = F.fn(AR + "WaveHeader::Create", nparams=2)
    run.add(c18.returned_defined(F, S, wc))
    run.add(c18.zero_filled_names(F, S))
    obs, n = loop_progress(F, S, F.fn(CLM + "::FindChunk", nparams=2))
    run.add(obs)
    # FindChunk's loop also terminates for well-formed files: the loop condition compares the cursor with the file size
    run.floor("obligations", len(run.obligations), 40)

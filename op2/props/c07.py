"""C07 — Map and saved-game readers are safe and self-consistent on arbitrary bytes."""
from ..extract import AnalysisBroken
from ..facts import CALLS, CTORS, fmt_term
from ..flow import Engine, Summaries, final_site_facts, fmt_fact, mentions
from ..prove import prove_le, Width
from ..report import ok, bad
from ..rules_sib import P, returns
from ..rules_archive import facts_txt, raw_io_extents
from ..rules_stream import is_store
from . import imgcommon as ic
from . import c05

M = "OP2Utility::Map"
MH = "OP2Utility::MapHeader"

DECLINED = [
    "'never touches foreign memory' in general (only the listed sink classes: shifts, products, raw read extents, container sizing)",
    "that a returned width is a power of two: true by construction (1 << lg) once the shift is guarded",
    "equality of the map portion read from a saved game and from a map file (values); decided: both entry points obtain it "
    "exclusively from ReadMapBeginning and store nothing into it afterwards",
]


def shifts_and_products(F, S):
    out = []
    rb = F.fn(M + "::ReadMapBeginning", nparams=1)
    eng = Engine(F, S)
    eng.analyze(rb, frozenset())
    # ReadMapBeginning may have been split into helpers that are handed the header (a check helper, a construction helper):
    # the sinks are looked for in all of them, each judged with what is known where it is reached from ReadMapBeginning
    from ..through import closure
    from .c05 import alias_defs, resolve
    parts = []
    for rf in closure(F, rb, depth=2):
        hv = None
        for nd in rf.nodes:
            if nd["k"] == "DeclStmt":
                for d in nd.get("decls", []):
                    if d.get("rec") == MH:
                        hv = ("var", d["n"], d["d"])
        for p in rf.params:
            if p.get("rec") == MH and hv is None:
                hv = ("var", p["n"], p["d"])
        if hv is not None:
            parts.append((rf, hv))
    if not parts or parts[0][0].key != rb.key:
        raise AnalysisBroken("ReadMapBeginning: MapHeader local not found")
    hdr = parts[0][1]
    n = 0
    rzs = []
    for rf, hv in parts:
        lg = ("mem", hv, "lgWidthInTiles")
        # every place the header's lgWidthInTiles is shifted by: calls of the shifting accessors on the header, and shifts
        # written out in this function
        sinks = []
        for nd in rf.nodes:
            if nd["k"] == "CXXMemberCallExpr" and nd.get("fname") in ("WidthInTiles", "TileCount") and rf.term(nd["obj"]) == hv:
                sinks.append((nd, nd["fname"]))
            elif nd["k"] == "BinaryOperator" and nd.get("op") == "<<" and rf.term(rf.kids(nd["id"])[1]) == lg:
                sinks.append((nd, "shift"))
        for nd, what in sinks:
            site = final_site_facts(eng, rf, nd["id"])
            if site is None:
                continue
            n += 1
            inst = "%s::ReadMapBeginning#shift:%s" % (M, what if what != "shift" else fmt_term(rf.term(nd["id"])))
            req = "lgWidthInTiles < 32 holds where it is shifted by (%s)" % what
            if prove_le(site, lg, ("const", 32), strict=True):
                out.append(ok("R-TAINT", inst, rf.loc(nd["id"]), rf.qn, req, "refusal of lgWidthInTiles >= 32 dominates"))
            else:
                out.append(bad("R-TAINT", inst, rf.loc(nd["id"]), rf.qn, req, "facts: " + facts_txt(site)))
        for nd in rf.nodes:
            if nd["k"] == "CXXMemberCallExpr" and nd.get("fname") == "resize" and "obj" in nd and rf.term(nd["obj"])[0] == "mem" and rf.term(nd["obj"])[2] == "tiles":
                rzs.append((rf, hv, nd))
    # the tile array is sized by height << lgWidth; whatever form the argument takes, the 64-bit product must have been refused
    # above UINT32_MAX first
    if len(rzs) != 1:
        raise AnalysisBroken("ReadMapBeginning: expected one resize of the tile array")
    zf, zh, z = rzs[0]
    rz = [z]
    lg = ("mem", zh, "lgWidthInTiles")
    prod = ("op", "<<", ("mem", zh, "heightInTiles"), lg)
    site = final_site_facts(eng, zf, z["id"]) or set()
    arg = resolve(zf.term(z["args"][0]), {k: v for k, v in alias_defs(zf).items() if k != zh})
    good = arg == prod and prove_le(site, prod, ("const", 0xffffffff))
    wide = False
    scope = [f0 for f0, _ in parts] + [c for f0, _ in parts for x in f0.nodes if x["k"] in CALLS for c in F.callees(x) if c.cfg and not c.cls and "/Map/" in c.file]
    for f2 in scope:
        for x in f2.nodes:
            if x["k"] == "BinaryOperator" and x.get("op") == "<<" and x.get("iw") == 64 and "heightInTiles" in repr(f2.term(x["id"])):
                wide = True
    inst = "%s::ReadMapBeginning#tile-count-fits" % M
    req = "height << lgWidth, formed in 64 bits, is refused above UINT32_MAX before it sizes the tile array"
    if good and wide:
        out.append(ok("R-TAINT", inst, zf.loc(z["id"]), zf.qn, req, "64-bit guard dominates the resize"))
    else:
        out.append(bad("R-TAINT", inst, zf.loc(z["id"]), zf.qn, req, "resize argument %s; guard %s, formed in 64 bits: %s" % (fmt_term(arg), "present" if good else "missing", wide)))
    if n < 2:
        raise AnalysisBroken("ReadMapBeginning: expected at least two shifts by lgWidthInTiles (width, tile count)")
    # the shifting helpers themselves are only called from guarded sites
    from ..invariants import callers_map
    cm = callers_map(F)
    from ..through import private_closure
    guarded_code = private_closure(F, rb)      # ReadMapBeginning and the private helpers only it calls (sinks judged above)
    for nm in ("WidthInTiles", "TileCount"):
        fn = F.fn(MH + "::" + nm, nparams=0)
        callers = sorted(cm.get(fn.key, set()))
        inst = "%s::%s#callers" % (MH, nm)
        # (the shift helpers may use one another: TileCount() written as heightInTiles * WidthInTiles())
        shift_helpers = {F.fn(MH + "::" + x, nparams=0).key for x in ("WidthInTiles", "TileCount")}
        if all(c in guarded_code or c in shift_helpers for c in callers):
            out.append(ok("R-WHOCALLS", inst, fn.loc(fn.body), fn.qn, "the unguarded shift helper is called only from the guarded reader",
                          "callers: ReadMapBeginning" if callers else "no callers in the library", nontrivial=bool(callers)))
        else:
            out.append(bad("R-WHOCALLS", inst, fn.loc(fn.body), fn.qn, "the unguarded shift helper is called only from the guarded reader", "callers: %s" % [c.split("(")[0] for c in callers]))
    # tile group area
    tg = F.fn(M + "::ReadTileGroup", nparams=1)
    W = Width(tg)
    rs = [nd for nd in tg.nodes if nd["k"] == "CXXMemberCallExpr" and nd.get("fname") == "resize"]
    if len(rs) != 1:
        raise AnalysisBroken("ReadTileGroup: resize not found")
    arg0 = tg.n(tg.strip(rs[0]["args"][0]))
    if arg0["k"] in CALLS and F.callees(arg0):
        # the area comes from a helper: its return expression is what can wrap
        for cal in F.callees(arg0):
            Wc = Width(cal)
            for r in returns(cal):
                for (x, base) in Wc.arith_nodes(r["value"]):
                    inst = "%s::ReadTileGroup#area-helper:%s" % (M, fmt_term(cal.term(x)))
                    wraps = Wc.may_wrap(x, base) or (cal.n(x).get("iw") or 64) < 64
                    if wraps:
                        out.append(bad("R-TAINT", inst, cal.loc(x), cal.qn, "tileWidth x tileHeight cannot wrap before it sizes the mapping list",
                                       "%s is formed in %s bits" % (fmt_term(cal.term(x)), cal.n(x).get("iw"))))
                    else:
                        out.append(ok("R-TAINT", inst, cal.loc(x), cal.qn, "tileWidth x tileHeight cannot wrap before it sizes the mapping list", "formed in 64 bits"))
    # the sizing expression, looked at through locals that only name it (`const size_t count = w * h; resize(count)`)
    roots_ = [rs[0]["args"][0]]
    for _ in range(3):
        for r_ in list(roots_):
            for x in tg.subtree(r_):
                nx = tg.n(x)
                if nx["k"] == "DeclRefExpr" and nx.get("d") is not None:
                    v_ = ("var", nx.get("n"), nx.get("d"))
                    if tg.local_value_at(v_, rs[0]["id"]) is not None:
                        i_ = tg.local_init_node_at(v_, rs[0]["id"])
                        if i_ is not None and i_ not in roots_:
                            roots_.append(i_)
    area_nodes = []
    for r_ in roots_:
        for it_ in W.arith_nodes(r_):
            if it_ not in area_nodes:
                area_nodes.append(it_)
    if arg0["k"] in CALLS and F.callees(arg0):
        pass
    elif not area_nodes:
        raise AnalysisBroken("ReadTileGroup: the size of the mapping list is not an arithmetic expression the rule recognises")
    for (x, base) in area_nodes:
        inst = "%s::ReadTileGroup#area:%s" % (M, fmt_term(tg.term(x)))
        if W.may_wrap(x, base):
            out.append(bad("R-TAINT", inst, tg.loc(x), tg.qn, "tileWidth x tileHeight cannot wrap before it sizes the mapping list", "needs %d bits, formed in %s" % (W.needed(x), tg.n(x).get("iw"))))
        else:
            out.append(ok("R-TAINT", inst, tg.loc(x), tg.qn, "tileWidth x tileHeight cannot wrap before it sizes the mapping list", "needs %d bits, formed in %s" % (W.needed(x), tg.n(x).get("iw"))))
    return out


def containers_sized_before_read(F, S):
    """Every unprefixed container read is into a container whose size was set from the count just read."""
    out = []
    n = 0
    for fn in F.functions.values():
        if "/Map/MapReader.cpp" not in fn.file or not fn.cfg:
            continue
        eng = None
        for nd in fn.nodes:
            if nd["k"] == "CXXMemberCallExpr" and nd.get("fname") == "Read" and (nd.get("fq") or "").endswith("Reader::Read"):
                targs = nd.get("targs") or []
                if len(targs) != 1 or not (targs[0].get("record") or "").startswith("std::vector"):
                    continue
                if eng is None:
                    eng = Engine(F, S)
                    eng.analyze(fn, frozenset())
                site = final_site_facts(eng, fn, nd["id"])
                if site is None:
                    continue
                n += 1
                c = fn.term(nd["args"][0])
                inst = "%s#sized:%s" % (fn.qn, fmt_term(c))
                sized = [f for f in site if f[0] == "==" and ("size", c) in (f[1], f[2])]
                if sized:
                    out.append(ok("R-SEQ", inst, fn.loc(nd["id"]), fn.qn, "the container is resized to the stored count before its elements are read", fmt_fact(sized[0])))
                else:
                    out.append(bad("R-SEQ", inst, fn.loc(nd["id"]), fn.qn, "the container is resized to the stored count before its elements are read", "no size fact at the read"))
    return out, n


def version_tags(F, S):
    out = []
    for ep, np_, pred in ((M + "::ReadMap", 1, lambda f: "Reader &)" in f.key), (M + "::ReadSavedGame", 1, lambda f: "Reader &)" in f.key)):
        fn = F.fn(ep, nparams=np_, pred=pred)
        eng = Engine(F, S)
        ex = eng.analyze(fn, frozenset()) or frozenset()
        # (the tail of the entry point may have been moved into a helper: the calls are counted where they stand)
        from ..through import find_calls
        rv = find_calls(F, fn, lambda nd: nd.get("fname") == "ReadVersionTag")
        inst = "%s#version-tags" % ep
        if len(rv) == 2 and ("ev", "called", M + "::CheckMinVersionTag") in ex and ("ev", "called", M + "::ReadMapBeginning") in ex:
            out.append(ok("R-MUSTCALL", inst, fn.loc(fn.body), fn.qn, "the header tag and both later version tags are checked on every returning path", "ReadMapBeginning + 2 x ReadVersionTag"))
        else:
            out.append(bad("R-MUSTCALL", inst, fn.loc(fn.body), fn.qn, "the header tag and both later version tags are checked on every returning path", "%d ReadVersionTag calls" % len(rv)))
    rv = F.fn(M + "::ReadVersionTag", nparams=2)
    eng = Engine(F, S)
    ex = eng.analyze(rv, frozenset()) or frozenset()
    same = any(f[0] == "==" and P(rv, 1) in (f[1], f[2]) for f in ex)
    inst = M + "::ReadVersionTag#checks"
    from ..rules_valid import validated
    if validated(F, rv, ex, M + "::CheckMinVersionTag") and same:
        out.append(ok("R-MUSTCALL", inst, rv.loc(rv.body), rv.qn, "each later tag passes the minimum check and equals the header's tag", "both refusals on every returning path"))
    else:
        out.append(bad("R-MUSTCALL", inst, rv.loc(rv.body), rv.qn, "each later tag passes the minimum check and equals the header's tag", "missing"))
    rb = F.fn(M + "::ReadMapBeginning", nparams=1)
    eng = Engine(F, S)
    ex = eng.analyze(rb, frozenset()) or frozenset()
    inst = M + "::ReadMapBeginning#header-tag"
    if validated(F, rb, ex, M + "::CheckMinVersionTag"):
        out.append(ok("R-MUSTCALL", inst, rb.loc(rb.body), rb.qn, "the header's version tag passes the minimum check", "on every returning path"))
    else:
        out.append(bad("R-MUSTCALL", inst, rb.loc(rb.body), rb.qn, "the header's version tag passes the minimum check", "missing"))
    cm = F.fn(M + "::CheckMinVersionTag", nparams=1)
    eng = Engine(F, S)
    ex = eng.analyze(cm, frozenset()) or frozenset()
    minv = F.vars.get(MH + "::MinMapVersion", {}).get("value")
    good = any(f[0] == "<=" and f[2] == P(cm, 0) and f[1] in (("const", minv), ("global", MH + "::MinMapVersion")) for f in ex)
    inst = M + "::CheckMinVersionTag#strength"
    if good:
        out.append(ok("R-GUARD", inst, cm.loc(cm.body), cm.qn, "tags below MinMapVersion are refused", "versionTag >= MinMapVersion on every returning path"))
    else:
        out.append(bad("R-GUARD", inst, cm.loc(cm.body), cm.qn, "tags below MinMapVersion are refused", "established: " + facts_txt(ex)))
    return out


def tileset_sources(F, S):
    out = []
    # wherever the tileset sources are read (ReadTilesetSources, whatever its signature, or a per-source helper): at the read
    # of numTiles, which follows the name, the name is known to be at most 8 characters
    from ..through import closure
    rb0 = F.fn(M + "::ReadMapBeginning", nparams=1)
    eng = Engine(F, S)
    eng.analyze(rb0, frozenset())
    cands = []
    for f0 in closure(F, rb0, depth=3):
        for nd in f0.nodes:
            if nd["k"] == "CXXMemberCallExpr" and nd.get("fname") == "Read" and nd.get("args") and "numTiles" in repr(f0.term(nd["args"][0])):
                if final_site_facts(eng, f0, nd["id"]) is not None:
                    cands.append((f0, nd))
    if len(cands) != 1:
        raise AnalysisBroken("ReadTilesetSources: numTiles read not found")
    fn, rd0 = cands[0]
    rd = [rd0]
    site = final_site_facts(eng, fn, rd[0]["id"]) or set()
    good = any(f[0] == "<=" and f[1][0] == "size" and "tilesetFilename" in repr(f[1]) and f[2] == ("const", 8) for f in site)
    inst = M + "::ReadTilesetSources#name-length"
    if good:
        out.append(ok("R-MUSTCALL", inst, fn.loc(rd[0]["id"]), fn.qn, "a tileset name longer than 8 characters is refused before the entry is used", "size() <= 8 holds at the next read"))
    else:
        out.append(bad("R-MUSTCALL", inst, fn.loc(rd[0]["id"]), fn.qn, "a tileset name longer than 8 characters is refused before the entry is used", "facts: " + facts_txt(site)))
    th, _inlined = F.fn_or_host(M + "::ReadTilesetHeader", 1, M + "::ReadMapBeginning", 1)
    eng = Engine(F, S)
    ex = eng.analyze(th, frozenset()) or frozenset()
    # the marker buffer: the local std::array<char, 10> that is read from the stream
    markers = [("var", d["n"], d["d"]) for nd in th.nodes if nd["k"] == "DeclStmt" for d in nd.get("decls", [])
               if "array<char, 10>" in (d.get("ct") or d.get("rec") or "")]
    from ..rules_layout import constant_by_role
    mconst = ("global", constant_by_role(F, "OP2Utility::tilesetHeader", M + "::ReadTilesetHeader"))
    good = bool(markers) and any(f[0] == "ev" and f[1] == "passed" and any(mentions(f[2], m) for m in markers) and mentions(f[2], mconst) for f in ex)
    # the comparison covers the whole 10-byte marker (array equality, or memcmp over sizeof): a prefix comparison would
    # accept bytes the writer never emits
    whole = False
    for nd in th.nodes:
        if nd["k"] == "CXXOperatorCallExpr" and nd.get("op") in ("!=", "==") and any(mentions(th.term(nd["id"]), m) for m in markers) \
                and all("std::array<char, 10>" in (th.n(th.strip(a)).get("ct") or "") for a in nd.get("args", [])):
            whole = True
        if nd["k"] in CALLS and nd.get("fname") == "memcmp" and len(nd.get("args", [])) == 3 and th.term(nd["args"][2]) == ("const", 10):
            whole = True
        if nd["k"] in CALLS and nd.get("fq") == "std::equal" and len(nd.get("args", [])) in (3, 4):
            # std::equal over [begin, end) of one 10-byte array against the other's begin: all ten bytes
            at = [th.term(a) for a in nd["args"]]
            rng = [t for t in at[:2] if t[0] == "call" and t[1].startswith("std::array<char, 10>::") and t[3] == ()]
            if len(rng) == 2 and rng[0][1].endswith("begin") and rng[1][1].endswith("end") and rng[0][2] == rng[1][2] \
                    and at[2][0] == "call" and at[2][1].startswith("std::array<char, 10>::") and at[2][1].endswith("begin") and at[2][2] != rng[0][2] \
                    and (rng[0][2] in markers or at[2][2] in markers):
                whole = True
    good = good and whole
    inst = M + "::ReadTilesetHeader#marker"
    if good:
        out.append(ok("R-MUSTCALL", inst, th.loc(th.body), th.qn, "all 10 bytes of the 'TILE SET' marker are compared and a mismatch refused", "whole-array comparison; refusal on every returning path"))
    else:
        out.append(bad("R-MUSTCALL", inst, th.loc(th.body), th.qn, "all 10 bytes of the 'TILE SET' marker are compared and a mismatch refused", "no whole-marker refusal"))
    return out


def saved_game_same_map(F, S):
    out = []
    for ep, np_, pred in ((M + "::ReadMap", 1, lambda f: "Reader &)" in f.key), (M + "::ReadSavedGame", 1, lambda f: "Reader &)" in f.key)):
        fn = F.fn(ep, nparams=np_, pred=pred)
        mv = None
        for nd in fn.nodes:
            if nd["k"] == "DeclStmt":
                for d in nd.get("decls", []):
                    if d.get("rec") == M and "init" in d:
                        it = fn.term(d["init"])
                        if it[0] == "call" and it[1] == M + "::ReadMapBeginning":
                            mv = ("var", d["n"], d["d"])
        stores = [nd for nd in fn.nodes if is_store(nd) and mv is not None and fn.term(fn.kids(nd["id"])[0])[0] == "mem" and fn.term(fn.kids(nd["id"])[0])[1] == mv]
        def mutable_passes(f, v, depth=2):
            """Calls in f that hand variable v on by non-const reference, looked through private helpers of the class that
            only hand it on in turn (and store nothing into it themselves)."""
            res = []
            for nd in f.nodes:
                if nd["k"] not in CALLS:
                    continue
                ps = nd.get("params", [])
                for i_, a_ in enumerate(nd.get("args", [])):
                    if f.term(a_) != v or i_ >= len(ps) or not (ps[i_].get("ref") and not ps[i_].get("const_ref")):
                        continue
                    cals = [c_ for c_ in F.callees(nd) if c_.cfg and c_.cls == M and i_ < len(c_.params)]
                    if depth > 0 and len(cals) == 1 and nd.get("fname") not in ("ReadTileGroups",):
                        h = cals[0]
                        hv = ("var", h.params[i_]["n"], h.params[i_]["d"])
                        hst = [x for x in h.nodes if is_store(x) and h.term(h.kids(x["id"])[0])[0] == "mem" and h.term(h.kids(x["id"])[0])[1] == hv]
                        inner = mutable_passes(h, hv, depth - 1)
                        if not hst and all(x.get("fname") != nd.get("fname") for x in inner):
                            res += inner
                            continue
                    res.append(nd)
            return res
        passed = mutable_passes(fn, mv) if mv is not None else []
        rets = returns(fn)
        inst = "%s#map-from-beginning" % ep
        req = "the returned map is the one ReadMapBeginning produced; the entry point stores nothing into it directly"
        allowed = {"ReadTileGroups"} if ep.endswith("ReadMap") else set()
        extra = [p.get("fname") for p in passed if p.get("fname") not in allowed]
        if mv is not None and not stores and not extra and len(rets) == 1 and fn.term(rets[0]["value"]) == mv:
            out.append(ok("R-SIB", inst, fn.loc(fn.body), fn.qn, req, "Map map = ReadMapBeginning(stream); … return map;"))
        else:
            out.append(bad("R-SIB", inst, fn.loc(fn.body), fn.qn, req, "stores: %d, passed by non-const reference to: %s" % (len(stores), extra)))
    return out


def saved_game_skip_is_relative(F, S):
    """R-ORDER: the saved-game header is skipped *from where the stream stands*: the only repositioning between the entry of
    ReadSavedGame and ReadMapBeginning is SeekForward(0x1E025) (or that many bytes read and dropped). An absolute Seek reads
    the map from a fixed offset of the underlying stream, wherever the caller had positioned it."""
    from ..through import find_calls
    fn = F.fn(M + "::ReadSavedGame", nparams=1, pred=lambda f: "Reader &)" in f.key)
    sk = find_calls(F, fn, lambda nd: nd["k"] == "CXXMemberCallExpr" and nd.get("fname") in ("Seek", "SeekForward", "SeekBackward")
                    and (nd.get("mrec") or "").startswith("OP2Utility::Stream::"))
    inst = M + "::ReadSavedGame#skip-relative"
    req = "the saved-game header is skipped relative to the current position: SeekForward(0x1E025), no absolute Seek"
    bad_ = [s_ for s_ in sk if s_.node.get("fname") != "SeekForward"]
    fw = [s_ for s_ in sk if s_.node.get("fname") == "SeekForward"]
    if not sk:
        raise AnalysisBroken("ReadSavedGame: no stream repositioning found (shape not recognised)")
    if not bad_ and len(fw) == 1 and fw[0].args() == [("const", 0x1E025)]:
        return [ok("R-ORDER", inst, fn.loc(fw[0].outer_id()), fn.qn, req, "SeekForward(0x1E025)")]
    what = ", ".join("%s(%s)" % (s_.node.get("fname"), ", ".join(fmt_term(a) for a in s_.args())) for s_ in sk)
    return [bad("R-ORDER", inst, fn.loc(sk[0].outer_id()), fn.qn, req, "found %s" % what)]


def check(F, run, tier):
    S = Summaries(F)
    from ..rules_archive import find_position_obligations
    find_position_obligations(F, S, run, ["/Map/"])
    from ..rules_archive import discarded_exception_obligations
    discarded_exception_obligations(F, S, run)
    from ..rules_archive import cstring_obligations
    cstring_obligations(F, S, run)
    from ..rules_archive import handlers_rethrow
    _oh, _nh = handlers_rethrow(F, S, ["/src/"])
    run.add(_oh)
    run.floor("exception-handlers", _nh, 7)
    from ..rules_archive import noexcept_obligations
    noexcept_obligations(F, S, run)
    run.declined = DECLINED
    run.explanation = (
        "Static analysis of the map / saved-game reader. Decided: R-TAINT (the file-supplied shift amount is refused at 32 "
        "and above before MapHeader::WidthInTiles/TileCount shift by it; the tile count is formed in 64 bits and refused "
        "above the 32-bit result; the tile-group area is formed in 64 bits; the shifting helpers have no other caller), "
        "R-WHOCALLS (all reads are the throwing kind), R-SEQ (every unprefixed container is resized to the stored count "
        "before it is read), R-MUSTCALL (minimum-version check on the header tag and on both later tags, which must equal "
        "it, on both entry points; tileset name length; 'TILE SET' marker), raw read extents in the saved-game unit block, "
        "and that both entry points return the map produced by ReadMapBeginning without storing into it.")
    run.add(shifts_and_products(F, S))
    # no value computed from the file is narrowed on its way to a seek, a size or a count (a 64-bit byte count kept in a 32-bit
    # local wraps for counts near 2^32): none on the reviewed tree, so the positive fixture shows the rule can fire
    from ..rules_narrow import r_narrow
    nn = 0
    for rf in sorted(F.functions.values(), key=lambda f: f.key):
        if "/Map/MapReader.cpp" in rf.file and rf.cfg and not rf.d.get("implicit") and not rf.d.get("lambda"):
            o, k = r_narrow(F, S, rf, explicit_only=False, sign_conversions=False)
            run.add([x for x in o if "accumulation in" not in x.required])
            nn += k
    fxn = [f for f in F.fixture_functions.values() if f.qn == "fixture::Codes::Find"]
    hitn = False
    if fxn:
        o, _ = r_narrow(F, S, fxn[0], explicit_only=False, sign_conversions=False)
        hitn = any(x.status == "violated" for x in o)
    run.fixture("fixtures/raw_read.cpp: `uint16_t slot = code + count` (implicit narrowing of a computed value) is reported by R-NARROW", hitn)
    # the reader consumes exactly the fields of the format, in order (a shorter parse would accept proper prefixes)
    from .seqdefs import seq_obligations
    from . import c16
    obs, n = seq_obligations(F, "map", min_sites=30)
    run.add(obs)
    # the dimensions a returned map reports are the header's (the tile array was sized from the same header)
    run.add([o for o in c16.dimensions(F, S)])
    obs, n = containers_sized_before_read(F, S)
    run.add(obs)
    run.floor("container-reads", n, 4)
    run.add(version_tags(F, S))
    run.add(tileset_sources(F, S))
    run.add(saved_game_same_map(F, S))
    run.add(saved_game_skip_is_relative(F, S))
    # divisors that come from the file are refused or proved non-zero before the division (a zero tile-group width, say)
    from . import imgcommon as _ic
    _od, _nd = _ic.divisors_nonzero(F, S, ["/Map/"])
    run.add(_od)
    obs, n = ic.no_partial_reads(F, S, ["/Map/MapReader.cpp"])
    run.add(obs)
    run.floor("read-sites", n, 25)
    readers = [f for f in F.functions.values() if "/Map/MapReader.cpp" in f.file and f.cfg]
    o, k = raw_io_extents(F, S, readers, "Read")
    run.add(o)
    # typed-helper refusals used by the prefixed reads (shared with C12)
    from . import c12
    o, k = c12.typed_helpers(F, S, run)
    run.add([x for x in o if "unsigned int" in x.instance or "<unsigned int" in x.instance])

"""C14 — Writers write exactly what the history implies and refuse what does not fit."""
from ..extract import AnalysisBroken
from ..facts import CALLS, CTORS, fmt_term
from ..flow import CFG, Engine, Summaries, norm_cmp, final_site_facts, fmt_fact, cond_facts
from ..prove import prove_le, Width, definitions, expand
from ..report import ok, bad
from ..rules_stream import r_atomic, r_nowrap, r_cursor, r_count, is_store, r_guard_exact

NS = "OP2Utility::Stream::"
MW = NS + "MemoryWriter"
DW = NS + "DynamicMemoryWriter"
FW = NS + "FileWriter"
WR = NS + "Writer"

DECLINED = [
    "buffer contents after arbitrary operation histories and what ends up on disk (values)",
    "behaviour inside std::ofstream beyond the open-mode table of [filebuf.members]",
    "flag combinations the property does not describe (neither Truncate nor Append)",
]

IOS = {"app": 1, "ate": 2, "binary": 4, "in": 8, "out": 16, "trunc": 32}


def fopen_mode(fl):
    """[filebuf.members] table: ios flags (ignoring binary and ate) -> fopen mode string, None if invalid."""
    key = frozenset(x for x in fl if x in ("in", "out", "trunc", "app"))
    table = {
        frozenset(["out"]): "w", frozenset(["out", "trunc"]): "w", frozenset(["out", "app"]): "a", frozenset(["app"]): "a",
        frozenset(["in"]): "r", frozenset(["in", "out"]): "r+", frozenset(["in", "out", "trunc"]): "w+",
        frozenset(["in", "out", "app"]): "a+", frozenset(["in", "app"]): "a+",
    }
    return table.get(key)


def enumerate_paths(fn, g, limit=4096):
    """All entry->exit paths of an acyclic CFG as lists of (block, decision) ; decision = (cond node, truth) or None."""
    out = []

    def walk(b, path, seen):
        if len(out) > limit:
            raise AnalysisBroken("path enumeration limit exceeded in %s" % fn.qn)
        if b in seen:
            raise AnalysisBroken("loop in CFG of %s: decision-table extraction not applicable" % fn.qn)
        if b in g.throws:
            out.append((path + [(b, None)], "throw"))
            return
        if b == g.exit:
            out.append((path, "return"))
            return
        ss = g.succ[b]
        cid = g.branch_cond(b) if len(ss) == 2 else None
        for (t, label) in ss:
            walk(t, path + [(b, (cid, label) if cid is not None and label is not None else None)], seen | {b})
    walk(g.entry, [], frozenset())
    return out


def mask_decision(fn, cid, truth, pvar):
    """Decode `(param & C) ==/!= 0` -> (C, nonzero?) ; PathExists(...) -> ("exists", truth) ; else None."""
    cid = fn.strip(cid)
    nd = fn.n(cid)
    if nd["k"] == "UnaryOperator" and nd.get("op") == "!":
        return mask_decision(fn, fn.kids(cid)[0], not truth, pvar)
    t = fn.term(cid)
    if t[0] == "var" and t != pvar:
        t = fn.xterm(cid)       # a decoded flag named first (`const bool truncate = (mode & Truncate) != 0;`)
    if t[0] == "un" and t[1] == "!":
        inner = mask_decision_term(t[2], pvar)
        return (inner[0], inner[1], inner[2] != truth) if inner and inner[0] == "mask" else None
    if t[0] == "op" and t[1] in ("==", "!=") and t[3] == ("const", 0) and t[2][0] == "op" and t[2][1] == "&":
        a, b = t[2][2], t[2][3]
        if a == pvar and b[0] == "const":
            nonzero = (t[1] == "!=") == truth
            return ("mask", b[1], nonzero)
    if t[0] == "op" and t[1] == "&" and t[2] == pvar and t[3][0] == "const":
        return ("mask", t[3][1], truth)
    if t[0] == "call" and t[1].endswith("::PathExists"):
        return ("exists", truth)
    return None


def mask_decision_term(t, pvar):
    """(mask, C, nonzero-when-true) for a term `(param & C) != 0` / `== 0` / `param & C`."""
    if t[0] == "op" and t[1] in ("==", "!=") and t[3] == ("const", 0) and t[2][0] == "op" and t[2][1] == "&" and t[2][2] == pvar and t[2][3][0] == "const":
        return ("mask", t[2][3][1], t[1] == "!=")
    if t[0] == "op" and t[1] == "&" and t[2] == pvar and t[3][0] == "const":
        return ("mask", t[3][1], True)
    return None


def directory_only_with_can_open_new(F, S):
    """R-ORDER: the constructor creates a missing parent directory only when the open mode allows creating something new:
    every call of XFile::NewDirectory it reaches is dominated by `openMode & CanOpenNew` being set. (TranslateFlags would still
    refuse the open afterwards, but the directory would already exist.)"""
    from ..through import find_calls
    from ..flow import substitute
    out = []
    en = F.enums.get(FW + "::OpenMode")
    can_new = {e["name"]: e["value"] for e in en["enumerators"]}["CanOpenNew"]
    n = 0
    for fn in [f for f in F.fns(FW + "::FileWriter") if f.d.get("ctor") is not False and len(f.params) == 2 and f.cfg]:
        pm = ("var", fn.params[1]["n"], fn.params[1]["d"])
        mask = ("op", "&", pm, ("const", can_new))

        def nonzero(t):
            return t == mask or (t[0] == "op" and t[1] == "!=" and ((t[2] == mask and t[3] == ("const", 0)) or (t[3] == mask and t[2] == ("const", 0)))) \
                or (t[0] == "op" and t[1] in (">", "<") and ((t[2] == mask and t[3] == ("const", 0)) or (t[3] == mask and t[2] == ("const", 0))))
        eng = Engine(F, S)
        eng.analyze(fn, frozenset())
        for st in find_calls(F, fn, lambda nd: (nd.get("fq") or "").endswith("XFile::NewDirectory")):
            n += 1
            site = final_site_facts(eng, st.owner, st.node["id"]) or set()
            if st.subst:
                site = {substitute(f, st.subst) for f in site}
            good = any((f[0] == "true" and nonzero(f[1])) or (f[0] == "!=" and (nonzero(("op", "!=", f[1], f[2])))) or
                       (f[0] == "<" and f[1] == ("const", 0) and f[2] == mask) for f in site)
            inst = FW + "::FileWriter#directory-needs-CanOpenNew"
            req = "a missing parent directory is created only when the open mode includes CanOpenNew"
            if good:
                out.append(ok("R-ORDER", inst, fn.loc(st.outer_id()), fn.qn, req, "the CanOpenNew test dominates NewDirectory"))
            else:
                out.append(bad("R-ORDER", inst, fn.loc(st.outer_id()), fn.qn, req,
                               "NewDirectory is reached without the CanOpenNew flag having been tested: an open that is then refused leaves a new directory behind"))
    return out, n


def r_openmode(F, S, run):
    fn = F.fn(FW + "::TranslateFlags", nparams=2)
    en = F.enums.get(FW + "::OpenMode")
    if not en:
        raise AnalysisBroken("enum FileWriter::OpenMode not found")
    ev = {e["name"]: e["value"] for e in en["enumerators"]}
    for k in ("CanOpenExisting", "CanOpenNew", "Truncate", "Append"):
        if k not in ev:
            raise AnalysisBroken("OpenMode::%s missing" % k)
    EX, NW, TR, AP = ev["CanOpenExisting"], ev["CanOpenNew"], ev["Truncate"], ev["Append"]
    pvar = ("var", fn.params[1]["n"], fn.params[1]["d"])

    def decode(f, pv, depth=0):
        """[(constraints, outcome, ios flags)] over the acyclic paths of f; calls of repository helpers that receive the flag
        word are expanded in place (a helper path that throws ends the caller's path; one that returns adds its constraints)."""
        if depth > 3:
            raise AnalysisBroken("TranslateFlags: helper nesting too deep for decision-table extraction")
        g = CFG(f)
        res = []
        for path, outcome in enumerate_paths(f, g):
            alts = [([], 0)]            # (constraints, flags) alternatives so far along this path
            okp = True
            ended = []                  # alternatives that ended in a helper's throw
            for (b, dec) in path:
                for e in g.blocks[b]["elems"]:
                    if not isinstance(e, int):
                        continue
                    nd = f.n(e)
                    if nd["k"] == "DeclStmt":
                        for d in nd.get("decls", []):
                            if "init" in d and (d.get("ct") or "").startswith("std::_Ios_Openmode"):
                                t = f.term(d["init"])
                                if t[0] == "const":
                                    alts = [(c, t[1]) for (c, fl) in alts]
                                else:
                                    okp = False
                    if nd["k"] == "CXXOperatorCallExpr" and nd.get("op") == "|=":
                        t = f.term(nd["args"][1])
                        if t[0] == "const":
                            alts = [(c, fl | t[1]) for (c, fl) in alts]
                        else:
                            okp = False
                    if nd["k"] == "CXXOperatorCallExpr" and nd.get("op") in ("=", "&=", "^="):
                        okp = False
                    if nd["k"] in ("CallExpr", "CXXMemberCallExpr") and nd.get("args"):
                        cals = [c for c in F.callees(nd) if c.cfg and "/Stream/FileWriter" in c.file and c.key != f.key]
                        passes = [i for i, a in enumerate(nd["args"]) if f.term(a) == pv]
                        if len(cals) == 1 and passes and passes[0] < len(cals[0].params):
                            h = cals[0]
                            hp = h.params[passes[0]]
                            sub = decode(h, ("var", hp["n"], hp["d"]), depth + 1)
                            new_alts = []
                            for (c, fl) in alts:
                                for (hc, ho, _hfl) in sub:
                                    if ho == "throw":
                                        ended.append((c + hc, fl))
                                    else:
                                        new_alts.append((c + hc, fl))
                            alts = new_alts
                if dec is not None:
                    m = mask_decision(f, dec[0], dec[1], pv)
                    if m is None:
                        okp = False
                    else:
                        alts = [(c + [m], fl) for (c, fl) in alts]
            if not okp:
                raise AnalysisBroken("TranslateFlags: a path uses a construct outside the decision-table fragment")
            for (c, fl) in ended:
                res.append((c, "throw", fl))
            for (c, fl) in alts:
                res.append((c, outcome, fl))
        return res
    decoded = decode(fn, pvar)
    out = []
    n = 0
    all_bits = EX | NW | TR | AP
    for v in range(0, all_bits + 1):
        if v & ~all_bits:
            continue
        for exists in (False, True):
            match = []
            for cons, outcome, flags in decoded:
                good = True
                for c in cons:
                    if c[0] == "mask" and ((v & c[1]) != 0) != c[2]:
                        good = False
                    if c[0] == "exists" and c[1] != exists:
                        good = False
                if good:
                    match.append((outcome, flags))
            outcomes = set(match)
            if len(outcomes) != 1:
                raise AnalysisBroken("TranslateFlags: input (flags=%d, exists=%s) matches %d distinct outcomes" % (v, exists, len(outcomes)))
            outcome, flags = match[0]
            must_throw = (v & (EX | NW)) == 0 or ((v & TR) and (v & AP)) or (not (v & EX) and exists) or (not (v & NW) and not exists)
            n += 1
            inst = "TranslateFlags#flags=%d,exists=%d" % (v, int(exists))
            names = "|".join(k for k, b in (("CanOpenExisting", EX), ("CanOpenNew", NW), ("Truncate", TR), ("Append", AP)) if v & b) or "0"
            if must_throw:
                if outcome == "throw":
                    out.append(ok("R-OPENMODE", inst, fn.loc(fn.body), fn.qn, "%s with file %s is refused" % (names, "present" if exists else "absent"),
                                  "the only compatible path ends in a throw"))
                else:
                    out.append(bad("R-OPENMODE", inst, fn.loc(fn.body), fn.qn, "%s with file %s is refused" % (names, "present" if exists else "absent"),
                                   "a returning path is compatible (ios flags %d)" % flags))
                continue
            fl = {k for k, b in IOS.items() if flags & b}
            probs = []
            if outcome != "return":
                probs.append("valid combination is refused")
            else:
                mode = fopen_mode(fl)
                if "binary" not in fl:
                    probs.append("binary missing")
                if mode is None:
                    probs.append("ios mode %s is not a valid open mode ([filebuf.members] table): the open fails" % "|".join(sorted(fl)))
                else:
                    if not exists and mode not in ("w", "a", "w+", "a+"):
                        probs.append("file absent but fopen mode \"%s\" does not create it" % mode)
                    if (v & TR) and mode not in ("w", "w+"):
                        probs.append("Truncate requested but fopen mode \"%s\" does not truncate" % mode)
                    if v & AP:
                        if mode in ("w", "w+"):
                            probs.append("Append requested but fopen mode \"%s\" truncates (`out` without `in`/`app`)" % mode)
                        elif not (mode in ("a", "a+") or "ate" in fl):
                            probs.append("Append requested but the stream is not positioned at the end")
                    if "out" not in fl and "app" not in fl:
                        probs.append("not opened for writing")
            req = "%s with file %s opens with the matching ios mode" % (names, "present" if exists else "absent")
            if probs:
                out.append(bad("R-OPENMODE", inst, fn.loc(fn.body), fn.qn, req, "; ".join(probs) + " (flags: %s)" % "|".join(sorted(fl))))
            else:
                out.append(ok("R-OPENMODE", inst, fn.loc(fn.body), fn.qn, req, "ios flags %s = fopen \"%s\"" % ("|".join(sorted(fl)), fopen_mode(fl))))
    # the constructor opens with exactly the translated flags, after the directory refusal
    ctor = [f for f in F.fns(FW + "::FileWriter") if not f.d.get("copy_ctor") and len(f.params) == 2]
    if len(ctor) != 1:
        raise AnalysisBroken("FileWriter(filename, mode) constructor not found")
    c = ctor[0]
    opens = [nd for nd in c.nodes if nd["k"] in CTORS and (nd.get("ctor_rec") or "").startswith("std::basic_ofstream") and len(nd.get("args", [])) >= 2]
    good = False
    for nd in opens:
        t = c.term(nd["args"][1])
        if t[0] == "call" and t[1].endswith("FileWriter::TranslateFlags") and t[3][1] == ("var", c.params[1]["n"], c.params[1]["d"]) \
                and c.term(nd["args"][0]) == ("var", c.params[0]["n"], c.params[0]["d"]):
            good = True
    n += 1
    if good:
        out.append(ok("R-OPENMODE", "FileWriter::FileWriter#open", c.loc(opens[0]["id"]), c.qn,
                      "the stream is opened on `filename` with TranslateFlags(filename, openMode)", "shape found"))
    else:
        out.append(bad("R-OPENMODE", "FileWriter::FileWriter#open", c.loc(c.body), c.qn,
                       "the stream is opened on `filename` with TranslateFlags(filename, openMode)", "no such ofstream construction"))
    return out, n


def r_narrow_prefix(F, S):
    """Writer::Write<SizeType,T>: the cast to SizeType is dominated by a refusal of sizes above its maximum."""
    out = []
    n = 0
    for fn in sorted(F.fns(WR + "::Write"), key=lambda f: f.key):
        targs = fn.d.get("targs") or []
        if not (len(targs) == 2 and "iw" in targs[0] and len(fn.params) == 1):
            continue
        n += 1
        eng = Engine(F, S)
        eng.analyze(fn, frozenset())
        casts = [nd for nd in fn.nodes if nd["k"] == "CXXStaticCastExpr" and nd.get("iw") == targs[0]["iw"]]
        outer = fn
        helper_call = None
        if not casts:
            # the refusal and the cast may live in a conversion helper the prefix is obtained from
            w0 = sorted([nd for nd in fn.nodes if nd["k"] in CALLS and nd.get("fname") == "Write"], key=lambda x: x["id"])
            if w0 and w0[0].get("args"):
                a0 = fn.n(fn.strip(w0[0]["args"][0]))
                hs = [h for h in (F.callees(a0) if a0["k"] in CALLS else []) if h.cfg and len(h.params) == 1]
                if len(hs) == 1 and fn.term(a0["args"][0]) == ("size", ("var", fn.params[0]["n"], fn.params[0]["d"])):
                    helper_call = a0
                    fn = hs[0]
                    eng = Engine(F, S)
                    eng.analyze(fn, frozenset())
                    casts = [nd for nd in fn.nodes if nd["k"] == "CXXStaticCastExpr" and nd.get("iw") == targs[0]["iw"]]
        if len(casts) != 1:
            raise AnalysisBroken("Writer::Write<SizeType>: expected exactly one static_cast<SizeType> in %s (or in the helper the prefix comes from)" % outer.key)
        cst = casts[0]
        src = fn.kids(cst["id"])[0]
        W = Width(fn)
        iw, sg = targs[0]["iw"], targs[0].get("is")
        tmax = (1 << (iw - (1 if sg else 0))) - 1
        site = final_site_facts(eng, fn, cst["id"]) or set()
        v = fn.term(src)
        inst = "%s#prefix-cast" % outer.key
        req = "container size > %d is refused before static_cast<%s>" % (tmax, targs[0].get("ct"))
        need = W.needed(src)
        if (1 << need) - 1 <= tmax:
            out.append(ok("R-NARROW", inst, fn.loc(cst["id"]), fn.qn, req, "the size type itself fits", nontrivial=False))
        elif prove_le(site, v, ("const", tmax)):
            out.append(ok("R-NARROW", inst, fn.loc(cst["id"]), fn.qn, req, "guard %s <= %d dominates the cast" % (fmt_term(v), tmax)))
        else:
            out.append(bad("R-NARROW", inst, fn.loc(cst["id"]), fn.qn, req,
                           "no dominating bound on %s; facts: %s" % (fmt_term(v), "; ".join(sorted(fmt_fact(f) for f in site if f[0] not in ("ev", "called"))) or "none")))
        # the prefix written is that cast and the container follows
        if helper_call is not None:
            # the helper returns the cast value on its only returning path
            from ..rules_sib import returns as _returns
            rs = _returns(fn)
            ret_ok = len(rs) == 1 and fn.term(rs[0]["value"]) == fn.term(cst["id"])
            cst_term = outer.term(helper_call["id"])
            fn = outer
            if not ret_ok:
                out.append(bad("R-SEQ", "%s#prefix-then-data" % fn.key, fn.loc(fn.body), fn.qn,
                               "prefix (cast size) is written, then the container", "the conversion helper does not return the checked cast"))
                continue
        else:
            cst_term = fn.term(cst["id"])
        writes = [nd for nd in fn.nodes if nd["k"] in CALLS and nd.get("fname") == "Write"]
        pv = ("var", fn.params[0]["n"], fn.params[0]["d"])
        shape = len(writes) == 2 and fn.strip(writes[0]["args"][0], casts=False) is not None and \
            fn.term(writes[0]["args"][0]) == cst_term and fn.term(writes[1]["args"][0]) == pv and \
            writes[0]["id"] < writes[1]["id"] or (len(writes) == 2 and fn.term(writes[1]["args"][0]) == pv)
        if shape:
            out.append(ok("R-SEQ", "%s#prefix-then-data" % fn.key, fn.loc(writes[0]["id"]), fn.qn,
                          "prefix (cast size) is written, then the container", "Write(static_cast<SizeType>(size)); Write(container)", nontrivial=False))
        else:
            out.append(bad("R-SEQ", "%s#prefix-then-data" % fn.key, fn.loc(fn.body), fn.qn,
                           "prefix (cast size) is written, then the container", "shape not found"))
    return out, n


def copy_loop(F, S):
    """Writer::Write<BufferSize>(Reader&): one count per iteration, loop ends only on 0, chunk == buffer extent."""
    out = []
    n = 0
    for fn in sorted(F.fns(WR + "::Write"), key=lambda f: f.key):
        targs = fn.d.get("targs") or []
        if not (len(targs) == 1 and "int" in targs[0] and len(fn.params) == 1 and "Reader" in (fn.params[0].get("ct") or "")):
            continue
        n += 1
        bs = targs[0]["int"]
        rp = [nd for nd in fn.nodes if nd["k"] in CALLS and nd.get("fname") == "ReadPartial"]
        wr = [nd for nd in fn.nodes if nd["k"] in CALLS and nd.get("fname") in ("Write", "WriteImplementation") and len(nd.get("args", [])) == 2]
        do = [nd for nd in fn.nodes if nd["k"] in ("DoStmt", "ForStmt", "WhileStmt")]
        inst = "%s#copy-loop" % fn.key
        if len(rp) != 1 or len(wr) != 1 or len(do) != 1:
            raise AnalysisBroken("copy loop shape not recognised in %s" % fn.key)
        rp, wr, do = rp[0], wr[0], do[0]
        # numBytesRead = ReadPartial(buffer.data(), BufferSize)   (assigned, or declared with it)
        asg = [nd for nd in fn.nodes if nd["k"] == "BinaryOperator" and nd.get("op") == "=" and fn.strip(fn.kids(nd["id"])[1]) == rp["id"]]
        cnt = None
        asg_id = None
        if len(asg) == 1:
            cnt = fn.term(fn.kids(asg[0]["id"])[0])
            asg_id = asg[0]["id"]
        else:
            for nd in fn.nodes:
                if nd["k"] == "DeclStmt":
                    for d in nd.get("decls", []):
                        if "init" in d and fn.strip(d["init"]) == rp["id"]:
                            cnt = ("var", d["n"], d["d"])
                            asg_id = nd["id"]
        if cnt is None:
            raise AnalysisBroken("copy loop: ReadPartial result is not assigned to a local in %s" % fn.key)
        buf = fn.term(rp["args"][0])
        req_len = fn.term(rp["args"][1])
        probs = []
        bufv = buf[2] if buf[0] == "call" and buf[1].endswith("::data") else None
        if req_len != ("const", bs) and not (bufv is not None and req_len == ("size", bufv)):
            probs.append("requested chunk %s != BufferSize %d" % (fmt_term(req_len), bs))
        bufvar = buf[2] if buf[0] == "call" and buf[1].endswith("::data") else None
        arr_len = None
        for nd in fn.nodes:
            if nd["k"] == "DeclStmt":
                for d in nd.get("decls", []):
                    if bufvar and ("var", d.get("n"), d.get("d")) == bufvar:
                        ct = d.get("ct", "")
                        if ct.startswith("std::array<char, "):
                            arr_len = int(ct[len("std::array<char, "):].rstrip(">").strip())
        if arr_len is None or arr_len < bs:
            probs.append("buffer extent %s smaller than requested chunk %d" % (arr_len, bs))
        if fn.term(wr["args"][0]) != buf:
            probs.append("write source %s is not the read buffer" % fmt_term(fn.term(wr["args"][0])))
        if fn.term(wr["args"][1]) != cnt:
            probs.append("write length %s is not the count returned by ReadPartial (%s)" % (fmt_term(fn.term(wr["args"][1])), fmt_term(cnt)))
        if not (asg_id < wr["id"]):
            probs.append("write precedes the read")
        from ..through import continue_conditions
        cc = continue_conditions(fn, do)
        okc = (cnt, ("op", "!=", cnt, ("const", 0)), ("op", ">", cnt, ("const", 0)), ("op", "!=", ("const", 0), cnt), ("op", "<", ("const", 0), cnt))
        if not (len(cc) == 1 and cc[0] in okc):
            probs.append("the loop continues on %s, not exactly on `count != 0`" % (" && ".join(fmt_term(t) for t in cc) or "nothing"))
        body = set(fn.subtree(do["body"]))
        if rp["id"] not in body or wr["id"] not in body:
            probs.append("read/write not both inside the loop body")
        if any(fn.n(x)["k"] in ("ReturnStmt", "ContinueStmt") for x in body):
            probs.append("loop has another exit")
        # a `break` form must test the count after the write of that iteration (the final zero-length write is harmless,
        # a test before the write is equally fine); what matters is that nothing is skipped while count != 0

        if probs:
            out.append(bad("R-COUNT", inst, fn.loc(do["id"]), fn.qn,
                           "each iteration writes exactly the bytes ReadPartial delivered; the loop ends only on a 0 count", "; ".join(probs)))
        else:
            out.append(ok("R-COUNT", inst, fn.loc(do["id"]), fn.qn,
                          "each iteration writes exactly the bytes ReadPartial delivered; the loop ends only on a 0 count",
                          "do { n = ReadPartial(buf, %d); Write(buf, n); } while (n)" % bs))
    return out, n


def typed_lengths(F, S):
    """Typed writes mirror typed reads: same (pointer, length) expressions."""
    out = []
    n = 0
    shapes = {}
    for side, q, impl in (("read", NS + "Reader::Read", "ReadImplementation"), ("write", WR + "::Write", "WriteImplementation")):
        for fn in F.fns(q):
            targs = fn.d.get("targs") or []
            if len(fn.params) != 1 or len(targs) != 1 or "ct" not in targs[0]:
                continue
            calls = [nd for nd in fn.nodes if nd["k"] in CALLS and nd.get("fname") == impl]
            loops = [nd for nd in fn.nodes if nd["k"] in ("ForStmt", "WhileStmt", "DoStmt", "CXXForRangeStmt")]
            in_loop = [c for c in calls if any(c["id"] in fn.subtree(l["id"]) for l in loops)]
            elementwise = [nd for nd in fn.nodes if nd["k"] in CALLS and nd.get("fname") in ("Write", "Read") and any(nd["id"] in fn.subtree(l["id"]) for l in loops)]
            if in_loop or (not calls and elementwise):
                # moved piecewise: a value that does not fit (or is not all there) is then partly transferred before the refusal
                key0 = targs[0]["ct"].replace("const ", "")
                out.append(bad("R-ATOMIC", "typed<%s>#single-transfer:%s" % (key0, side), fn.loc((in_loop or elementwise)[0]["id"]), fn.qn,
                               "a typed %s moves its bytes with one primitive call (it happens completely or is refused as a whole)" % side,
                               "the bytes are moved element by element in a loop: a refusal part-way leaves the earlier elements transferred and the position moved"))
                continue
            if len(calls) != 1:
                continue
            a = calls[0]["args"]
            pv = ("var", fn.params[0]["n"], fn.params[0]["d"])
            from ..flow import substitute
            sh = (substitute(fn.xterm(a[0]), {pv: ("X",)}), substitute(fn.xterm(a[1]), {pv: ("X",)}))
            key = targs[0]["ct"].replace("const ", "")
            shapes.setdefault(key, {})[side] = (fn, calls[0], sh)
    for key, d in sorted(shapes.items()):
        if "read" in d and "write" in d:
            n += 1
            (rf, rc, rs), (wf, wc, ws) = d["read"], d["write"]
            inst = "typed<%s>#length" % key
            if rs == ws:
                out.append(ok("R-SEQ", inst, wf.loc(wc["id"]), wf.qn, "Write(T) and Read(T) pass the same (pointer, length)",
                              "%s, %s" % (fmt_term(ws[0]), fmt_term(ws[1])), nontrivial=False))
            else:
                out.append(bad("R-SEQ", inst, wf.loc(wc["id"]), wf.qn, "Write(T) and Read(T) pass the same (pointer, length)",
                               "write passes (%s, %s), read passes (%s, %s)" % (fmt_term(ws[0]), fmt_term(ws[1]), fmt_term(rs[0]), fmt_term(rs[1]))))
    return out, n


def resize_fill(F, S):
    """Every seek of the growing writer ends in a resize of the buffer with an explicit 0 fill value: directly, or by
    delegating to a sibling seek that does."""
    out = []
    n = 0
    direct = {}
    for name in ("SeekForward", "SeekBackward", "Seek"):
        fn = F.fn(DW + "::" + name, nparams=1)
        rs = [nd for nd in fn.nodes if nd["k"] == "CXXMemberCallExpr" and nd.get("fname") == "resize"
              and "obj" in nd and fn.term(nd["obj"]) == ("mem", ("this",), "streamBuffer")]
        direct[name] = (fn, rs)
    for name, (fn, rs) in direct.items():
        inst = "%s#zero-fill" % fn.qn
        req = "the gap opened by a seek is filled with an explicit 0"
        if rs:
            for r in rs:
                n += 1
                a = r.get("args", [])
                if len(a) == 2 and fn.term(a[1]) == ("const", 0):
                    out.append(ok("R-INIT", inst, fn.loc(r["id"]), fn.qn, req, "resize(n, 0)", nontrivial=False))
                else:
                    out.append(bad("R-INIT", inst, fn.loc(r["id"]), fn.qn, req, "resize without the 0 fill argument"))
            continue
        # no resize of its own: must hand the new size to a sibling seek that resizes
        sib = [nd for nd in fn.nodes if nd["k"] == "CXXMemberCallExpr" and nd.get("fname") in direct and nd.get("fname") != name
               and fn.term(nd["obj"]) == ("this",) and direct[nd["fname"]][1]]
        if len(sib) == 1:
            out.append(ok("R-INIT", inst, fn.loc(sib[0]["id"]), fn.qn, req, "delegates to %s, which resizes with the 0 fill" % sib[0]["fname"], nontrivial=False))
        else:
            raise AnalysisBroken("%s neither resizes streamBuffer nor delegates to a sibling seek" % fn.qn)
    return out, n


def check(F, run, tier):
    S = Summaries(F)
    # refusals at the edge of an integer type's range are exact (neither the largest representable value is turned away nor
    # the first unrepresentable one let through), wherever in the library they are made
    from ..rules_stream import capacity_refusals_exact
    _oc, _nc = capacity_refusals_exact(F, S, ["/src/"])
    run.add(_oc)
    run.floor("capacity-refusals", _nc, 33)
    # a failed or short file read must not leave the shared stream failed: later seeks and reads on the same reader would be ignored
    from ..rules_archive import r_fstream
    for _nm in ("ReadImplementation", "ReadPartial"):
        run.add(r_fstream(F, S, F.fn("OP2Utility::Stream::FileReader::" + _nm, nparams=2)))
    run.declined = DECLINED
    run.explanation = (
        "Static analysis of the writer classes. Decided: R-CURSOR/R-NOWRAP/R-ATOMIC on MemoryWriter (every store to "
        "offset preserves offset <= streamSize; guards wrap-free for all 64-bit arguments, including the arithmetic "
        "passed on to Seek; failure precedes every change), R-NOWRAP on DynamicMemoryWriter's size arithmetic before "
        "resize and the explicit zero fill, R-NARROW on the size-prefix cast in every instantiated prefix width, the "
        "shape of the reader-to-writer copy loop (one count per iteration), agreement of typed write/read length "
        "expressions, and R-OPENMODE: the decision table of FileWriter::TranslateFlags extracted from its CFG for all "
        "16 flag words x file present/absent against the refusal and truncation/append requirements.")
    inv = {norm_cmp("<=", ("mem", ("this",), "offset"), ("mem", ("this",), "streamSize"))}

    obs, n = r_cursor(F, Engine(F, S), MW, "offset", ("mem", ("this",), "streamSize"))
    run.add(obs)
    run.floor("R-CURSOR", n, 3)

    guards = 0
    for name, np_ in (("WriteImplementation", 2), ("Seek", 1), ("SeekForward", 1), ("SeekBackward", 1)):
        fn = F.fn(MW + "::" + name, nparams=np_)
        obs, g = r_nowrap(F, Engine(F, S), fn, invariants=inv, call_args=True)
        guards += g
        run.add(obs)
        run.add(r_atomic(F, S, fn, label="%s::%s" % (MW, name)))
    for name, np_ in (("WriteImplementation", 2), ("SeekForward", 1), ("SeekBackward", 1), ("Seek", 1)):
        fn = F.fn(DW + "::" + name, nparams=np_)
        obs, g = r_nowrap(F, Engine(F, S), fn, call_args=True)
        guards += g
        run.add(obs)
        run.add(r_atomic(F, S, fn, label="%s::%s" % (DW, name)))
    run.floor("R-NOWRAP(guards)", guards, 5)

    def P(fn, i):
        return ("var", fn.params[i]["n"], fn.params[i]["d"])
    off, lim = ("mem", ("this",), "offset"), ("mem", ("this",), "streamSize")
    f = F.fn(MW + "::WriteImplementation", nparams=2)
    run.add(r_guard_exact(F, Engine(F, S), f, [(P(f, 1), ("op", "-", lim, off))], invariants=inv))
    f = F.fn(MW + "::Seek", nparams=1)
    run.add(r_guard_exact(F, Engine(F, S), f, [(P(f, 0), lim)], invariants=inv))
    f = F.fn(MW + "::SeekForward", nparams=1)
    run.add(r_guard_exact(F, Engine(F, S), f, [(P(f, 0), ("op", "-", lim, off))], invariants=inv))
    f = F.fn(MW + "::SeekBackward", nparams=1)
    run.add(r_guard_exact(F, Engine(F, S), f, [(P(f, 0), off)], invariants=inv))
    f = F.fn(DW + "::SeekBackward", nparams=1)
    run.add(r_guard_exact(F, Engine(F, S), f, [(P(f, 0), ("size", ("mem", ("this",), "streamBuffer")))]))
    for nm, np_ in (("SeekForward", 1), ("WriteImplementation", 2)):
        f = F.fn(DW + "::" + nm, nparams=np_)
        run.add(r_guard_exact(F, Engine(F, S), f, []))

    # the memcpy of the fixed-buffer writer targets streamBuffer + offset with the guarded size
    fn = F.fn(MW + "::WriteImplementation", nparams=2)
    mc = [nd for nd in fn.nodes if nd["k"] in CALLS and nd.get("fname") == "memcpy"]
    if len(mc) != 1:
        raise AnalysisBroken("expected one memcpy in MemoryWriter::WriteImplementation")
    dst = fn.xterm(mc[0]["args"][0])
    want = ("op", "+", ("mem", ("this",), "streamBuffer"), ("mem", ("this",), "offset"))
    if dst == want and fn.term(mc[0]["args"][2]) == ("var", fn.params[1]["n"], fn.params[1]["d"]):
        run.add(ok("R-SEQ", MW + "::WriteImplementation#copy-target", fn.loc(mc[0]["id"]), fn.qn,
                   "bytes are copied to streamBuffer + offset with the guarded size", fmt_term(dst), nontrivial=False))
    else:
        run.add(bad("R-SEQ", MW + "::WriteImplementation#copy-target", fn.loc(mc[0]["id"]), fn.qn,
                    "bytes are copied to streamBuffer + offset with the guarded size", "memcpy(%s, …, %s)" % (fmt_term(dst), fmt_term(fn.term(mc[0]["args"][2])))))
    # growing writer: memcpy goes to data() + old size, with the size that was added
    fn = F.fn(DW + "::WriteImplementation", nparams=2)
    eng = Engine(F, S)
    eng.analyze(fn, frozenset())
    mc = [nd for nd in fn.nodes if nd["k"] in CALLS and nd.get("fname") == "memcpy"]
    rs = [nd for nd in fn.nodes if nd["k"] == "CXXMemberCallExpr" and nd.get("fname") == "resize"]
    ins = [nd for nd in fn.nodes if nd["k"] == "CXXMemberCallExpr" and nd.get("fname") == "insert" and "obj" in nd
           and fn.term(nd["obj"]) == ("mem", ("this",), "streamBuffer")]
    if not mc and not rs and len(ins) == 1 and len(ins[0].get("args", [])) == 3:
        # `streamBuffer.insert(streamBuffer.end(), p, p + n)` with p the caller's buffer: the same append in one call
        a0, a1, a2 = fn.term(ins[0]["args"][0]), fn.xterm(ins[0]["args"][1]), fn.xterm(ins[0]["args"][2])
        while a0[0] == "ctor" and len(a0[2]) == 1:
            a0 = a0[2][0]
        p0, p1 = ("var", fn.params[0]["n"], fn.params[0]["d"]), ("var", fn.params[1]["n"], fn.params[1]["d"])
        good = a0[0] == "call" and a0[1].split("::")[-1] in ("end", "cend") and a0[2] == ("mem", ("this",), "streamBuffer") \
            and a1 == p0 and a2 == ("op", "+", p0, p1)
        req_ = "append: exactly the n bytes of the caller's buffer are added after the old content"
        if good:
            run.add(ok("R-SEQ", DW + "::WriteImplementation#append", fn.loc(ins[0]["id"]), fn.qn, req_, "insert(end(), buffer, buffer + n)"))
        else:
            run.add(bad("R-SEQ", DW + "::WriteImplementation#append", fn.loc(ins[0]["id"]), fn.qn, req_,
                        "insert(%s, %s, %s)" % (fmt_term(a0), fmt_term(a1), fmt_term(a2))))
        mc = None
    elif len(mc) != 1 or len(rs) != 1:
        raise AnalysisBroken("DynamicMemoryWriter::WriteImplementation shape not recognised")
    if mc is not None:
        site = final_site_facts(eng, fn, mc[0]["id"]) or set()
        defs = definitions(site)
        sb = ("mem", ("this",), "streamBuffer")
        dst = fn.term(mc[0]["args"][0])
        ln = fn.term(mc[0]["args"][2])
        newsize = fn.term(rs[0]["args"][0])
        if newsize[0] == "var" and dst[0] == "op":
            # a named new size: its (only) definition, keeping the old-size local as it is
            from .c05 import alias_defs, resolve
            newsize = resolve(newsize, {k: v for k, v in alias_defs(fn).items() if k != dst[3]})
        good = dst[0] == "op" and dst[1] == "+" and dst[2][0] == "call" and dst[2][1].endswith("::data") and dst[2][2] == sb \
            and newsize == ("op", "+", dst[3], ln) and rs[0]["id"] < mc[0]["id"]
        oldsz_is_size = False
        for nd in fn.nodes:
            if nd["k"] == "DeclStmt":
                for d in nd.get("decls", []):
                    if dst[0] == "op" and ("var", d.get("n"), d.get("d")) == dst[3] and "init" in d and fn.term(d["init"]) == ("size", sb):
                        oldsz_is_size = True
        if good and oldsz_is_size:
            run.add(ok("R-SEQ", DW + "::WriteImplementation#append", fn.loc(mc[0]["id"]), fn.qn,
                       "append: resize(old + n) then copy n bytes to data() + old", "%s ; memcpy(%s, …, %s)" % (fmt_term(newsize), fmt_term(dst), fmt_term(ln))))
        else:
            run.add(bad("R-SEQ", DW + "::WriteImplementation#append", fn.loc(mc[0]["id"]), fn.qn,
                        "append: resize(old + n) then copy n bytes to data() + old", "resize(%s); memcpy(%s, …, %s)" % (fmt_term(newsize), fmt_term(dst), fmt_term(ln))))

    # the typed string read is the inverse of the typed string write: both move size() * sizeof(character) bytes
    from . import c12 as _c12
    _o, _ = _c12.typed_helpers(F, S, run)
    run.add([o for o in _o if ("basic_string" in o.instance and o.instance.endswith("#length")) or o.instance.endswith("#always-resized")])
    _od, _nd = directory_only_with_can_open_new(F, S)
    run.add(_od)
    run.floor("R-ORDER(directory creation)", _nd, 1)
    obs, n = resize_fill(F, S)
    run.add(obs)
    obs, n = r_narrow_prefix(F, S)
    run.add(obs)
    run.floor("R-NARROW", n, 9)
    obs, n = copy_loop(F, S)
    run.add(obs)
    run.floor("copy-loop", n, 3)
    # every ReadPartial the copy loop may call returns the count it delivered (shared with C12)
    for q in (NS + "MemoryReader", NS + "SliceReader<OP2Utility::Stream::FileReader>", NS + "FileReader"):
        run.add(r_count(F, Engine(F, S), F.fn(q + "::ReadPartial", nparams=2)))
    obs, n = typed_lengths(F, S)
    run.add(obs)
    run.floor("typed-lengths", n, 5)
    obs, n = r_openmode(F, S, run)
    run.add(obs)
    run.floor("R-OPENMODE", n, 33)

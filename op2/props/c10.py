"""C10 — PRT sprite metadata round-trips and always satisfies its cross-field rules."""
from ..extract import AnalysisBroken
from ..facts import CALLS, CTORS, fmt_term
from ..flow import Engine, Summaries, final_site_facts, fmt_fact
from ..report import ok, bad
from ..rules_layout import r_layout
from ..rules_narrow import r_narrow
from ..rules_sib import P, returns
from ..rules_stream import is_store
from ..witness import run_witnesses
from .seqdefs import seq_obligations
from . import c14, c20

A = "OP2Utility::ArtFile"

DECLINED = [
    "equality of the re-read structure and byte-stability (values); decided instead: reader and writer agree token for token and "
    "match the frozen PRT description, and the cross-field validations dominate every return / first write",
    "that the counts in the header equal the actual contents beyond the presence and placement of VerifyCountsMatchHeader "
    "(its arithmetic is not re-derived)",
]

WITNESSES = [
    ("art-write-on-const", "void f(const ArtFile& a, Stream::Writer& w) { a.Write(w); }", "compiles"),
    ("art-write-file-on-const", "void f(const ArtFile& a) { a.Write(std::string(\"x.prt\")); }", "compiles"),
]


def swap_sites(fn, F):
    """Calls to std::swap(x.red, x.blue) (or Color::SwapRedAndBlue) in fn: (node, object term)."""
    out = []
    for nd in fn.nodes:
        if nd["k"] in CALLS and (nd.get("fq") or "") in ("std::swap",) and len(nd.get("args", [])) == 2:
            a, b = fn.term(nd["args"][0]), fn.term(nd["args"][1])
            if a[0] == "mem" and b[0] == "mem" and a[1] == b[1] and {a[2], b[2]} == {"red", "blue"}:
                out.append((nd, a[1]))
        if nd["k"] == "CXXMemberCallExpr" and nd.get("fname") == "SwapRedAndBlue":
            out.append((nd, fn.term(nd["obj"])))
    return out


def loopvar(fn, loop):
    d = fn.n(loop["loopvar"])["decls"][0]
    return ("var", d["n"], d["d"]), d


def element_bodies(F, fn):
    """Every 'for each element of a container' in fn, whatever its form: a range-for, or std::for_each over
    [C.begin(), C.end()) with a one-parameter lambda. Each: dict(node, container, var (element variable), is_ref (the
    variable is a mutable reference to the element), host (function holding the body), body (node id in host))."""
    out = []
    for lp in fn.nodes:
        if lp["k"] == "CXXForRangeStmt":
            v, d = loopvar(fn, lp)
            out.append({"node": lp, "container": fn.term(lp["range"]), "var": v, "is_ref": bool(d.get("is_ref")) and not d.get("is_const"),
                        "host": fn, "body": lp["body"]})
        elif lp["k"] in CALLS and (lp.get("fq") or "") == "std::for_each" and len(lp.get("args", [])) == 3:
            a = [fn.term(x) for x in lp["args"]]
            if a[0][0] == "call" and a[0][1].split("::")[-1] == "begin" and a[1][0] == "call" and a[1][1].split("::")[-1] == "end" \
                    and a[0][2] is not None and a[0][2] == a[1][2] and a[2][0] == "lambda":
                lam = F.functions.get(a[2][1])
                if lam is not None and len(lam.params) == 1 and lam.body is not None:
                    p = lam.params[0]
                    out.append({"node": lp, "container": a[0][2], "var": ("var", p["n"], p["d"]), "is_ref": bool(p.get("ref")) and not p.get("const_ref"),
                                "host": lam, "body": lam.body})
    return out


def swapped_containers(F, fn, depth=2):
    """(node in fn, container term) for every container all of whose colours get red and blue exchanged once:
    a by-reference range-for over it whose body swaps the loop variable's red/blue once; or a call of a repository
    function that does this to its by-reference parameter."""
    out = []
    for eb in element_bodies(F, fn):
        h = eb["host"]
        sw = swap_sites(h, F)
        inside = [x for x in sw if x[0]["id"] in h.subtree(eb["body"]) and x[1] == eb["var"]]
        nested = [l2 for l2 in h.nodes if l2["k"] in ("CXXForRangeStmt", "ForStmt", "WhileStmt", "DoStmt") and l2["id"] != eb["node"]["id"] and l2["id"] in h.subtree(eb["body"])
                  and any(x[0]["id"] in h.subtree(l2["id"]) for x in inside)]
        if len(inside) == 1 and not nested and eb["is_ref"]:
            out.append((eb["node"], eb["container"]))
    if depth > 0:
        for nd in fn.nodes:
            if nd["k"] == "CXXMemberCallExpr" and not nd.get("args") and "obj" in nd:
                # X.Swap...() where the method exchanges the colours of one of its own member containers
                for cal in F.callees(nd):
                    if not cal.cfg or cal.key == fn.key or cal.qn == "OP2Utility::Color::SwapRedAndBlue":
                        continue
                    for (n2, obj) in swapped_containers(F, cal, depth - 1):
                        if obj[0] == "mem" and obj[1] == ("this",):
                            out.append((nd, ("mem", fn.term(nd["obj"]), obj[2])))
            if nd["k"] in CALLS and len(nd.get("args", [])) >= 1:
                for cal in F.callees(nd):
                    if not cal.cfg or cal.key == fn.key or not cal.params:
                        continue
                    for (n2, obj) in swapped_containers(F, cal, depth - 1):
                        for i, p in enumerate(cal.params):
                            if obj == ("var", p["n"], p["d"]) and p.get("ref") and not p.get("const_ref") and i < len(nd["args"]):
                                out.append((nd, fn.term(nd["args"][i])))
    return out


def element_of(fn, t, container):
    """Value term t denotes one element of `container`: container[i], or a by-reference range-for variable over it, or a
    reference local bound to such an element."""
    if t[0] == "idx" and t[1] == container:
        return True
    if t[0] == "var":
        for lp in fn.nodes:
            if lp["k"] == "CXXForRangeStmt":
                v, d = loopvar(fn, lp)
                if v == t and d.get("is_ref") and fn.term(lp["range"]) == container:
                    return True
        for nd in fn.nodes:
            if nd["k"] == "DeclStmt":
                for d in nd.get("decls", []):
                    if ("var", d.get("n"), d.get("d")) == t and d.get("is_ref") and "init" in d:
                        return element_of(fn, fn.term(d["init"]), container)
    return False


def element_of_any(fn, t, container):
    """element_of, also for by-value / const-reference range-for variables (reading an element)."""
    if element_of(fn, t, container):
        return True
    if t[0] == "var":
        for lp in fn.nodes:
            if lp["k"] == "CXXForRangeStmt":
                v, d = loopvar(fn, lp)
                if v == t and fn.term(lp["range"]) == container:
                    return True
    return False


def palette_swaps(F, S):
    out = []
    rp = F.fn(A + "::ReadPalette", nparams=2)
    wp = F.fn(A + "::WritePalettes", nparams=1)
    # reader: one swap per colour of the palette just read, after the read
    # the sprite file being filled: the ArtFile handed in, or the object itself when the helper is a member function
    artp = [("var", p["n"], p["d"]) for p in rp.params if (p.get("rec") or "") == A]
    art = artp[0] if artp else ("this",)
    pals = ("mem", art, "palettes")
    sw = swapped_containers(F, rp)
    reads = [nd for nd in rp.nodes if nd["k"] == "CXXMemberCallExpr" and nd.get("fname") == "Read" and element_of(rp, rp.term(nd["args"][0]), pals)]
    inst = A + "::ReadPalette#swap-once"
    req = "each palette read from the file has red and blue exchanged exactly once, after it is read"
    good = len(sw) == 1 and len(reads) == 1 and sw[0][0]["id"] > reads[0]["id"] and sw[0][1] == rp.term(reads[0]["args"][0])
    if good:
        out.append(ok("R-MUSTCALL", inst, rp.loc(sw[0][0]["id"]), rp.qn, req, "one swap per colour of the palette element just read"))
    else:
        out.append(bad("R-MUSTCALL", inst, rp.loc(rp.body), rp.qn, req, "%d swapped containers, %d palette reads; shape not as required" % (len(sw), len(reads))))
    # writer: swap applied to a by-value copy, exactly once, before that copy is written; the member is never swapped
    sw = swapped_containers(F, wp)
    inst = A + "::WritePalettes#swap-once-on-copy"
    req = "each palette is written with red and blue exchanged exactly once, on a by-value copy (the in-memory object is not altered)"
    good = len(sw) == 1 and sw[0][1][0] == "var"
    detail = "%d swapped containers" % len(sw)
    conv_ok = False
    if not sw:
        # form 2: what is written is h(element) for a converter h that swaps its by-value parameter once and returns it
        pals_this = ("mem", ("this",), "palettes")
        for nd in wp.nodes:
            if nd["k"] == "CXXMemberCallExpr" and nd.get("fname") == "Write" and nd.get("args"):
                a0 = wp.n(wp.strip(nd["args"][0]))
                if a0["k"] == "DeclRefExpr":
                    # a never-reassigned local initialised from the converter call
                    for dn in wp.nodes:
                        if dn["k"] == "DeclStmt":
                            for d in dn.get("decls", []):
                                if ("var", d.get("n"), d.get("d")) == wp.term(a0["id"]) and "init" in d:
                                    x = d["init"]
                                    while wp.n(x)["k"] in CTORS and wp.n(x).get("copy_or_move") and wp.n(x).get("args"):
                                        x = wp.strip(wp.n(x)["args"][0])
                                    a0 = wp.n(wp.strip(x))
                if a0["k"] in CALLS and len(a0.get("args", [])) == 1:
                    for h in F.callees(a0):
                        if not h.cfg or len(h.params) != 1 or h.params[0].get("ref"):
                            continue
                        hp = ("var", h.params[0]["n"], h.params[0]["d"])
                        hs = swapped_containers(F, h, depth=0)
                        rets_h = returns(h)
                        if len(hs) == 1 and hs[0][1] == hp and rets_h and all(h.term(r["value"]) == hp for r in rets_h) \
                                and element_of_any(wp, wp.term(a0["args"][0]), pals_this):
                            conv_ok = True
                            conv_site = nd
        if conv_ok:
            good = True
            detail = "the palette written is a converter's by-value copy of a stored palette, swapped once inside the converter"
    if good and not conv_ok:
        R = sw[0][1]
        decl = None
        src = None
        for nd in wp.nodes:
            if nd["k"] == "DeclStmt":
                for d in nd.get("decls", []):
                    if ("var", d.get("n"), d.get("d")) == R:
                        decl = d
                        if "init" in d:
                            src = wp.term(d["init"])
        for lp in wp.nodes:
            if lp["k"] == "CXXForRangeStmt":
                v, d = loopvar(wp, lp)
                if v == R:
                    decl = d
                    src = ("elem", wp.term(lp["range"]))
                elif src == v:
                    src = ("elem", wp.term(lp["range"]))
        by_value = decl is not None and not decl.get("is_ref")
        from_member = src == ("elem", ("mem", ("this",), "palettes")) or (src is not None and src[0] == "idx" and src[1] == ("mem", ("this",), "palettes"))
        writes = [nd for nd in wp.nodes if nd["k"] == "CXXMemberCallExpr" and nd.get("fname") == "Write" and wp.term(nd["args"][0]) == R]
        good = by_value and from_member and len(writes) == 1 and writes[0]["id"] > sw[0][0]["id"]
        detail = "swapped object is a by-value copy: %s; copied from the stored palette: %s; written after the swap: %s" % (by_value, from_member, len(writes) == 1)
    if good:
        out.append(ok("R-MUSTCALL", inst, wp.loc((conv_site if conv_ok else sw[0][0])["id"]), wp.qn, req, detail))
    else:
        out.append(bad("R-MUSTCALL", inst, wp.loc(wp.body), wp.qn, req, detail))
    return out


def validations(F, S):
    out = []
    rd = F.fn(A + "::Read", nparams=1, pred=lambda f: "Reader &)" in f.key)
    eng = Engine(F, S)
    ex = eng.analyze(rd, frozenset())
    for q, what in ((A + "::ValidateImageMetadata", "image metadata cross-field rules"),
                    (A + "::VerifyCountsMatchHeader", "animation / frame / layer totals"),
                    ("OP2Utility::PaletteHeader::Validate", "palette section headers (inside the palette loop)"),
                    ("OP2Utility::SectionHeader::Validate", "CPAL section tag")):
        inst = "%s::Read#validated:%s" % (A, q.split("::")[-1])
        req = "every ArtFile the reader returns has passed %s (%s)" % (q.split("::")[-1], what)
        from ..rules_valid import validated
        has = ex is not None and validated(F, rd, ex, q)
        if has:
            out.append(ok("R-MUSTCALL", inst, rd.loc(rd.body), rd.qn, req, "the call is on every path to the return"))
        else:
            out.append(bad("R-MUSTCALL", inst, rd.loc(rd.body), rd.qn, req, "a returning path bypasses it"))
    # ValidateImageMetadata runs after the image table has been filled
    ri = F.fn(A + "::ReadImageMetadata", nparams=2)
    rdc = [nd for nd in ri.nodes if nd["k"] == "CXXMemberCallExpr" and nd.get("fname") == "Read"]
    vc = [nd for nd in ri.nodes if nd["k"] == "CXXMemberCallExpr" and nd.get("fname") == "ValidateImageMetadata"]
    inst = A + "::ReadImageMetadata#order"
    if len(rdc) == 1 and len(vc) == 1 and vc[0]["id"] > rdc[0]["id"]:
        out.append(ok("R-ORDER", inst, ri.loc(vc[0]["id"]), ri.qn, "validation runs on the table that was just read", "Read then Validate"))
    else:
        out.append(bad("R-ORDER", inst, ri.loc(ri.body), ri.qn, "validation runs on the table that was just read", "order not found"))
    # writer: validation before the first token
    wr = F.fn(A + "::Write", nparams=1, pred=lambda f: "Writer &" in f.key)
    eng = Engine(F, S)
    eng.analyze(wr, frozenset())
    first = None
    for nd in wr.nodes:
        if nd["k"] == "CXXMemberCallExpr" and nd.get("fname") in ("WritePalettes", "Write", "WriteAnimations"):
            first = nd if first is None or nd["id"] < first["id"] else first
    site = final_site_facts(eng, wr, first["id"]) if first else None
    inst = A + "::Write#validated-first"
    req = "structures violating the cross-field rules are refused before anything is written"
    from ..rules_valid import validated
    if site is not None and validated(F, wr, site, A + "::ValidateImageMetadata"):
        out.append(ok("R-MUSTCALL", inst, wr.loc(first["id"]), wr.qn, req, "ValidateImageMetadata dominates the first write"))
    else:
        out.append(bad("R-MUSTCALL", inst, wr.loc(wr.body), wr.qn, req, "the first write is not dominated by ValidateImageMetadata"))
    # strength of the validation: palette index strictly below the palette count; scan line width = (width + 3) & ~3
    v = F.fn(A + "::ValidateImageMetadata", nparams=0)
    eng = Engine(F, S)
    ex = eng.analyze(v, frozenset())
    conds = []
    for f in (ex or ()):
        if f[0] == "ev" and f[1] == "each" and f[2][0] == "ev" and f[2][1] == "passed":
            conds.append(f[2][2])
    # (the palette count may have been named by a local first)
    pal = any(c[0] == "<" and c[1][0] == "mem" and c[1][2] == "paletteIndex" and
              (c[2] == ("size", ("mem", ("this",), "palettes")) or v.through_locals(c[2]) == ("size", ("mem", ("this",), "palettes"))) for c in conds)
    scan = any(c[0] == "==" and "scanLineByteWidth" in repr(c) and "width" in repr(c) and "-4" in repr(c) and "3" in repr(c) for c in conds)
    inst = A + "::ValidateImageMetadata#strength"
    req = "for every image: paletteIndex < palettes.size() and scanLineByteWidth == (width + 3) & ~3"
    if pal and scan:
        out.append(ok("R-INDEX", inst, v.loc(v.body), v.qn, req, "both refusals hold for each image on the returning path"))
    else:
        out.append(bad("R-INDEX", inst, v.loc(v.body), v.qn, req, "palette bound %s, scan-line rule %s; established: %s" % (
            "ok" if pal else "missing/weak", "ok" if scan else "missing", "; ".join(fmt_fact(c) for c in conds))))
    return out


def frame_init(F, S):
    """ReadFrame: the four optional bytes are defined on every path (assigned, value-initialised, read, or filled by a helper
    they are handed to) where the frame is returned."""
    from ..rules_init import local_defined
    fn = F.fn(A + "::ReadFrame", nparams=1)
    rets = returns(fn)
    out = []
    inst = A + "::ReadFrame#optional-defined"
    req = "optional1..optional4 are assigned on every path before the frame is returned (the conditional reads may not happen)"
    need = {("optional1",), ("optional2",), ("optional3",), ("optional4",)}
    rv = {fn.term(r["value"]) for r in rets}
    if len(rv) != 1 or list(rv)[0][0] != "var":
        raise AnalysisBroken("ArtFile::ReadFrame: expected to return one local frame")
    var = list(rv)[0]
    rec = None
    for nd in fn.nodes:
        if nd["k"] == "DeclStmt":
            for d in nd.get("decls", []):
                if ("var", d.get("n"), d.get("d")) == var:
                    rec = d.get("rec")
    if not rec:
        raise AnalysisBroken("ArtFile::ReadFrame: the returned local's type was not found")
    defined = None
    for r in rets:
        dd = local_defined(F, S, fn, var, rec, r["id"])
        defined = dd if defined is None else (defined & dd)
    missing = need - (defined or set())
    if not missing:
        out.append(ok("R-INIT", inst, fn.loc(fn.body), fn.qn, req, "all four are defined where the frame is returned"))
    else:
        out.append(bad("R-INIT", inst, fn.loc(fn.body), fn.qn, req, "not definitely assigned: %s" % ", ".join(sorted(p[0] for p in missing))))
    return out


def check(F, run, tier):
    S = Summaries(F)
    # const operations of the sprite file (counting, validating, writing) keep no state between calls
    from ..rules_archive import observers_keep_no_state
    _cf = [f for f in F.functions.values() if f.cls == A and f.cfg and f.d.get("const") and not f.d.get("implicit")]
    _ok, _nk = observers_keep_no_state(F, S, _cf, "a const operation of ArtFile")
    run.add(_ok)
    run.floor("R-WRITESET(const operations)", _nk, 4)
    from ..rules_archive import discarded_exception_obligations
    discarded_exception_obligations(F, S, run)
    # refusals at the edge of an integer type's range are exact (neither the largest representable value is turned away nor
    # the first unrepresentable one let through), wherever in the library they are made
    from ..rules_stream import capacity_refusals_exact
    _oc, _nc = capacity_refusals_exact(F, S, ["/src/"])
    run.add(_oc)
    run.floor("capacity-refusals", _nc, 33)
    run.declined = DECLINED
    run.explanation = (
        "Static analysis of the PRT serialiser pair. Decided: R-SEQ (ArtFile::Write, ArtFile::Read and spec/prt.seq.json agree "
        "token for token, including both optional-data conditionals on their own flag and the four optional bytes in order), "
        "R-LAYOUT of every sprite record and tag, R-MUSTCALL (every returned ArtFile passed the CPAL tag, palette header, "
        "image metadata and count validations; the writer validates before its first write and refuses a frame whose 7-bit "
        "count differs from its layer list before writing), strength of the metadata validation (strict palette bound, "
        "scan-line rule), red/blue exchange exactly once on each side and on a by-value copy when writing, R-NARROW on every "
        "count written, definite assignment of the optional frame bytes, and const-correctness witnesses.")
    obs, n = seq_obligations(F, "prt", min_sites=40)
    run.add(obs)
    run.add(r_layout(F, records=["OP2Utility::ImageMeta", "OP2Utility::ImageMeta::ImageType", "OP2Utility::Animation::Frame::LayerMetadata",
                                 "OP2Utility::Animation::Frame::Layer", "OP2Utility::Animation::UnknownContainer", "OP2Utility::PaletteHeader",
                                 "OP2Utility::SectionHeader", "OP2Utility::Rect", "OP2Utility::Point32", "OP2Utility::Color"],
                     constants=["OP2Utility::ArtFile::TagPalette", "OP2Utility::TagSection", "OP2Utility::TagHeader", "OP2Utility::TagData"]))
    run.add(validations(F, S))
    run.add(c20.frame_layers(F, S))
    run.add(palette_swaps(F, S))
    k = 0
    # every function the sprite writer runs (however it is split up), plus the palette header factory
    from ..through import closure
    wr_ = F.fn(A + "::Write", nparams=1, pred=lambda f: "Writer &" in f.key)
    swept = [f for f in closure(F, wr_, depth=3) if f.key != wr_.key]
    swept += [f for f in closure(F, F.fn("OP2Utility::PaletteHeader::CreatePaletteHeader", nparams=0), depth=1) if f.key not in {x.key for x in swept}]
    for f_ in swept:
        o, c = r_narrow(F, S, f_, explicit_only=True)
        # (64-bit accumulations of container sizes in counting helpers are not conversions into a file field)
        o = [x for x in o if "accumulation in" not in x.required]
        run.add(o)
        # a checked conversion moved into a helper is exercised once per call of the helper: the floor (a guard against
        # vacuity, counted in places where a count enters a file field) counts those calls
        sites_ = sum(1 for g_ in swept + [wr_] for nd_ in g_.nodes if nd_["k"] in CALLS and g_.key != f_.key and any(c_.key == f_.key for c_ in F.callees(nd_)))
        k += len(o) * max(1, sites_ if not f_.cls else 1)
    run.floor("R-NARROW", k, 7)
    run.add(frame_init(F, S))
    from .c18 import static_locals
    run.add([o for o in static_locals(F)[0] if "/Sprite/" in o.site or "Art" in o.instance or o.status == "violated"])
    run.add(run_witnesses(F, "C10", WITNESSES))

"""C17 — Name lookup and resource resolution are case-blind, consistent, loose-file-first."""
from ..extract import AnalysisBroken
from ..facts import CALLS, CTORS, fmt_term
from ..flow import Engine, Summaries, final_site_facts, fmt_fact, substitute, mentions
from ..report import ok, bad
from ..rules_sib import P, returns, enclosing_if_cond
from ..rules_archive import facts_txt
from . import c05, c19

AR = "OP2Utility::Archive::"
ARC = AR + "ArchiveFile"
RM = "OP2Utility::ResourceManager"
XF = "OP2Utility::XFile::"

DECLINED = [
    "everything that depends on the directory contents and on std::filesystem semantics (what is a regular file, './' inside fs::path)",
    "regex pattern listings (std::regex)",
    "that looking up the i-th name returns i (needs duplicate-freeness of the archive, a run-time fact)",
]


_ARCH = ("var", "$archive", -1)


def _unify(pat, t, b):
    if pat == _ARCH:
        if b.get("v", t) != t:
            return False
        b["v"] = t
        return True
    if isinstance(pat, tuple) and isinstance(t, tuple) and len(pat) == len(t):
        return all(_unify(p, x, b) for p, x in zip(pat, t))
    return pat == t


def contains_pattern(F, name):
    """What `archive.Contains(name)` reads as on the current tree (the call, or the expression a one-line Contains returns),
    with the archive left open, as the facts its truth implies."""
    from ..prove import term_cond_facts
    want = F.call_value(ARC + "::Contains", _ARCH, (name,))
    fs = term_cond_facts(want, True) if want[0] != "call" else set()
    return sorted(fs) if fs else [("true", want)]


def contains_held(F, site, name):
    """The archives `A` for which the facts at a site say A.Contains(name) held."""
    pats = contains_pattern(F, name)
    found = set()

    def forms(f):
        yield f
        if f[0] in ("==", "!=") and len(f) == 3:
            yield (f[0], f[2], f[1])
    for f in site:
        for g in forms(f):
            b = {}
            if _unify(pats[0], g, b) and "v" in b:
                a = b["v"]
                if all(any(_unify(p, h, {"v": a}) for f2 in site for h in forms(f2)) for p in pats[1:]):
                    found.add(a)
    return found


def contains_term_archive(F, t, name):
    """t is `A.Contains(name)` (as read on the current tree) for some archive A: A, else None."""
    want = F.call_value(ARC + "::Contains", _ARCH, (name,))
    b = {}
    return b.get("v") if _unify(want, t, b) else None


def locating_helper(F, S, h):
    """h is a manager helper `bool Find(name, archiveIndexOut, memberIndexOut)`: wherever it returns true the out-parameters hold
    (a, j) with PathsAreEqual(ArchiveFiles[a]->GetName(j), name) known to hold, and it returns false only after its loops over
    all archives and all members ran to their end. Returns {"name": i, "archive": i, "member": i} (parameter positions) or None."""
    if not h.cfg or h.cls != RM or (h.d.get("ret_ct") or "") != "bool":
        return None
    rets = returns(h)
    if not rets or any(h.term(r["value"]) not in (("const", 0), ("const", 1)) for r in rets):
        return None
    pv = [("var", p["n"], p["d"]) for p in h.params]
    outs = [i for i, p in enumerate(h.params) if p.get("ref") and not p.get("const_ref") and p.get("iw")]
    names = [i for i, p in enumerate(h.params) if "basic_string" in (p.get("ct") or "")]
    if len(outs) != 2 or len(names) != 1:
        return None
    eng = Engine(F, S)
    eng.analyze(h, frozenset())
    roles = None
    loops = [nd for nd in h.nodes if nd["k"] in ("ForStmt", "WhileStmt", "DoStmt", "CXXForRangeStmt")]
    in_loop = set()
    for l in loops:
        in_loop |= set(h.subtree(l["id"]))
    for r in rets:
        site = final_site_facts(eng, h, r["id"]) or set()
        if h.term(r["value"]) == ("const", 0):
            if r["id"] in in_loop:
                return None         # gives up before every archive was tried
            continue
        eq = {}
        for f in site:
            if f[0] == "==":
                for (x, y) in ((f[1], f[2]), (f[2], f[1])):
                    if x in pv and y[0] == "var":
                        eq[y] = x
        found = None
        for f in site:
            if f[0] == "true" and f[1][0] == "call" and f[1][1] == XF + "PathsAreEqual" and len(f[1][3]) == 2:
                for (a, b) in (f[1][3], f[1][3][::-1]):
                    a2, b2 = substitute(a, eq), substitute(b, eq)
                    if b2 == pv[names[0]] and a2[0] == "call" and a2[1] == ARC + "::GetName" and len(a2[3]) == 1 and a2[3][0] in pv \
                            and a2[2][0] == "un" and a2[2][1] == "*" and a2[2][2][0] == "idx" and a2[2][2][1] == ("mem", ("this",), "ArchiveFiles") \
                            and a2[2][2][2] in pv:
                        found = {"name": names[0], "archive": pv.index(a2[2][2][2]), "member": pv.index(a2[3][0])}
        if found is None or (roles is not None and roles != found) or {found["archive"], found["member"]} != set(outs):
            return None
        roles = found
    if roles is None:
        return None
    # the scans are whole: counting loops from 0 to the container's size / the archive's count, left only through the match
    for l in loops:
        body = set(h.subtree(l["body"])) if "body" in l else set()
        if any(h.n(x)["k"] in ("BreakStmt", "GotoStmt") for x in body):
            return None
        if l["k"] == "CXXForRangeStmt":
            continue
        if l["k"] != "ForStmt" or "init" not in l or "cond" not in l:
            return None
        ds = h.n(l["init"]).get("decls", [])
        c = h.term(l["cond"])
        if len(ds) != 1 or "init" not in ds[0] or h.term(ds[0]["init"]) != ("const", 0) or not (c[0] == "op" and c[1] == "<" and c[2] == ("var", ds[0]["n"], ds[0]["d"])):
            return None
        bound_ok = c[3] == ("size", ("mem", ("this",), "ArchiveFiles")) or \
            (c[3][0] in ("call", "mem") and (c[3][-1] == "m_Count" or (c[3][0] == "call" and c[3][1] == ARC + "::GetCount")))
        if not bound_ok:
            return None
    return roles


def located_by_helper(F, S, fn, site, name):
    """Pairs (archive term, member index term) that the facts at a site say a locating helper found for `name`."""
    out = []
    for f in site:
        if f[0] == "true" and f[1][0] == "call" and f[1][2] in (("this",), None):
            for h in F.fns(f[1][1]):
                if len(h.params) != len(f[1][3]):
                    continue
                roles = locating_helper(F, S, h)
                if roles and f[1][3][roles["name"]] == name:
                    a, j = f[1][3][roles["archive"]], f[1][3][roles["member"]]
                    out.append((("un", "*", ("idx", ("mem", ("this",), "ArchiveFiles"), a)), j))
    return out


def lookup_loops(F):
    """Contains and GetIndex iterate the same range with the same predicate."""
    out = []
    shapes = {}
    # both lookups may delegate the scan to one shared search helper (`bool Find(archive, name, indexOut)`): then there is one
    # scan, judged in the helper, and what remains is how each lookup uses its verdict
    shared = {}
    for name in ("Contains", "GetIndex"):
        fn = F.fn(ARC + "::" + name, nparams=1)
        if any(nd["k"] == "ForStmt" for nd in fn.nodes):
            continue
        for nd in fn.nodes:
            if nd["k"] in CALLS:
                for cal in F.callees(nd):
                    if cal.cfg and cal.key != fn.key and sum(1 for x in cal.nodes if x["k"] == "ForStmt") == 1 and cal.file.startswith(F.repo):
                        shared.setdefault(name, []).append((nd, cal))
    helper = None
    if len(shared) == 2 and all(len(v) == 1 for v in shared.values()) and shared["Contains"][0][1].key == shared["GetIndex"][0][1].key:
        helper = shared["Contains"][0][1]
    for name in ("Contains", "GetIndex"):
        outer = F.fn(ARC + "::" + name, nparams=1)
        fn = helper if helper is not None else outer
        loops = [nd for nd in fn.nodes if nd["k"] == "ForStmt"]
        if len(loops) != 1:
            raise AnalysisBroken("%s: expected one loop" % fn.qn)
        lp = loops[0]
        d = fn.n(lp["init"])["decls"][0]
        iv = ("var", d["n"], d["d"])
        body = fn.subtree(lp["body"])
        all_ifs = [fn.n(x) for x in body if fn.n(x)["k"] == "IfStmt"]
        ren = {iv: ("I",), P(fn, 0): ("NAME",)}
        if helper is not None:
            # the helper's parameters, named by what the lookup hands it: the archive itself, the name, a result slot
            call = shared[name][0][0]
            ren = {iv: ("I",)}
            for i, p in enumerate(helper.params):
                if i < len(call.get("args", [])):
                    at = outer.term(call["args"][i])
                    pv = ("var", p["n"], p["d"])
                    if at == P(outer, 0):
                        ren[pv] = ("NAME",)
                    elif at == ("un", "*", ("this",)) or at == ("this",):
                        ren[pv] = ("this",)
                    else:
                        ren[pv] = ("SLOT", i)
        # every way out of the loop body other than falling through to the next iteration, with the test that guards it
        exits = []
        for x in body:
            k = fn.n(x)["k"]
            if k not in ("BreakStmt", "ReturnStmt", "GotoStmt", "CXXThrowExpr"):
                continue
            guards = [i for i in all_ifs if x in fn.subtree(i["id"]) and x != i["id"]]
            g = max(guards, key=lambda i: i["id"]) if guards else None
            exits.append((k, substitute(fn.term(g["cond"]), ren) if g else ("const", 1), g, x))
        match = [e for e in exits if e[0] == "ReturnStmt" and e[2] is not None]
        if len(match) != 1:
            raise AnalysisBroken("%s: expected exactly one guarded return (the match) in the loop" % fn.qn)
        others = [e for e in exits if e is not match[0]]
        shape = (substitute(fn.term(d["init"]), ren), substitute(fn.term(lp["cond"]), ren), match[0][1],
                 tuple(sorted((e[0], e[1]) for e in others)))
        rets = [r for r in returns(fn) if r["id"] in fn.subtree(match[0][2]["then"])]
        shapes[name] = (fn, shape, match[0][2], rets, iv)
    (f1, s1, i1, r1, v1), (f2, s2, i2, r2, v2) = shapes["Contains"], shapes["GetIndex"]
    inst = ARC + "#Contains~GetIndex"
    req = "membership and index lookup scan the same range with the same predicate"
    if s1 == s2 and not s1[3]:
        out.append(ok("R-SIB", inst, f1.loc(i1["id"]), f1.qn, req, "for (i = %s; %s; ++i) if (%s)" % tuple(fmt_term(x) for x in s1[:3])))
    elif s1[:3] == s2[:3]:
        extra = ["%s leaves the scan early on %s (%s)" % (nm, fmt_term(c), k) for nm, sh in (("Contains", s1), ("GetIndex", s2)) for (k, c) in sh[3]]
        fx = f2 if s2[3] else f1
        out.append(bad("R-SIB", inst, fx.loc((i2 if s2[3] else i1)["id"]), fx.qn, req + ", and neither stops before the end on any other condition",
                       "; ".join(extra) + ": a member that matches later in the list is found by one lookup and not the other unless the list is sorted by exactly that order"))
    else:
        out.append(bad("R-SIB", inst, f1.loc(i1["id"]), f1.qn, req,
                       "Contains tests %s over %s; GetIndex tests %s over %s" % (fmt_term(s1[2]), fmt_term(s1[1]), fmt_term(s2[2]), fmt_term(s2[1]))))
    # the predicate is the case-blind path equality between the i-th name and the argument
    pred = s2[2]
    want = ("call", XF + "PathsAreEqual", None, (("call", ARC + "::GetName", ("this",), (("I",),)), ("NAME",)))
    want2 = ("call", XF + "PathsAreEqual", None, (("NAME",), ("call", ARC + "::GetName", ("this",), (("I",),))))
    inst = ARC + "::GetIndex#predicate"
    req = "the lookup predicate is XFile::PathsAreEqual(GetName(i), name) over 0 .. GetCount()"
    rng_ok = s2[0] == ("const", 0) and s2[1] in (("op", "<", ("I",), ("call", ARC + "::GetCount", ("this",), ())),
                                                 ("op", "<", ("I",), ("mem", ("this",), "m_Count")))
    if pred in (want, want2) and rng_ok:
        out.append(ok("R-SIB", inst, f2.loc(i2["id"]), f2.qn, req, fmt_term(pred)))
    else:
        out.append(bad("R-SIB", inst, f2.loc(i2["id"]), f2.qn, req, "predicate %s, range %s" % (fmt_term(pred), fmt_term(s2[1]))))
    # overrides of the (virtual) index lookup must search by the order the archive is sorted by
    base = F.fn(ARC + "::GetIndex", nparams=1)
    for k in sorted(F.overriders.get(base.key, ())):
        ov = F.functions.get(k)
        if ov is None:
            continue
        inst = "%s#override-agrees" % ov.qn
        req = "an override of GetIndex finds exactly the members Contains finds (same case-blind comparison / same sort key)"
        srch = [nd for nd in ov.nodes if nd["k"] in CALLS and (nd.get("fq") or "") in ("std::lower_bound", "std::binary_search", "std::upper_bound", "std::equal_range")]
        uses = " ".join(repr(ov.term(nd["id"])) for nd in srch)
        if srch and ("ComparePathFilenames" in uses or "IsEqualCaseInsensitive" in uses) and "ConvertToUpper" not in " ".join((nd.get("fq") or "") for nd in ov.all_calls()):
            out.append(ok("R-SIB", inst, ov.loc(ov.body), ov.qn, req, "binary search with the archive's own comparator"))
        elif srch:
            out.append(bad("R-SIB", inst, ov.loc(srch[0]["id"]), ov.qn, req,
                           "binary search with a different ordering / case folding than the one the members are sorted by (IsEqualCaseInsensitive folds with tolower)"))
        else:
            sub = [nd for nd in ov.nodes if nd["k"] in CALLS and (nd.get("fq") or "").endswith("XFile::PathsAreEqual")]
            if sub:
                out.append(ok("R-SIB", inst, ov.loc(ov.body), ov.qn, req, "linear scan with PathsAreEqual"))
            else:
                raise AnalysisBroken("%s overrides GetIndex with an unrecognised lookup" % ov.qn)
    # GetIndex returns the loop index of the match; Contains returns true there
    inst = ARC + "::GetIndex#returns-match"
    if helper is not None:
        # the helper stores the loop index into its result slot where it reports the match, and GetIndex returns the local it
        # passed as that slot on the branch where the helper reported a match
        gi = F.fn(ARC + "::GetIndex", nparams=1)
        call = shared["GetIndex"][0][0]
        then_ = helper.subtree(i2["then"])
        slot = None
        for x in then_:
            nx = helper.n(x)
            if nx["k"] == "BinaryOperator" and nx.get("op") == "=":
                l, r = helper.term(helper.kids(x)[0]), helper.term(helper.kids(x)[1])
                if r == v2 and l[0] == "var":
                    slot = [i for i, p in enumerate(helper.params) if ("var", p["n"], p["d"]) == l and p.get("ref") and not p.get("const_ref")]
        true_ret = len(r2) == 1 and helper.term(r2[0]["value"]) == ("const", 1)
        other_rets = [r for r in returns(helper) if r not in r2]
        co = F.fn(ARC + "::Contains", nparams=1)
        crets = returns(co)
        cinst = ARC + "::Contains#returns-verdict"
        mval = helper.term(r2[0]["value"]) if len(r2) == 1 else None
        if mval == v2 or (mval is not None and mval[0] == "ctor" and mval[1].startswith("std::optional<") and mval[2] == (v2,)):
            # index form: the helper returns the loop index at the match and, everywhere else, a value no index can equal
            # (the loop's own bound, or an empty optional); GetIndex returns the helper's value where it is known not to be
            # that value, Contains returns "is not that value"
            opt = mval != v2
            lc = helper.term(lp["cond"]) if "cond" in lp else None
            bound = lc[3] if lc and lc[0] == "op" and lc[1] == "<" and lc[2] == v2 else None
            if opt:
                sent_ok = bool(other_rets) and all(helper.term(r["value"]) in (("ctor", mval[1], (("global", "std::nullopt"),)), ("ctor", mval[1], ()))
                                                   for r in other_rets)
            else:
                sent_ok = bool(other_rets) and bound is not None and all(helper.term(r["value"]) == bound for r in other_rets)
            good = sent_ok
            gcall = gi.term(call["id"])
            ccall = co.term(shared["Contains"][0][0]["id"])

            def found_forms(c):
                if opt:
                    return [("true", ("call", mval[1] + "::has_value", c, ())), ("true", c), ("true", ("call", mval[1] + "::operator bool", c, ()))]
                return [("!=", c, bound), ("!=", bound, c)]
            grets = returns(gi)
            if good:
                good = len(grets) == 1
            if good:
                rv = gi.xterm(grets[0]["value"])
                if opt:
                    good = rv in (("call", mval[1] + "::value", gcall, ()), ("un", "*", gcall), ("call", mval[1] + "::operator*", gcall, ()))
                else:
                    good = rv == gcall
            if good:
                eng_g = Engine(F, Summaries(F))
                eng_g.analyze(gi, frozenset())
                site_g = final_site_facts(eng_g, gi, grets[0]["id"]) or set()
                site_x = set(site_g) | {tuple(gi.through_locals(x) if isinstance(x, tuple) else x for x in f) for f in site_g}
                good = any(f in site_x for f in found_forms(gcall))
            if good:
                out.append(ok("R-SIB", inst, gi.loc(call["id"]), gi.qn, "the index returned is the one whose name matched",
                              "the helper's index, where it is known not to be the not-found value"))
            else:
                out.append(bad("R-SIB", inst, gi.loc(gi.body), gi.qn, "the index returned is the one whose name matched", "return shape not recognised"))
            cgood = sent_ok and len(crets) == 1
            if cgood:
                from ..prove import term_cond_facts
                cv = co.xterm(crets[0]["value"])
                cf = term_cond_facts(cv, True) or {("true", cv)}
                cgood = len(cf) == 1 and any(f in cf for f in found_forms(ccall))
            if cgood:
                out.append(ok("R-SIB", cinst, co.loc(crets[0]["id"]), co.qn, "membership is the shared scan's verdict", "helper(...) is not the not-found value"))
            else:
                out.append(bad("R-SIB", cinst, co.loc(co.body), co.qn, "membership is the shared scan's verdict", "return shape not recognised"))
            return out
        false_else = all(helper.term(r["value"]) == ("const", 0) for r in other_rets) and bool(other_rets)
        good = bool(slot) and true_ret and false_else
        if good:
            passed = gi.term(call["args"][slot[0]])
            grets = [r for r in returns(gi)]
            # ... on a path where the helper's verdict is known to be true (`if (find(..)) return i;` or `if (!find(..)) throw; return i;`)
            good = len(grets) == 1 and gi.term(grets[0]["value"]) == passed
            if good:
                eng_g = Engine(F, Summaries(F))
                eng_g.analyze(gi, frozenset())
                site_g = final_site_facts(eng_g, gi, grets[0]["id"]) or set()
                good = ("true", gi.term(call["id"])) in site_g
        if good:
            out.append(ok("R-SIB", inst, gi.loc(call["id"]), gi.qn, "the index returned is the one whose name matched", "the helper's result slot, on its true verdict"))
        else:
            out.append(bad("R-SIB", inst, gi.loc(gi.body), gi.qn, "the index returned is the one whose name matched", "return shape not recognised"))
        inst = cinst
        if len(crets) == 1 and co.strip(crets[0]["value"]) == shared["Contains"][0][0]["id"]:
            out.append(ok("R-SIB", inst, co.loc(crets[0]["id"]), co.qn, "membership is the shared scan's verdict", "return helper(...)"))
        else:
            out.append(bad("R-SIB", inst, co.loc(co.body), co.qn, "membership is the shared scan's verdict", "return shape not recognised"))
    elif len(r2) == 1 and f2.term(r2[0]["value"]) == v2:
        out.append(ok("R-SIB", inst, f2.loc(r2[0]["id"]), f2.qn, "the index returned is the one whose name matched", "return i"))
    else:
        out.append(bad("R-SIB", inst, f2.loc(i2["id"]), f2.qn, "the index returned is the one whose name matched", "return shape not recognised"))
    return out


class _MemberSummaries(Summaries):
    """Write sets in which an operation run on the object a (smart) pointer member points at - `ArchiveFiles[i]->OpenStream(j)` -
    is a write of that object, not of the pointer member: the archives are objects of their own, whichever expression names
    them (a loop variable bound to the element, or the element itself)."""

    def _pointee_of_member(self, fn, t):
        if not (t and t[0] == "un" and t[1] == "*"):
            return False
        x = t[2]
        while True:
            if x[0] == "idx":
                x = x[1]
            elif x[0] == "call" and x[2] is not None and x[1].split("::")[-1] in ("at", "front", "back", "operator[]", "get"):
                x = x[2]
            else:
                break
        if x[0] == "mem" and x[1] == ("this",) and fn.cls in self.F.records:
            for fld in self.F.records[fn.cls]["fields"]:
                if fld["name"] == x[2]:
                    ct = fld.get("ct") or ""
                    return "unique_ptr<" in ct or "shared_ptr<" in ct or fld.get("is_pointer", False)
        return False

    def call_writes(self, fn, nd, root_item):
        obj_t = fn.term(nd["obj"]) if nd["k"] == "CXXMemberCallExpr" and "obj" in nd else None
        if obj_t is not None and self._pointee_of_member(fn, obj_t):
            inner = root_item
            root_item = lambda t, elem=False, _depth=0: None if t == obj_t else inner(t, elem)
        return Summaries.call_writes(self, fn, nd, root_item)


def lookups_are_stateless(F, S):
    """R-WRITESET: what a ResourceManager answers depends on the query and on the directory / archives only: apart from
    the constructor no operation writes a data member of the manager (no caches whose content depends on earlier queries)."""
    out = []
    n = 0
    from ..invariants import ctor_only_functions
    building = ctor_only_functions(F, RM)        # private helpers only the constructor runs are part of construction
    S = _MemberSummaries(F)
    for fn in sorted(F.functions.values(), key=lambda f: f.key):
        if fn.cls != RM or not fn.cfg or fn.d.get("implicit") or fn.d.get("ctor") or fn.name.startswith("~") or fn.key in building:
            continue
        n += 1
        w = sorted(it for it in S.writes(fn) if it[0] in ("this", "this@", "unknown"))
        inst = "%s#stateless" % fn.key
        req = "a lookup writes no data member of the manager: its answer cannot depend on earlier queries"
        if not w:
            out.append(ok("R-WRITESET", inst, fn.loc(fn.body), fn.qn, req, "no member written", nontrivial=False))
        else:
            out.append(bad("R-WRITESET", inst, fn.loc(fn.body), fn.qn, req,
                           "writes %s: a later query can be answered from what an earlier one (with other arguments) left behind" % ", ".join(str(x[1]) if len(x) > 1 else x[0] for x in w)))
    return out, n


def name_forms(F):
    out = []
    for name, np_ in (("ExtractFile", 2), ("OpenStream", 1)):
        fn = F.fn(ARC + "::" + name, nparams=np_, pred=lambda f: "basic_string" in f.key.split("(")[1].split(",")[0])
        calls = [nd for nd in fn.nodes if nd["k"] == "CXXMemberCallExpr" and nd.get("fname") == name]
        inst = "%s::%s(name)#delegates" % (ARC, name)
        req = "the name-taking form calls the index form with GetIndex(name)"
        good = len(calls) == 1 and fn.xterm(calls[0]["args"][0]) == ("call", ARC + "::GetIndex", ("this",), (P(fn, 0),)) and calls[0].get("virt")
        if good:
            out.append(ok("R-WHOCALLS", inst, fn.loc(calls[0]["id"]), fn.qn, req, fmt_term(fn.term(calls[0]["id"]))))
        else:
            out.append(bad("R-WHOCALLS", inst, fn.loc(fn.body), fn.qn, req, "shape not found"))
    return out


def resource_stream(F, S):
    fn = F.fn(RM + "::GetResourceStream", nparams=2)
    eng = Engine(F, S)
    eng.analyze(fn, frozenset())
    fname, acc = P(fn, 0), P(fn, 1)
    out = []
    rets = returns(fn)
    root_ev = lambda site: any(f[0] == "ev" and f[1] == "passed" and f[2][0] == "false" and f[2][1][0] == "call"
                               and f[2][1][1] == XF + "HasRootComponent" and f[2][1][3] == (fname,) for f in site)
    kinds = {"loose": 0, "none-disabled": 0, "archive": 0, "none-final": 0, "none-merged": 0}
    for r in rets:
        site = final_site_facts(eng, fn, r["id"]) or set()
        defs = {k: v for k, v in c05.alias_defs(fn).items() if "__begin" not in repr(v)}
        val = fn.n(fn.strip(r["value"], casts=False))
        t = c05.resolve(fn.term(r["value"]), defs)
        made = None
        for x in fn.subtree(r["value"]):
            nx = fn.n(x)
            if nx["k"] == "CallExpr" and (nx.get("fq") or "").startswith("std::make_unique") and nx.get("targs"):
                made = nx["targs"][0].get("record")
            if nx["k"] == "CXXMemberCallExpr" and nx.get("fname") == "OpenStream":
                # facts that hold when the member stream is requested (the call itself moves the archive's reader)
                site = final_site_facts(eng, fn, x) or set()
        rooted = root_ev(site)
        exists_t = [f for f in site if f[0] in ("true", "false") and f[1][0] == "call" and f[1][1] == XF + "PathExists"]
        path_ok = all(c05.resolve(f[1][3][0], defs) == ("call", XF + "Append", None, (("mem", ("this",), "resourceRootDir"), fname)) for f in exists_t)
        acc_f = [f for f in site if f[0] in ("true", "false") and f[1] == acc]
        s = repr(t)
        if made and made.endswith("Stream::FileReader"):
            kind = "loose"
            good = rooted and exists_t and exists_t[0][0] == "true" and path_ok and not acc_f
            req = "a loose file is returned only for a relative name, when Append(resourceRootDir, name) exists, before archive access is even consulted"
        elif "OpenStream" in s:
            kind = "archive"
            # (the same archive may be named through the loop variable or through what the loop variable stands for)
            archs = {fn.through_locals(a) for a in contains_held(F, site, fname)}
            good = rooted and exists_t and exists_t[0][0] == "false" and acc_f and acc_f[0][0] == "true" and len(archs) == 1
            if good:
                arch = list(archs)[0]
                t2 = fn.through_locals(t)
                good = t2[0] == "call" and t2[1] == ARC + "::OpenStream" and t2[2] == arch and \
                    t2[3] == (("call", ARC + "::GetIndex", arch, (fname,)),)
            elif rooted and exists_t and exists_t[0][0] == "false" and acc_f and acc_f[0][0] == "true" and not archs:
                # the archive and the member were located by one search helper that reports both
                t0 = fn.term(r["value"])
                t0 = t0[2][0] if t0[0] == "ctor" and len(t0[2]) == 1 else t0
                good = any(t0 == ("call", ARC + "::OpenStream", a, (j,)) for (a, j) in located_by_helper(F, S, fn, site, fname))
            req = "an archive member is returned only when no loose file exists, archive access is enabled, and it is OpenStream(GetIndex(name)) of the archive whose Contains(name) held"
        else:
            if acc_f and acc_f[0][0] == "false":
                kind = "none-disabled"
                good = rooted and exists_t and exists_t[0][0] == "false"
                req = "with archive access disabled, nothing is returned exactly when no loose file exists"
            elif not acc_f:
                # one `return nullptr` shared by "access disabled" and "tried every archive" (`if (access) { loop } return nullptr;`):
                # it must lie after the archive loop, not inside it
                kind = "none-merged"
                in_loop = any(l["k"] in ("ForStmt", "CXXForRangeStmt", "WhileStmt", "DoStmt") and r["id"] in fn.subtree(l["id"]) for l in fn.nodes)
                good = rooted and exists_t and exists_t[0][0] == "false" and not in_loop
                req = "nothing is returned only when no loose file exists and, if archive access is enabled, after every archive was tried"
            else:
                kind = "none-final"
                good = rooted and exists_t and exists_t[0][0] == "false" and acc_f and acc_f[0][0] == "true"
                req = "nothing is returned only after the loose file and every archive were tried"
        kinds[kind] += 1
        inst = "%s::GetResourceStream#return-%s" % (RM, kind)
        if good:
            out.append(ok("R-ORDER", inst, fn.loc(r["id"]), fn.qn, req, "facts at the return: " + facts_txt({f for f in site if f[0] in ("true", "false")})))
        else:
            out.append(bad("R-ORDER", inst, fn.loc(r["id"]), fn.qn, req, "facts at the return: " + facts_txt({f for f in site if f[0] in ("true", "false")})))
    # the only names refused are those with a root component: any other refusal turns away names that a loose file or an
    # archive member may carry (the listings report such names, and they must then resolve)
    want_root = F.call_value(XF + "HasRootComponent", None, (fname,))
    for th in [nd for nd in fn.nodes if nd["k"] == "CXXThrowExpr"]:
        cid, in_then = enclosing_if_cond(fn, th["id"])
        ct = fn.term(cid) if cid is not None else None
        inst = RM + "::GetResourceStream#refuses-only-rooted@%s" % th.get("l")
        req = "a name is refused only for having a root component"
        if ct is not None and in_then and ct in (want_root, ("call", XF + "HasRootComponent", None, (fname,))):
            out.append(ok("R-GUARD", inst, fn.loc(th["id"]), fn.qn, req, fmt_term(ct)))
        else:
            out.append(bad("R-GUARD", inst, fn.loc(th["id"]), fn.qn, req,
                           "a refusal under `%s`: relative names are turned away instead of being looked up" % (fmt_term(ct) if ct else "no condition")))
    none_ok = (kinds["none-disabled"], kinds["none-final"], kinds["none-merged"]) in ((1, 1, 0), (0, 0, 1))
    if kinds["loose"] != 1 or kinds["archive"] != 1 or not none_ok:
        raise AnalysisBroken("GetResourceStream: unexpected set of returns %s" % kinds)
    # the final nullptr comes after the loop over all archives
    return out


def ctor_order(F):
    cs = [f for f in F.fns(RM + "::ResourceManager") if not f.d.get("copy_ctor")]
    if len(cs) != 1:
        raise AnalysisBroken("ResourceManager constructor not found")
    fn = cs[0]
    from ..invariants import ctor_only_functions
    building = ctor_only_functions(F, RM)

    def walk(f, sub, depth):
        """(kind, what) events of f in source order, looking into private helpers only the constructor runs (their
        parameters read as the arguments they are given), and the number of appends to ArchiveFiles."""
        ev, pushes = [], 0
        for nd in sorted(f.nodes, key=lambda n: n["id"]):
            if nd["k"] == "CXXMemberCallExpr" and nd.get("fname") == "push_back" and f.term(nd["obj"]) == ("mem", ("this",), "ArchiveFiles"):
                pushes += 1
            if nd["k"] not in CALLS:
                continue
            t = substitute(f.term(nd["id"]), sub) if sub else f.term(nd["id"])
            # a directory listing by extension under the resource root (through the forwarding helper or directly)
            if t[0] == "call" and t[1] == XF + "DirFilesWithExtension" and len(t[3]) == 2 and t[3][0] == ("mem", ("this",), "resourceRootDir"):
                ev.append((nd["id"], "list", repr(t[3][1])))
                continue
            if (nd.get("fq") or "").startswith("std::make_unique") and nd.get("targs"):
                ev.append((nd["id"], "make", nd["targs"][0].get("record") or nd["targs"][0].get("ct")))
                continue
            if depth > 0:
                for cal in F.callees(nd):
                    if cal.key in building and cal.cfg:
                        s2 = {("var", p["n"], p["d"]): (substitute(f.term(a), sub) if sub else f.term(a)) for p, a in zip(cal.params, nd.get("args", []))}
                        e2, p2 = walk(cal, s2, depth - 1)
                        ev += [(nd["id"], k_, v_) for (_i, k_, v_) in e2]
                        pushes += p2
        return ev, pushes
    seq, npush = walk(fn, {}, 2)
    kinds = [(k, v) for (_, k, v) in seq]
    good = len(kinds) == 4 and kinds[0][0] == "list" and ".vol" in kinds[0][1] and kinds[1] == ("make", AR + "VolFile") and \
        kinds[2][0] == "list" and ".clm" in kinds[2][1] and kinds[3] == ("make", AR + "ClmFile")
    pushes = [None] * npush
    inst = RM + "::ResourceManager#load-order"
    req = "archives are loaded (appended) in directory listing order, volumes before clumps"
    if good and len(pushes) == 2:
        return [ok("R-ORDER", inst, fn.loc(fn.body), fn.qn, req, "list(.vol) -> push_back(VolFile) ; list(.clm) -> push_back(ClmFile)")]
    return [bad("R-ORDER", inst, fn.loc(fn.body), fn.qn, req, "sequence found: %s" % kinds)]


def type_listing(F, S):
    fn = F.fn(RM + "::GetAllFilenamesOfType", nparams=2)
    eng = Engine(F, S)
    eng.analyze(fn, frozenset())
    out = []
    # (the per-archive member loop may have been moved into a helper: the append is judged where it stands, in the
    # vocabulary of the listing function)
    from ..through import find_calls
    pushes = find_calls(F, fn, lambda nd: nd["k"] == "CXXMemberCallExpr" and nd.get("fname") == "push_back")
    if len(pushes) != 1:
        raise AnalysisBroken("GetAllFilenamesOfType: expected one push_back")
    st = pushes[0]
    pb = st.node
    cont = st.obj()
    item = st.args()[0]
    site = final_site_facts(eng, st.owner, pb["id"]) or set()
    if st.subst:
        site = {substitute(f, st.subst) for f in site}
    pb = {"id": st.outer_id()}
    ext = P(fn, 0)
    has_ext = any(f[0] == "true" and f[1] == ("call", XF + "ExtensionMatches", None, (item, ext)) for f in site)
    dup = [f for f in site if f[0] == "false" and f[1][0] == "call" and f[1][1] == RM + "::IsDuplicateFilename"]
    # (a fact about a local that only names a value is also stated about that value: one test, two spellings)
    tl = st.owner.through_locals
    dup_forms = {tl(f[1]) for f in dup}
    dup_ok = len(dup_forms) == 1 and any(f[1][3] == (cont, item) or tl(f[1])[3] == (tl(cont), tl(item)) for f in dup)
    inst = RM + "::GetAllFilenamesOfType#dedup"
    req = "an archive member is appended only if its extension matches and it is not a duplicate of a name already in the list being built"
    if has_ext and dup_ok:
        out.append(ok("R-MUSTCALL", inst, fn.loc(pb["id"]), fn.qn, req, "ExtensionMatches(m, ext) && !IsDuplicateFilename(%s, m) dominates %s.push_back(m)" % (fmt_term(cont), fmt_term(cont))))
    else:
        out.append(bad("R-MUSTCALL", inst, fn.loc(pb["id"]), fn.qn, req,
                       "extension test %s; duplicate test %s" % ("present" if has_ext else "missing",
                                                                 ("against " + fmt_term(dup[0][1][3][0])) if dup else "missing")))
    # the list returned is the one that was deduplicated, seeded with the loose files
    rets = returns(fn)
    seeded = False
    for nd in fn.nodes:
        if nd["k"] == "DeclStmt":
            for d in nd.get("decls", []):
                if ("var", d.get("n"), d.get("d")) == cont and "init" in d:
                    it = fn.term(d["init"])
                    seeded = it == ("call", XF + "DirFilesWithExtension", None, (("mem", ("this",), "resourceRootDir"), ext))
    good = seeded and all(fn.term(r["value"]) == cont for r in rets)
    inst = RM + "::GetAllFilenamesOfType#same-list"
    if good:
        out.append(ok("R-SIB", inst, fn.loc(fn.body), fn.qn, "the list starts from the loose files of that type and is the list returned", "one container"))
    else:
        out.append(bad("R-SIB", inst, fn.loc(fn.body), fn.qn, "the list starts from the loose files of that type and is the list returned", "shape not found"))
    # IsDuplicateFilename: any element equal under PathsAreEqual
    d = F.fn(RM + "::IsDuplicateFilename", nparams=2)
    from ..through import searches
    ss = [x for x in searches(F, d) if x["range"] == P(d, 0)]
    inst = RM + "::IsDuplicateFilename#predicate"
    req = "a name is a duplicate iff some listed name is PathsAreEqual to it (case-blind)"
    good = False
    detail = "shape not found"
    if len(ss) == 1:
        x = ss[0]
        pr = x["pred"]
        pred_ok = pr[0] == "call" and pr[1] == XF + "PathsAreEqual" and mentions(pr, P(d, 1)) and mentions(pr, x["elem"])
        if x["kind"] == "loop":
            # return true inside the test, false after the loop
            inner = [d.n(d.strip(r["value"])).get("v") for r in returns(d) if r["id"] in d.subtree(x["if"]["id"])]
            outer = [d.n(d.strip(r["value"])).get("v") for r in returns(d) if r["id"] not in d.subtree(x["node"]["id"])]
            res_ok = inner == [1] and outer == [0]
        else:
            rets = returns(d)
            res_ok = x["kind"] == "algo:any_of" and len(rets) == 1 and d.term(rets[0]["value"]) == d.term(x["node"]["id"])
        good = pred_ok and res_ok
        detail = fmt_term(pr)
    if good:
        out.append(ok("R-SIB", inst, d.loc(ss[0]["node"]["id"]), d.qn, req, detail))
    else:
        out.append(bad("R-SIB", inst, d.loc(d.body), d.qn, req, detail))
    return out


def containing_archive(F, S):
    fn = F.fn(RM + "::FindContainingArchivePath", nparams=1)
    eng = Engine(F, S)
    eng.analyze(fn, frozenset())
    out = []
    hit = 0
    for r in returns(fn):
        t = fn.term(r["value"])
        is_name = (t[0] == "call" and t[1].endswith("GetArchiveFilename")) or (t[0] == "mem" and t[2] == "m_ArchiveFilename")
        if is_name:
            hit += 1
            site = final_site_facts(eng, fn, r["id"]) or set()
            arch = t[2] if t[0] == "call" else t[1]
            good = arch in contains_held(F, site, P(fn, 0)) or any(arch == a for (a, _j) in located_by_helper(F, S, fn, site, P(fn, 0)))
            if not good:
                # algorithm form: the archive is *it for it = find_if(archives, a -> a->Contains(name)), returned only when it != end
                from ..through import searches
                from .c05 import alias_defs, resolve
                a2 = resolve(arch, alias_defs(fn))
                for x in searches(F, fn):
                    if x["kind"] == "algo:find_if" and a2 == ("un", "*", ("un", "*", fn.term(x["node"]["id"]))) or \
                            (x["kind"] == "algo:find_if" and mentions(a2, fn.term(x["node"]["id"]))):
                        pr = x["pred"]
                        pa = contains_term_archive(F, pr, P(fn, 0))
                        pred_ok = pa is not None and mentions(pa, x["elem"])
                        it = [v for v, t0 in alias_defs(fn).items() if t0 == fn.term(x["node"]["id"])]
                        endt = ("call", None)
                        guarded = any(f[0] == "!=" and it and it[0] in (f[1], f[2]) and "end" in repr(f) for f in site)
                        good = pred_ok and guarded
            inst = RM + "::FindContainingArchivePath#contains"
            req = "the archive whose name is reported is the one whose Contains(name) held"
            if good:
                out.append(ok("R-MUSTCALL", inst, fn.loc(r["id"]), fn.qn, req, "Contains(name) on the same archive dominates the return"))
            else:
                out.append(bad("R-MUSTCALL", inst, fn.loc(r["id"]), fn.qn, req, "facts: " + facts_txt(site)))
    if hit != 1:
        raise AnalysisBroken("FindContainingArchivePath: expected one return of an archive name")
    return out


def check(F, run, tier):
    S = Summaries(F)
    run.declined = DECLINED
    from ..rules_valid import verifier_arguments
    _va, _vn = verifier_arguments(F)
    run.add(_va)
    run.floor("verifier-arguments", _vn, 30)
    run.explanation = (
        "Static analysis of name lookup and resource resolution: Contains and GetIndex scan the same range with the same "
        "predicate, which is the case-blind path equality on GetName(i) (whose own mirror-normalisation shape and the "
        "upper-casing helper are checked as in C19); name-taking forms delegate through GetIndex; every per-member call "
        "passes the index verifier, which refuses exactly index >= count; in GetResourceStream the guard facts at each of "
        "the four returns show: rooted paths refused first, loose file returned before archive access is consulted, "
        "nothing when access is disabled, otherwise OpenStream(GetIndex(name)) of the archive whose Contains(name) held; "
        "archives are loaded VOL then CLM; a type listing appends a member only under ExtensionMatches and "
        "!IsDuplicateFilename against the list being built; a reported containing archive passed Contains.")
    run.add(lookup_loops(F))
    run.add(name_forms(F))
    obs, n = c05.per_member_verified(F, S)
    run.add(obs)
    run.floor("per-member", n, 9)
    v = F.fn(ARC + "::VerifyIndexInBounds", nparams=1)
    from ..rules_stream import r_guard_exact
    run.add(r_guard_exact(F, Engine(F, S), v, [(("var", v.params[0]["n"], v.params[0]["d"]), ("mem", ("this",), "m_Count"), True)]))
    run.add(c19.paths_are_equal(F))
    run.add(c19.convert_to_upper(F))
    run.add(c19.extension_matches(F))
    run.add(resource_stream(F, S))
    from ..rules_archive import observers_keep_no_state
    lk = [F.fn(ARC + "::Contains", nparams=1), F.fn(ARC + "::GetIndex", nparams=1)]
    lk += [F.functions[k] for k in sorted(F.overriders.get(lk[1].key, ())) if k in F.functions]
    _ok, _nk = observers_keep_no_state(F, S, lk, "a name lookup")
    run.add(_ok)
    run.floor("R-WRITESET(lookups)", _nk, 2)
    o_, n_ = lookups_are_stateless(F, S)
    run.add(o_)
    run.floor("manager-operations", n_, 8)
    run.add(ctor_order(F))
    run.add(type_listing(F, S))
    run.add(containing_archive(F, S))
    run.floor("obligations", len(run.obligations), 30)

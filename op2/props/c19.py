"""C19 — Ordering, path-equality and bit helpers obey the laws their callers assume."""
from ..extract import AnalysisBroken
from ..facts import CALLS, CTORS, fmt_term
from ..flow import substitute, mentions
from ..report import ok, bad
from ..rules_sib import P, symmetric_keys, lexicographic_less, per_char_map, returns, comparisons_between_params, enclosing_if_cond

SU = "OP2Utility::StringUtility::"
XF = "OP2Utility::XFile::"
AF = "OP2Utility::Archive::ArchiveFile::"

DECLINED = [
    "the order-theoretic laws themselves over all strings: only the comparator shape that implies them is decided "
    "(lexicographic comparison of a common key, strict length tie-break); an unrecognised rewrite is analysis-broken, not a violation",
    "Append/GetFilename/GetDirectory/ChangeFileExtension round trips (inside std::filesystem)",
    "bytes >= 0x80 passed to tolower/toupper through a signed char (library-defined)",
    "exhaustive exactness of IsPowerOf2 over 2^32 inputs (only its recognised shape is checked)",
]


def stmts_mentioning(fn, roots):
    """Top-level statements of the body that mention any of the given variable terms, as renamed terms."""
    body = fn.n(fn.body)
    out = []
    for s in fn.kids(fn.body):
        nd = fn.n(s)
        t = None
        if nd["k"] == "DeclStmt":
            d = nd["decls"][0]
            if "init" in d:
                t = ("decl", ("var", d["n"], d["d"]), fn.term(d["init"]))
            else:
                t = ("decl", ("var", d["n"], d["d"]), None)
        elif nd["k"] == "IfStmt":
            t = ("if", fn.term(nd["cond"]), tuple(stmt_term(fn, x) for x in fn.kids(nd["then"])) if fn.n(nd["then"])["k"] == "CompoundStmt" else (stmt_term(fn, nd["then"]),))
        elif nd["k"] == "ReturnStmt":
            continue
        else:
            t = ("expr", fn.term(s))
        out.append((s, t))
    return out


def stmt_term(fn, s):
    nd = fn.n(s)
    if nd["k"] == "DeclStmt":
        d = nd["decls"][0]
        return ("decl", ("var", d["n"], d["d"]), fn.term(d["init"]) if "init" in d else None)
    return ("expr", fn.term(s))


def paths_are_equal(F):
    fn = F.fn(XF + "PathsAreEqual", nparams=2)
    a, b = P(fn, 0), P(fn, 1)
    sts = stmts_mentioning(fn, (a, b))
    # group statements by the parameter they derive from; locals are attributed transitively
    owner = {a: 0, b: 1}
    groups = {0: [], 1: []}
    for s, t in sts:
        who = None
        for v, o in list(owner.items()):
            if mentions(t, v):
                who = o if who is None or who == o else "both"
        if who in (0, 1):
            if t[0] == "decl":
                owner[t[1]] = who
            groups[who].append(t)
        elif who == "both":
            groups.setdefault("both", []).append(t)
    # rename: parameter -> X, locals in order of declaration -> L0, L1 ...
    def canon(g, pv):
        ren = {pv: ("X",)}
        k = 0
        outl = []
        for t in g:
            if t[0] == "decl":
                ren[t[1]] = ("L%d" % k,)
                k += 1
        for t in g:
            outl.append(substitute(t, ren))
        return outl, ren
    c0, r0 = canon(groups[0], a)
    c1, r1 = canon(groups[1], b)
    out = []
    inst = XF + "PathsAreEqual#symmetric-normalisation"
    req = "both arguments go through the same normalisation sequence"
    if c0 == c1 and c0:
        out.append(ok("R-SIB", inst, fn.loc(fn.body), fn.qn, req, "%d normalisation statements per argument, identical up to renaming" % len(c0)))
    else:
        out.append(bad("R-SIB", inst, fn.loc(fn.body), fn.qn, req, "argument 1: %d statements, argument 2: %d statements, not mirror images" % (len(c0), len(c1))))
    rets = returns(fn)
    inst = XF + "PathsAreEqual#kernel"
    req = "the result is N(a) == N(b) for the final normalised values"
    good = False
    if len(rets) == 1:
        t = fn.term(rets[0]["value"])
        if t[0] == "opcall" and t[1] == "==" and len(t[2]) == 2:
            l, r = t[2]
            inv0 = {v: k for k, v in r0.items()}
            inv1 = {v: k for k, v in r1.items()}
            last0 = [t2[1] for t2 in groups[0] if t2[0] == "decl"]
            last1 = [t2[1] for t2 in groups[1] if t2[0] == "decl"]
            good = last0 and last1 and {l, r} == {last0[-1], last1[-1]}
    if good:
        out.append(ok("R-SIB", inst, fn.loc(rets[0]["id"]), fn.qn, req, "equality of the two normalised paths (the kernel of a function is an equivalence relation)"))
    else:
        out.append(bad("R-SIB", inst, fn.loc(fn.body), fn.qn, req, "return shape not recognised as equality of the two normalised values"))
    # the per-argument normalisation may live in a helper both arguments are passed through (by value): judge its body
    if c0 == c1 and len(c0) == 1 and c0[0][0] == "decl" and c0[0][2] is not None:
        it = c0[0][2]
        while it[0] == "ctor" and len(it[2]) == 1:
            it = it[2][0]
        # (the by-value copy may be moved into the helper: `Normalise(std::move(copy))` hands over the same value)
        if it[0] == "call" and len(it[3]) == 1 and it[3][0] == ("call", "std::move", None, (("X",),)):
            it = (it[0], it[1], it[2], (("X",),))
        if it[0] == "call" and it[3] == (("X",),):
            hs = [h for h in F.by_qn.get(it[1], []) if h.cfg and len(h.params) == 1 and not h.params[0].get("ref")]
            if len(hs) == 1:
                h = hs[0]
                hp = P(h, 0)
                hseq = []
                howner = {hp}
                for s_, t_ in stmts_mentioning(h, (hp,)):
                    hseq.append(t_)
                c0, _r = canon(hseq, hp)
                fn = h
    # upper-casing is part of the normalisation and the './' rule is present
    up = [t for t in c0 if t[0] == "expr" and t[1][0] == "call" and t[1][1].endswith("ConvertToUpperInPlace")]
    if not up:
        # the folded value may be a new local (`const std::string upper = ConvertToUpper(arg);`): then everything else must be
        # derived from that local, never from the argument as given
        def unwrap(t):
            while t is not None and t[0] == "ctor" and len(t[2]) == 1:
                t = t[2][0]
            return t
        folded = [t for t in c0 if t[0] == "decl" and unwrap(t[2]) is not None and unwrap(t[2])[0] == "call"
                  and unwrap(t[2])[1].endswith("StringUtility::ConvertToUpper") and unwrap(t[2])[3] == (("X",),)]
        if len(folded) == 1 and not any(mentions(t, ("X",)) for t in c0 if t is not folded[0]):
            up = folded
    dot = [t for t in c0 if t[0] == "if" and "./" in repr(t)]
    inst = XF + "PathsAreEqual#contents"
    # order matters: every value derived from the argument must be derived after the case folding
    if up and c0.index(up[0]) != 0:
        out.append(bad("R-SIB", XF + "PathsAreEqual#fold-first", fn.loc(fn.body), fn.qn,
                       "case folding is applied to the argument before anything is derived from it",
                       "statement %d of the per-argument sequence folds the case; earlier ones already use the argument" % c0.index(up[0])))
    elif up:
        out.append(ok("R-SIB", XF + "PathsAreEqual#fold-first", fn.loc(fn.body), fn.qn,
                      "case folding is applied to the argument before anything is derived from it", "first statement of the per-argument sequence"))
    if up and dot:
        out.append(ok("R-SIB", inst, fn.loc(fn.body), fn.qn, "normalisation = case folding followed by the leading './' rule", "both present"))
    else:
        out.append(bad("R-SIB", inst, fn.loc(fn.body), fn.qn, "normalisation = case folding followed by the leading './' rule",
                       "case folding %s, './' rule %s" % ("present" if up else "missing", "present" if dot else "missing")))
    return out


def is_equal_algorithm_form(F, fn):
    """`if (a.size() != b.size()) return false; return std::equal(a.begin(), a.end(), b.begin(), [](c1, c2) { return K(c1) == K(c2); })`:
    the same obligations as the index-loop form, or None when the function is not written this way."""
    a, b = P(fn, 0), P(fn, 1)
    eq = [nd for nd in fn.nodes if nd["k"] in CALLS and (nd.get("fq") or "") == "std::equal" and len(nd.get("args", [])) == 4]
    if len(eq) != 1 or any(nd["k"] in ("ForStmt", "WhileStmt", "CXXForRangeStmt", "DoStmt") for nd in fn.nodes):
        return None
    out = []
    args = [fn.term(x) for x in eq[0]["args"]]
    def it(t, which, v):
        return t[0] == "call" and t[1].split("::")[-1] in (which, "c" + which) and t[2] == v
    whole = (it(args[0], "begin", a) and it(args[1], "end", a) and it(args[2], "begin", b)) or (it(args[0], "begin", b) and it(args[1], "end", b) and it(args[2], "begin", a))
    lam = F.functions.get(args[3][1]) if args[3][0] == "lambda" else None
    inst = SU + "IsEqual#cmp:elements"
    req = "corresponding characters are compared for equality through tolower on both sides"
    good = False
    detail = "predicate not recognised"
    if lam is not None and len(lam.params) == 2:
        rets = [x for x in lam.nodes if x["k"] == "ReturnStmt" and "value" in x]
        p1, p2 = ("var", lam.params[0]["n"], lam.params[0]["d"]), ("var", lam.params[1]["n"], lam.params[1]["d"])
        if len(rets) == 1:
            rt = lam.term(rets[0]["value"])
            detail = fmt_term(rt)
            if rt[0] == "op" and rt[1] == "==":
                l, r = rt[2], rt[3]
                if mentions_(l, p2):
                    l, r = r, l
                good = l[0] == "call" and l[1].split("::")[-1] == "tolower" and l[3] == (p1,) and r == ("call", l[1], l[2], (p2,))
    if good and whole:
        out.append(ok("R-SIB", inst, fn.loc(eq[0]["id"]), fn.qn, req, "std::equal over the whole of one string against the other: " + detail))
    else:
        out.append(bad("R-SIB", inst, fn.loc(eq[0]["id"]), fn.qn, req, detail if whole else "std::equal does not run over the whole of one string against the start of the other"))
    # lengths: a differing length returns false before the element comparison (std::equal reads n characters of the second string)
    rets = returns(fn)
    inst = SU + "IsEqual#shape"
    req = "equal length and element-wise equal keys: a differing length returns false, otherwise the verdict is that of the element comparison"
    early = [r for r in rets if fn.strip(r["value"]) != eq[0]["id"]]
    final = [r for r in rets if fn.strip(r["value"]) == eq[0]["id"]]
    ok_len = False
    if len(early) == 1 and len(final) == 1 and early[0]["id"] < final[0]["id"] and fn.n(fn.strip(early[0]["value"])).get("v") == 0:
        cid, in_then = enclosing_if_cond(fn, early[0]["id"])
        if cid is not None and in_then:
            ct = fn.term(cid)
            ok_len = ct in (("op", "!=", ("size", a), ("size", b)), ("op", "!=", ("size", b), ("size", a)))
    if ok_len:
        out.append(ok("R-SIB", inst, fn.loc(fn.body), fn.qn, req, "size() != size() -> false; return std::equal(...)"))
    else:
        out.append(bad("R-SIB", inst, fn.loc(fn.body), fn.qn, req, "the length test before std::equal is not `if (a.size() != b.size()) return false`"))
    return out


def mentions_(t, v):
    from ..flow import mentions
    return mentions(t, v)


def is_equal_shape(F):
    fn = F.fn(SU + "IsEqual", nparams=2)
    alg = is_equal_algorithm_form(F, fn)
    if alg is not None:
        return alg
    out = symmetric_keys(fn, SU + "IsEqual", expect_key="tolower")
    a, b = P(fn, 0), P(fn, 1)
    cm = comparisons_between_params(fn)
    ops = sorted({op for (_, op, l, r) in cm})
    # all cross comparisons are != leading to `return false`; the last return is true
    rets = returns(fn)
    vals = [fn.n(fn.strip(r["value"])).get("v") for r in rets]
    inst = SU + "IsEqual#shape"
    req = "equal length and element-wise equal keys: every `!=` returns false, falling through returns true"
    size_cmp = any(l == ("size", a) and r == ("size", b) or l == ("size", b) and r == ("size", a) for (_, op, l, r) in cm)
    if ops == ["!="] and size_cmp and vals and vals[-1] == 1 and all(v == 0 for v in vals[:-1]):
        out.append(ok("R-SIB", inst, fn.loc(fn.body), fn.qn, req, "%d comparisons, all `!=` -> false" % len(cm)))
    else:
        out.append(bad("R-SIB", inst, fn.loc(fn.body), fn.qn, req, "operators %s, size comparison %s, return values %s" % (ops, size_cmp, vals)))
    return out


def compare_path_filenames(F):
    fn = F.fn(AF + "ComparePathFilenames", nparams=2)
    rets = returns(fn)
    a, b = P(fn, 0), P(fn, 1)
    inst = AF + "ComparePathFilenames#projection"
    req = "the order on paths is IsEqualCaseInsensitive applied to the same projection (GetFilename) of both paths, in argument order"
    if len(rets) == 1:
        from .c05 import alias_defs, resolve
        t = resolve(fn.term(rets[0]["value"]), alias_defs(fn))
        want = ("call", SU + "IsEqualCaseInsensitive", None, (F.call_value(XF + "GetFilename", None, (a,)), F.call_value(XF + "GetFilename", None, (b,))))
        if t == want:
            return [ok("R-SIB", inst, fn.loc(rets[0]["id"]), fn.qn, req, fmt_term(t))]
        return [bad("R-SIB", inst, fn.loc(rets[0]["id"]), fn.qn, req, "returns %s" % fmt_term(t))]
    raise AnalysisBroken("ComparePathFilenames: expected a single return")


def get_filename_shape(F):
    """XFile::GetFilename(p) is the final component of p as std::filesystem splits it: filename() of a path built from the
    argument itself, unmodified. (A member is named by the input path's final component; names with other characters in
    them, such as a backslash on this platform, are part of that component.)"""
    fn = F.fn(XF + "GetFilename", nparams=1)
    p0 = P(fn, 0)
    inst = XF + "GetFilename#final-component"
    req = "returns std::filesystem::path(argument).filename(): the argument is not rewritten before it is split"
    rets = returns(fn)
    if len(rets) != 1:
        raise AnalysisBroken("GetFilename: expected a single return")
    from .c05 import alias_defs, resolve
    t = resolve(fn.term(rets[0]["value"]), alias_defs(fn))
    # string(filename(path(X)))
    x = t
    seen = []
    while x[0] in ("call", "ctor"):
        seen.append(x[1].split("::")[-1] if x[1] else "?")
        if x[0] == "call":
            x = x[2] if x[2] is not None else (x[3][0] if x[3] else ("?",))
        else:
            x = x[2][0] if x[2] else ("?",)
    if "filename" not in seen:
        raise AnalysisBroken("GetFilename: return is not path(...).filename() (shape not recognised)")
    if x == p0:
        return [ok("R-SIB", inst, fn.loc(rets[0]["id"]), fn.qn, req, fmt_term(t))]
    # built from something else: a rewritten copy of the argument?
    stores = [nd for nd in fn.nodes if nd["k"] in CALLS and (nd.get("fq") or "").startswith("std::") and nd.get("fname") in
              ("replace", "replace_if", "transform", "erase", "remove", "for_each")] + [nd for nd in fn.nodes if nd["k"] in ("BinaryOperator", "CompoundAssignOperator") and nd.get("op", "").endswith("=") and nd["op"] not in ("==", "!=", "<=", ">=")]
    return [bad("R-SIB", inst, fn.loc(rets[0]["id"]), fn.qn, req,
                "the path is built from %s%s" % (fmt_term(x), ", which the function rewrites first (%s)" % ", ".join(sorted({nd.get("fname") or nd.get("op") for nd in stores})) if stores else ""))]


def subterms_of(t):
    if isinstance(t, tuple) and t and isinstance(t[0], str):
        yield t
        for x in t[1:]:
            if isinstance(x, tuple):
                for y in subterms_of(x):
                    yield y
                if x and not isinstance(x[0], str):
                    for z in x:
                        if isinstance(z, tuple):
                            for y in subterms_of(z):
                                yield y


def duplicate_scan(F):
    fn = F.fn(AF + "VerifySortedContainerHasNoDuplicateNames", nparams=1)
    nm = P(fn, 0)
    calls = [nd for nd in fn.nodes if nd["k"] in CALLS and (nd.get("fq") or "").endswith("StringUtility::IsEqual")]
    loops = [nd for nd in fn.nodes if nd["k"] == "ForStmt"]
    inst = AF + "VerifySortedContainerHasNoDuplicateNames#adjacent"
    req = "every adjacent pair names[i-1], names[i] for i = 1 .. size()-1 is compared with IsEqual and a match is refused"
    if not loops:
        # algorithm form: it = std::adjacent_find(names.begin(), names.end(), (a, b) -> IsEqual(a, b)); if (it != names.end()) throw
        for nd in fn.nodes:
            if nd["k"] in CALLS and (nd.get("fq") or "") == "std::adjacent_find" and len(nd.get("args", [])) == 2:
                return [bad("R-SIB", inst, fn.loc(nd["id"]), fn.qn, req,
                            "adjacent names are compared with the default `==` of std::adjacent_find (case-sensitive), not with StringUtility::IsEqual")]
            if nd["k"] in CALLS and (nd.get("fq") or "") == "std::adjacent_find" and len(nd.get("args", [])) == 3:
                a = [fn.term(x) for x in nd["args"]]
                rng = a[0][0] == "call" and a[0][1].endswith("begin") and a[0][2] == nm and a[1][0] == "call" and a[1][1].endswith("end") and a[1][2] == nm
                lam = F.functions.get(a[2][1]) if a[2][0] == "lambda" else None
                pred_ok = False
                shown = "?"
                if a[2][0] == "func":
                    # the comparison function itself handed over as the predicate
                    pf = F.functions.get(a[2][1])
                    shown = (pf.qn if pf else str(a[2][1])).split("(")[0]
                    pred_ok = shown.endswith("StringUtility::IsEqual")
                if lam is not None and len(lam.params) == 2:
                    rs = [x for x in lam.nodes if x["k"] == "ReturnStmt" and "value" in x]
                    if len(rs) == 1:
                        rt = lam.term(rs[0]["value"])
                        shown = fmt_term(rt)
                        ps = {("var", lam.params[0]["n"], lam.params[0]["d"]), ("var", lam.params[1]["n"], lam.params[1]["d"])}
                        pred_ok = rt[0] == "call" and rt[1].endswith("StringUtility::IsEqual") and set(rt[3]) == ps
                # refusal when the search finds a pair
                from ..rules_sib import enclosing_if_cond
                from .c05 import alias_defs, resolve
                th = [n for n in fn.nodes if n["k"] == "CXXThrowExpr"]
                guarded = False
                if th:
                    cid, in_then = enclosing_if_cond(fn, th[0]["id"])
                    if cid is not None and in_then:
                        ct = resolve(fn.term(cid), alias_defs(fn))
                        guarded = ct[0] == "opcall" and ct[1] == "!=" and set(ct[2]) == {fn.term(nd["id"]), a[1]}
                if rng and pred_ok and guarded:
                    return [ok("R-SIB", inst, fn.loc(nd["id"]), fn.qn, req, "adjacent_find over the whole list with IsEqual; a found pair is refused")]
                ends_ok = a[1][0] == "call" and a[1][1].endswith("end") and a[1][2] == nm
                from ..flow import mentions as _m
                if not rng and pred_ok and guarded and _m(a[0], nm):
                    return [bad("R-SIB", inst, fn.loc(nd["id"]), fn.qn, req,
                                "the scan runs over [%s, %s), not over the whole list: std::adjacent_find compares each element with its successor, so %s is never compared" % (
                                    fmt_term(a[0]), fmt_term(a[1]), "the first pair" if ends_ok else "part of the list"))]
                if rng and guarded and not pred_ok:
                    return [bad("R-SIB", inst, fn.loc(nd["id"]), fn.qn, req, "adjacent names are compared with `%s`, not with StringUtility::IsEqual" % shown)]
    if len(loops) != 1:
        raise AnalysisBroken("duplicate scan shape not recognised")
    if len(calls) != 1:
        # the refusal exists but does not compare with the case-insensitive equality
        th = [n for n in fn.nodes if n["k"] == "CXXThrowExpr"]
        if th:
            from ..rules_sib import enclosing_if_cond
            cid, in_then = enclosing_if_cond(fn, th[0]["id"])
            if cid is not None:
                return [bad("R-SIB", inst, fn.loc(cid), fn.qn, req, "adjacent names are compared with `%s`, not with StringUtility::IsEqual" % fmt_term(fn.term(cid)))]
        raise AnalysisBroken("duplicate scan shape not recognised")
    a = [fn.term(x) for x in calls[0]["args"]]
    lp = loops[0]
    iv = None
    init = fn.n(lp["init"])
    if init["k"] == "DeclStmt":
        d = init["decls"][0]
        iv = ("var", d["n"], d["d"])
        start = fn.term(d["init"])
    cond = fn.term(lp["cond"])
    good = iv is not None and start == ("const", 1) and cond == ("op", "<", iv, ("size", nm)) and \
        set(a) == {("idx", nm, ("op", "-", iv, ("const", 1))), ("idx", nm, iv)}
    from ..rules_sib import enclosing_if_cond
    cid, in_then = enclosing_if_cond(fn, [n for n in fn.nodes if n["k"] == "CXXThrowExpr"][0]["id"]) if any(n["k"] == "CXXThrowExpr" for n in fn.nodes) else (None, None)
    good = good and cid is not None and in_then and fn.strip(cid) == calls[0]["id"]
    if good:
        return [ok("R-SIB", inst, fn.loc(calls[0]["id"]), fn.qn, req, "for (i = 1; i < size; ++i) if (IsEqual(names[i-1], names[i])) throw")]
    return [bad("R-SIB", inst, fn.loc(fn.body), fn.qn, req, "loop from %s while %s comparing %s" % (fmt_term(start) if iv else "?", fmt_term(cond), ", ".join(fmt_term(x) for x in a)))]


def extension_matches(F):
    fn = F.fn(XF + "ExtensionMatches", nparams=2)
    rets = returns(fn)
    inst = XF + "ExtensionMatches#both-upper"
    req = "both the path's extension and the requested extension are upper-cased before comparison"
    finals = [r for r in rets if fn.term(r["value"])[0] == "opcall" and fn.term(r["value"])[1] == "=="]
    if len(finals) != 1:
        raise AnalysisBroken("ExtensionMatches: expected one return of an equality")
    early = [r for r in rets if r["id"] != finals[0]["id"]]
    rets = finals
    t = fn.term(rets[0]["value"])
    if not (t[0] == "opcall" and t[1] == "==" and len(t[2]) == 2):
        raise AnalysisBroken("ExtensionMatches: return is not an equality")
    sides = list(t[2])
    # an early `return false` on a length difference is sound only once both strings have their final (normalised) form
    from ..rules_sib import enclosing_if_cond
    pre = []
    for r in early:
        v = fn.n(fn.strip(r["value"]))
        cid, in_then = enclosing_if_cond(fn, r["id"])
        ct = fn.term(cid) if cid is not None else None
        # the strings whose lengths are compared: the compared strings themselves, or what one of them is initialised from
        pre_form = {}
        for nd0 in fn.nodes:
            if nd0["k"] == "DeclStmt":
                for d0 in nd0.get("decls", []):
                    if "init" in d0 and ("var", d0.get("n"), d0.get("d")) in sides:
                        for sub in subterms_of(fn.term(d0["init"])):
                            if sub[0] == "var":
                                pre_form[sub] = ("var", d0["n"], d0["d"])
        def to_side(x):
            return x if x in sides else pre_form.get(x)
        shape = v.get("v") == 0 and ct is not None and in_then and ct[0] == "op" and ct[1] == "!=" and ct[2][0] == "size" and ct[3][0] == "size"
        mapped = {to_side(ct[2][1]), to_side(ct[3][1])} if shape else set()
        if not shape or mapped != set(sides):
            raise AnalysisBroken("ExtensionMatches: an early return that is not `if (a.size() != b.size()) return false` on the compared strings")
        later_mut = []
        for nd in fn.nodes:
            if nd["id"] <= r["id"] and {ct[2][1], ct[3][1]} == set(sides):
                continue
            if nd["k"] in CALLS and nd.get("args"):
                # in-place changes after the early test: ConvertToUpperInPlace(x), x.insert(...), x = ..., x += ...
                if (nd.get("fq") or "").endswith("ConvertToUpperInPlace") and fn.term(nd["args"][0]) in sides:
                    continue        # case folding keeps the length
                if nd["k"] == "CXXMemberCallExpr" and "obj" in nd and fn.term(nd["obj"]) in sides and nd.get("fname") in ("insert", "append", "push_back", "erase", "assign", "replace", "resize"):
                    later_mut.append(nd)
                if nd["k"] == "CXXOperatorCallExpr" and nd.get("op") in ("=", "+=") and fn.term(nd["args"][0]) in sides:
                    later_mut.append(nd)
        if later_mut:
            pre.append(bad("R-SIB", XF + "ExtensionMatches#early-length-test", fn.loc(r["id"]), fn.qn,
                           "a length comparison may reject only the strings that are finally compared",
                           "`%s` is tested at %s, but %s is still changed afterwards at %s (e.g. the leading dot is added): extensions that match after normalisation are rejected" % (
                               fmt_term(ct), fn.loc(cid), fmt_term(fn.term(later_mut[0]["args"][0]) if later_mut[0]["k"] == "CXXOperatorCallExpr" else fn.term(later_mut[0]["obj"])), fn.loc(later_mut[0]["id"]))))
        else:
            pre.append(ok("R-SIB", XF + "ExtensionMatches#early-length-test", fn.loc(r["id"]), fn.qn,
                          "a length comparison may reject only the strings that are finally compared", "tested after the last change of length"))
    # the leading dot is supplied only for a non-empty extension: an empty request means "no extension" and must stay empty
    from ..flow import Engine, Summaries, final_site_facts
    from ..prove import prove_le
    eng = Engine(F, Summaries(F))
    eng.analyze(fn, frozenset())
    for nd in fn.nodes:
        grows = None
        if nd["k"] == "CXXMemberCallExpr" and "obj" in nd and fn.term(nd["obj"]) in sides and nd.get("fname") in ("insert", "append", "push_back"):
            grows = fn.term(nd["obj"])
        elif nd["k"] == "CXXOperatorCallExpr" and nd.get("op") in ("=", "+=") and nd.get("args") and fn.term(nd["args"][0]) in sides \
                and "b'.'" in repr(fn.term(nd["args"][1])) or (nd["k"] == "CXXOperatorCallExpr" and nd.get("op") == "+=" and nd.get("args") and fn.term(nd["args"][0]) in sides):
            grows = fn.term(nd["args"][0])
        if grows is None:
            continue
        site = final_site_facts(eng, fn, nd["id"])
        if site is None:
            continue
        sz = ("size", grows)
        nonempty = any((f[0] == "!=" and sz in (f[1], f[2]) and ("const", 0) in (f[1], f[2])) or
                       (f[0] == "<" and f[2] == sz and f[1][0] == "const" and f[1][1] >= 0) or
                       (f[0] == "<=" and f[2] == sz and f[1][0] == "const" and f[1][1] >= 1) for f in site)
        inst2 = XF + "ExtensionMatches#dot-only-when-nonempty"
        req2 = "a leading dot is added only to a non-empty requested extension (the empty extension selects names without one)"
        if nonempty:
            pre.append(ok("R-SIB", inst2, fn.loc(nd["id"]), fn.qn, req2, "size() > 0 holds where the dot is inserted"))
        else:
            pre.append(bad("R-SIB", inst2, fn.loc(nd["id"]), fn.qn, req2,
                           "nothing excludes an empty %s where it is extended: \"\" becomes \".\" and no longer matches names without an extension" % fmt_term(grows)))
    upper = set()
    for nd in fn.nodes:
        if nd["k"] in CALLS and (nd.get("fq") or "").endswith("ConvertToUpperInPlace"):
            upper.add(fn.term(nd["args"][0]))
        if nd["k"] == "DeclStmt":
            for d in nd.get("decls", []):
                if "init" in d:
                    it = fn.term(d["init"])
                    if it[0] == "call" and it[1].endswith("StringUtility::ConvertToUpper"):
                        upper.add(("var", d["n"], d["d"]))
    # a side may be the result of a file-local helper that upper-cases its argument first (`NormalizeExtension(ext)`): then
    # every value the helper returns must be an upper-cased local of its own
    for sd in list(sides):
        if sd[0] == "call" and sd[2] is None and len(sd[3]) == 1:
            hs = [h for h in F.by_qn.get(sd[1], []) if h.cfg and len(h.params) == 1 and h.file.startswith(F.repo)]
            if len(hs) == 1:
                h = hs[0]
                hup = set()
                for nd in h.nodes:
                    if nd["k"] in CALLS and (nd.get("fq") or "").endswith("ConvertToUpperInPlace"):
                        hup.add(h.term(nd["args"][0]))
                    if nd["k"] == "DeclStmt":
                        for d in nd.get("decls", []):
                            if "init" in d:
                                it = h.term(d["init"])
                                while it[0] == "ctor" and len(it[2]) == 1:
                                    it = it[2][0]
                                if it[0] == "call" and it[1].endswith("StringUtility::ConvertToUpper") and it[3] == (P(h, 0),):
                                    hup.add(("var", d["n"], d["d"]))
                hrets = returns(h)
                if hrets and all(h.term(r["value"]) in hup or (h.term(r["value"])[0] == "ctor" and h.term(r["value"])[2] and h.term(r["value"])[2][0] in hup) for r in hrets):
                    upper.add(sd)
    if all(s in upper for s in sides):
        return pre + [ok("R-SIB", inst, fn.loc(rets[0]["id"]), fn.qn, req, "%s == %s, both upper-cased" % (fmt_term(sides[0]), fmt_term(sides[1])))]
    return pre + [bad("R-SIB", inst, fn.loc(rets[0]["id"]), fn.qn, req, "not upper-cased: %s" % ", ".join(fmt_term(s) for s in sides if s not in upper))]


def append_refusals(F):
    """XFile::Append refuses exactly the second arguments that have a root component: every refusal in it is guarded by a
    disjunction of root tests (has_root_name / has_root_directory of a path made from that argument, or HasRootComponent of
    it). Any other refusal turns away relative paths, for which join / split must work."""
    from ..rules_sib import enclosing_if_cond
    fn = F.fn(XF + "Append", nparams=2)
    p1 = P(fn, 1)
    inst = XF + "Append#refuses-only-rooted"
    req = "the only second arguments refused are those with a root name or root directory"
    # locals that are a filesystem path built from the second argument
    pathvars = set()
    for nd in fn.nodes:
        if nd["k"] == "DeclStmt":
            for d in nd.get("decls", []):
                if "init" in d and "d" in d:
                    t = fn.term(d["init"])
                    if t[0] == "ctor" and t[2] == (p1,) and "path" in (t[1] or ""):
                        pathvars.add(("var", d["n"], d["d"]))

    def root_test(t):
        if t[0] == "op" and t[1] == "||":
            return root_test(t[2]) and root_test(t[3])
        if t[0] == "call" and t[1].split("::")[-1] in ("has_root_name", "has_root_directory", "has_root_path", "is_absolute") and t[2] is not None:
            o = t[2]
            return o in pathvars or (o[0] == "ctor" and o[2] == (p1,))
        if t[0] == "call" and t[1] == XF + "HasRootComponent" and t[3] == (p1,):
            return True
        return False

    throws = [nd for nd in fn.nodes if nd["k"] == "CXXThrowExpr"]
    if not throws:
        return [bad("R-GUARD", inst, fn.loc(fn.body), fn.qn, req, "no refusal at all: a rooted second argument replaces the first")]
    for th in throws:
        cid, in_then = enclosing_if_cond(fn, th["id"])
        t = fn.term(cid) if cid is not None else None
        # (HasRootComponent is a single-return helper and reads as its expression over a path built from its argument)
        if t is None or not in_then or not root_test(t):
            return [bad("R-GUARD", inst, fn.loc(th["id"]), fn.qn, req,
                        "a refusal under `%s`: relative second arguments are turned away (Append(dir, name) must give dir/name for every relative name)" % (fmt_term(t) if t else "no condition"))]
    return [ok("R-GUARD", inst, fn.loc(throws[0]["id"]), fn.qn, req, "%d refusal(s), each under a root test of the second argument" % len(throws))]


DISK_OPS = {"is_directory", "is_regular_file", "exists", "status", "symlink_status", "file_size", "last_write_time", "remove", "remove_all",
            "create_directory", "create_directories", "rename", "copy", "copy_file", "current_path", "absolute", "canonical",
            "weakly_canonical", "equivalent", "is_empty", "is_symlink", "read_symlink", "space", "temp_directory_path", "permissions",
            "resize_file", "hard_link_count", "directory_iterator", "recursive_directory_iterator"}


def string_laws_are_disk_free(F):
    """The path helpers the string laws are stated over (split, join, extension, equality, root test) are functions of their
    argument strings: neither they nor the repository helpers they call ask the file system anything (an answer that depends
    on what exists on disk makes join / split disagree for some paths)."""
    from ..through import closure
    out = []
    names = ("GetFilename", "GetDirectory", "GetFileExtension", "ChangeFileExtension", "Append", "AppendSubDirectory", "ReplaceFilename",
             "AppendToFilename", "ExtensionMatches", "PathsAreEqual", "HasRootComponent", "IsRootPath")
    n = 0
    for nm in names:
        for fn in F.fns(XF + nm):
            if not fn.cfg:
                continue
            n += 1
            hits = []
            for f_ in closure(F, fn, depth=3, same_class_only=False):
                for nd in f_.nodes:
                    if nd["k"] in CALLS or nd["k"] in CTORS:
                        fq = nd.get("fq") or nd.get("ctor_rec") or ""
                        last = fq.split("::")[-1]
                        if "filesystem" in fq and last in DISK_OPS:
                            hits.append((f_, nd, last))
                        elif nd["k"] in CALLS and fq.startswith("std::") and last in ("fopen", "stat", "access"):
                            hits.append((f_, nd, last))
            inst = XF + nm + "#disk-free"
            req = "the result depends on the argument strings only (no file-system query on the way)"
            if not hits:
                out.append(ok("R-WHOCALLS", inst, fn.loc(fn.body), fn.qn, req, "no file-system operation reachable", nontrivial=False))
            else:
                f_, nd, last = hits[0]
                out.append(bad("R-WHOCALLS", inst, f_.loc(nd["id"]), fn.qn, req,
                               "reaches std::filesystem::%s in %s: the answer changes with what exists on disk" % (last, f_.qn.split("::")[-1])))
    return out, n


def debruijn(F):
    fn = F.fn("OP2Utility::Log2OfPowerOf2", nparams=1)
    table = None
    tvar = None
    for nd in fn.nodes:
        if nd["k"] == "DeclStmt":
            for d in nd.get("decls", []):
                if "init" in d and (d.get("array_len") == 32 or "std::array<" in (d.get("rec") or "")):
                    t = fn.term(d["init"])
                    if t[0] == "initlist" and len(t[1]) == 1 and t[1][0][0] == "initlist":
                        t = t[1][0]         # std::array's braces around its built-in array
                    if t[0] == "initlist" and len(t[1]) == 32 and all(x[0] == "const" for x in t[1]):
                        table = [x[1] for x in t[1]]
                        tvar = ("var", d["n"], d["d"])
    rets = returns(fn)
    if len(rets) != 1:
        raise AnalysisBroken("Log2OfPowerOf2: table / return not recognised")
    t = fn.xterm(rets[0]["value"])
    if table is None and t[0] == "idx" and t[1][0] == "global":
        # the table as a namespace-scope constant (built-in array or std::array): its evaluated initialiser
        gv = F.vars.get(t[1][1]) or {}
        val = gv.get("value")
        if isinstance(val, dict) and len(val) == 1:
            val = list(val.values())[0]
        if gv.get("const") and isinstance(val, list) and len(val) == 32 and all(isinstance(x, int) for x in val):
            table = val
            tvar = t[1]
    if table is None:
        raise AnalysisBroken("Log2OfPowerOf2: table / return not recognised")
    v = P(fn, 0)
    inst = "OP2Utility::Log2OfPowerOf2#debruijn"
    req = "table[((1<<i) * K mod 2^32) >> 27] == i for all 32 powers"
    if not (t[0] == "idx" and t[1] == tvar and t[2][0] == "op" and t[2][1] == ">>" and t[2][3] == ("const", 27)
            and t[2][2][0] == "op" and t[2][2][1] == "*" and v in (t[2][2][2], t[2][2][3])):
        raise AnalysisBroken("Log2OfPowerOf2: index expression shape not recognised: %s" % fmt_term(t))
    K = [x for x in (t[2][2][2], t[2][2][3]) if x != v][0]
    if K[0] != "const":
        raise AnalysisBroken("Log2OfPowerOf2: multiplier is not a constant")
    # the product must be formed in 32 bits (mod 2^32): the multiplication node's type
    mul = None
    for nd in fn.nodes:
        if nd["k"] == "BinaryOperator" and nd.get("op") == "*":
            mul = nd
    badi = [i for i in range(32) if table[(((1 << i) * K[1]) & 0xffffffff) >> 27] != i]
    out = []
    if not badi and mul is not None and mul.get("iw") == 32 and not mul.get("is"):
        out.append(ok("R-LAYOUT", inst, fn.loc(rets[0]["id"]), fn.qn, req, "32-entry table and multiplier %#x form a de Bruijn indexing; product taken in uint32" % K[1]))
    else:
        out.append(bad("R-LAYOUT", inst, fn.loc(rets[0]["id"]), fn.qn, req,
                       "wrong for powers %s%s" % (badi[:6], "" if mul is not None and mul.get("iw") == 32 else "; product is not a 32-bit unsigned multiplication")))
    return out


def is_power_of_2(F):
    fn = F.fn("OP2Utility::IsPowerOf2", nparams=1)
    rets = returns(fn)
    v = P(fn, 0)
    inst = "OP2Utility::IsPowerOf2#shape"
    req = "value && !(value & (value - 1))"
    if len(rets) != 1:
        raise AnalysisBroken("IsPowerOf2: expected one return")
    t = fn.term(rets[0]["value"])
    want1 = ("op", "&&", v, ("un", "!", ("op", "&", v, ("op", "-", v, ("const", 1)))))
    want2 = ("op", "&&", ("op", "!=", v, ("const", 0)), ("op", "==", ("op", "&", v, ("op", "-", v, ("const", 1))), ("const", 0)))
    if t in (want1, want2):
        return [ok("R-SIB", inst, fn.loc(rets[0]["id"]), fn.qn, req, "recognised shape", nontrivial=False)]
    return [bad("R-SIB", inst, fn.loc(rets[0]["id"]), fn.qn, req, "returns %s" % fmt_term(t))]


def convert_to_upper(F):
    out = per_char_map(F.fn(SU + "ConvertToUpperInPlace", nparams=1), SU + "ConvertToUpperInPlace", "toupper", F=F)
    fn = F.fn(SU + "ConvertToUpper", nparams=1)
    v = P(fn, 0)
    calls = [nd for nd in fn.nodes if nd["k"] in CALLS and (nd.get("fq") or "").endswith("ConvertToUpperInPlace")]
    rets = returns(fn)
    inst = SU + "ConvertToUpper#delegates"
    # the value folded and returned is the (by-value) argument itself, or a local copy of the argument
    tgt = fn.term(calls[0]["args"][0]) if len(calls) == 1 else None
    is_copy = False
    if tgt is not None and tgt != v and tgt[0] == "var":
        for nd in fn.nodes:
            if nd["k"] == "DeclStmt":
                for d in nd.get("decls", []):
                    if ("var", d.get("n"), d.get("d")) == tgt and "init" in d and not d.get("is_ref"):
                        it = fn.term(d["init"])
                        is_copy = it == v or (it[0] == "ctor" and it[2] == (v,))
    if len(calls) == 1 and (tgt == v or is_copy) and len(rets) == 1 and fn.term(rets[0]["value"]) == tgt:
        out.append(ok("R-SIB", inst, fn.loc(calls[0]["id"]), fn.qn, "ConvertToUpper returns its argument after ConvertToUpperInPlace", "shape found", nontrivial=False))
    else:
        out.append(bad("R-SIB", inst, fn.loc(fn.body), fn.qn, "ConvertToUpper returns its argument after ConvertToUpperInPlace", "shape not found"))
    return out


def check(F, run, tier):
    run.declined = DECLINED
    run.explanation = (
        "Shape analysis of the comparator and normalisation helpers on clang's resolved AST. Decided: "
        "IsEqualCaseInsensitive is a lexicographic comparison in which both operands of every element comparison go "
        "through the same key function (tolower) on the same index, `<` decides true and `>` decides false, with a strict "
        "`<` on the lengths as tie-break (a comparison of this shape is a strict weak order whose incomparability is "
        "equality of key sequences); IsEqual is equal length plus element-wise equality of the same key; the archive "
        "comparator applies one projection (GetFilename) to both paths; the duplicate scan compares every adjacent pair; "
        "PathsAreEqual is N(a) == N(b) with mirror-image normalisation of both arguments; ExtensionMatches upper-cases both "
        "sides; ConvertToUpperInPlace maps every character through toupper; the log2 table and multiplier read from the AST "
        "form a de Bruijn indexing in 32-bit arithmetic.")
    lt = F.fn(SU + "IsEqualCaseInsensitive", nparams=2)
    from ..rules_sib import case_insensitive_less
    run.add(case_insensitive_less(F, lt, SU + "IsEqualCaseInsensitive"))
    run.add(is_equal_shape(F))
    run.add(compare_path_filenames(F))
    run.add(get_filename_shape(F))
    run.add(duplicate_scan(F))
    run.add(paths_are_equal(F))
    run.add(extension_matches(F))
    run.add(append_refusals(F))
    _od, _nd = string_laws_are_disk_free(F)
    run.add(_od)
    run.floor("path-helpers", _nd, 10)
    run.add(convert_to_upper(F))
    run.add(debruijn(F))
    run.add(is_power_of_2(F))
    run.floor("R-SIB", sum(1 for o in run.obligations if o.rule == "R-SIB"), 14)

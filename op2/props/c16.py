"""C16 — Map coordinates address distinct tiles; tile accessors are faithful."""
from ..extract import AnalysisBroken
from ..facts import CALLS, fmt_term
from ..flow import Engine, Summaries, final_site_facts, substitute
from ..prove import prove_le
from ..report import ok, bad
from ..rules_layout import r_layout, r_enumbits
from ..rules_sib import P, returns
from ..rules_stream import r_atomic, is_store
from . import c05

M = "OP2Utility::Map"

DECLINED = [
    "bijectivity of ((x>>5)*H + y)*32 + (x&31) over in-range coordinates (an arithmetic fact about all x, y, H); only the "
    "shape of the index expression and the relation between its constants is checked",
    "that the coordinates cover the tile array exactly once (follows from the above plus tiles.size() == width*height, a run-time value)",
]


def tile_index_term(fn, F=None):
    args = (P(fn, len(fn.params) - 2), P(fn, len(fn.params) - 1))
    if F is not None:
        return F.call_value(M + "::GetTileIndex", ("this",), args)
    return ("call", M + "::GetTileIndex", ("this",), args)


def accessors(F, S):
    out = []
    pairs = [("GetCellType", "SetCellType", "cellType"), ("GetLavaPossible", "SetLavaPossible", "bLavaPossible")]
    for g, s, field in pairs:
        gf = F.fn(M + "::" + g, nparams=2)
        sf = F.fn(M + "::" + s, nparams=3)
        rets = returns(gf)
        want_g = ("mem", ("idx", ("mem", ("this",), "tiles"), tile_index_term(gf, F)), field)
        inst = "%s::%s~%s" % (M, g, s)
        stores = [nd for nd in sf.nodes if is_store(nd)]
        req = "getter reads and setter writes tiles[GetTileIndex(x, y)].%s; the setter stores its argument there and nothing else" % field
        gdefs, sdefs = c05.alias_defs(gf), c05.alias_defs(sf)
        gt = c05.resolve(gf.term(rets[0]["value"]), gdefs) if len(rets) == 1 else None
        if gt is not None and gt[0] == "op" and gt[1] == "!=" and ("const", 0) in (gt[2], gt[3]) and (gf.d.get("ret_ct") or "") in ("bool", "_Bool"):
            gt = gt[3] if gt[2] == ("const", 0) else gt[2]     # `field != 0` is the conversion to bool written out
        good = len(rets) == 1 and gt == want_g and len(stores) == 1 and stores[0].get("op") == "="
        if good:
            lt = c05.resolve(sf.term(sf.kids(stores[0]["id"])[0]), sdefs)
            rt = sf.term(sf.kids(stores[0]["id"])[1])
            want_s = ("mem", ("idx", ("mem", ("this",), "tiles"), tile_index_term(sf, F)), field)
            good = lt == want_s and rt == P(sf, 0)
        if good:
            out.append(ok("R-SIB", inst, sf.loc(stores[0]["id"]), sf.qn, req, "same member path on both sides"))
        else:
            out.append(bad("R-SIB", inst, sf.loc(sf.body), sf.qn, req,
                           "getter returns %s; setter stores %s" % (fmt_term(gf.term(rets[0]["value"])) if rets else "?",
                                                                    "; ".join(fmt_term(sf.term(x["id"])) for x in stores))))
        w = {it for it in S.writes(sf) if it[0] in ("this", "this@", "global")}
        inst = "%s::%s#writeset" % (M, s)
        if w <= {("this@", "tiles")} and w:
            out.append(ok("R-WRITESET", inst, sf.loc(sf.body), sf.qn, "the setter changes only an element of `tiles`", "write set: tiles[]"))
        else:
            out.append(bad("R-WRITESET", inst, sf.loc(sf.body), sf.qn, "the setter changes only an element of `tiles`", "write set: %s" % sorted(w)))
    return out


def cell_type_guard(F, S):
    out = []
    fn = F.fn(M + "::SetCellType", nparams=3)
    # the range decision is taken on the value that is stored, not on a reinterpreted copy of it
    from ..rules_narrow import r_narrow
    o_, _ = r_narrow(F, S, fn, explicit_only=True)
    out += [o for o in o_ if "accumulation in" not in o.required]
    en = F.enums.get("OP2Utility::CellType") or {}
    # ... in particular not on a signed reinterpretation of the (unsigned) cell type: values with the top bit set would
    # compare as negative and pass an upper-bound test
    def signed_casts_of_param(nid):
        res = []
        for x in fn.subtree(nid):
            nx = fn.n(x)
            if nx["k"] in ("CXXStaticCastExpr", "CStyleCastExpr", "CXXFunctionalCastExpr") and nx.get("is") and nx.get("iw") and fn.kids(x):
                inner = fn.n(fn.strip(fn.kids(x)[0]))
                if fn.term(fn.kids(x)[0]) == P(fn, 0) and not en.get("is") and nx["iw"] <= 32:
                    res.append(x)
        return res
    tainted = set()
    for nd in fn.nodes:
        if nd["k"] == "DeclStmt":
            for d in nd.get("decls", []):
                if "init" in d and signed_casts_of_param(d["init"]) and fn.term(d["init"]) == P(fn, 0):
                    tainted.add(d["d"])
    guards = [nd for nd in fn.nodes if nd["k"] == "IfStmt" and any(fn.n(x)["k"] == "CXXThrowExpr" for x in fn.subtree(nd["then"]))]
    for gnd in guards:
        hit = bool(signed_casts_of_param(gnd["cond"])) or any(fn.n(x)["k"] == "DeclRefExpr" and fn.n(x).get("d") in tainted for x in fn.subtree(gnd["cond"]))
        inst = M + "::SetCellType#guard-on-own-value"
        req = "the range refusal compares the cell type itself (unsigned), not a signed reinterpretation of it"
        if hit:
            out.append(bad("R-NARROW", inst, fn.loc(gnd["cond"]), fn.qn, req,
                           "the guard `%s` is evaluated on static_cast<int>(cellType): values with the top bit set are negative there and are accepted" % fmt_term(fn.term(gnd["cond"]))))
        else:
            out.append(ok("R-NARROW", inst, fn.loc(gnd["cond"]), fn.qn, req, fmt_term(fn.term(gnd["cond"])), nontrivial=False))
    out += r_atomic(F, S, fn)
    en = F.enums.get("OP2Utility::CellType")
    if en is None:
        raise AnalysisBroken("enum CellType not found")
    hi = max(e["value"] for e in en["enumerators"])
    lo = min(e["value"] for e in en["enumerators"])
    eng = Engine(F, S)
    eng.analyze(fn, frozenset())
    st = [nd for nd in fn.nodes if is_store(nd)]
    if len(st) != 1:
        raise AnalysisBroken("SetCellType: expected one store")
    site = final_site_facts(eng, fn, st[0]["id"]) or set()
    v = P(fn, 0)
    upper = prove_le(site, v, ("const", hi))
    # (an explicit fact is required for the lower end: the entailment engine treats atoms as non-negative quantities)
    lower = (not en.get("is")) or any((f[0] == "<=" and f[1][0] == "const" and f[1][1] >= lo and f[2] == v) or
                                      (f[0] == "<" and f[1][0] == "const" and f[1][1] >= lo - 1 and f[2] == v) for f in site)
    inst = M + "::SetCellType#range"
    req = "values outside %d..%d are refused before the store (both ends: the enum's underlying type decides whether negative values exist)" % (lo, hi)
    if upper and lower:
        out.append(ok("R-MUSTCALL", inst, fn.loc(st[0]["id"]), fn.qn, req,
                      "upper bound by the guard; lower bound by %s" % ("the unsigned underlying type" if not en.get("is") else "a guard")))
    else:
        out.append(bad("R-MUSTCALL", inst, fn.loc(st[0]["id"]), fn.qn, req,
                       "upper bound %s, lower bound %s (underlying type %s)" % ("guarded" if upper else "missing", "ok" if lower else "missing", en.get("underlying"))))
    return out


def mapping_getters(F):
    out = []
    tm = F.fn(M + "::GetTileMappingIndex", nparams=2)
    r = returns(tm)
    want = ("mem", ("idx", ("mem", ("this",), "tiles"), tile_index_term(tm, F)), "tileMappingIndex")
    inst = M + "::GetTileMappingIndex#path"
    if len(r) == 1 and c05.resolve(tm.term(r[0]["value"]), c05.alias_defs(tm)) == want:
        out.append(ok("R-SIB", inst, tm.loc(r[0]["id"]), tm.qn, "returns tiles[GetTileIndex(x, y)].tileMappingIndex", fmt_term(want)))
    else:
        out.append(bad("R-SIB", inst, tm.loc(tm.body), tm.qn, "returns tiles[GetTileIndex(x, y)].tileMappingIndex", "returns %s" % (fmt_term(tm.term(r[0]["value"])) if r else "?")))
    for g, field in (("GetTilesetIndex", "tilesetIndex"), ("GetImageIndex", "tileGraphicIndex")):
        fn = F.fn(M + "::" + g, nparams=2)
        r = returns(fn)
        want = ("mem", ("idx", ("mem", ("this",), "tileMappings"), F.call_value(M + "::GetTileMappingIndex", ("this",), (P(fn, 0), P(fn, 1)))), field)
        inst = "%s::%s#path" % (M, g)
        req = "returns tileMappings[GetTileMappingIndex(x, y)].%s" % field
        got = c05.resolve(fn.term(r[0]["value"]), c05.alias_defs(fn)) if len(r) == 1 else None
        if got == want:
            out.append(ok("R-SIB", inst, fn.loc(r[0]["id"]), fn.qn, req, fmt_term(want)))
        else:
            out.append(bad("R-SIB", inst, fn.loc(fn.body), fn.qn, req, "returns %s" % (fmt_term(got) if got else "?")))
    return out


def tile_index_shape(F):
    fn = F.fn(M + "::GetTileIndex", nparams=2)
    r = returns(fn)
    defs = c05.alias_defs(fn)
    if len(r) != 1:
        raise AnalysisBroken("GetTileIndex: expected one return")
    t = c05.resolve(fn.xterm(r[0]["value"]), defs)
    x, y = P(fn, 0), P(fn, 1)
    H = ("mem", ("this",), "heightInTiles")
    want = ("op", "+", ("op", "*", ("op", "+", ("op", "*", ("op", ">>", x, ("const", 5)), H), y), ("const", 32)), ("op", "&", x, ("const", 31)))
    inst = M + "::GetTileIndex#shape"
    req = "index = ((x >> 5) * heightInTiles + y) * 32 + (x & 31), with 32 == 1 << 5 and 31 == 32 - 1"
    from ..rules_stream import poly
    if t == want or poly(t) == poly(want):
        # (the same polynomial in x >> 5, x & 31, y and the height: 64-bit arithmetic on values the map sizes bound)
        return [ok("R-LAYOUT", inst, fn.loc(r[0]["id"]), fn.qn, req, fmt_term(t))]
    return [bad("R-LAYOUT", inst, fn.loc(r[0]["id"]), fn.qn, req, "found %s" % fmt_term(t))]


def tile_index_refuses_only_outside(F, S):
    """R-GUARD: the coordinate-to-index function refuses nothing, or exactly the coordinates outside the map
    (x >= widthInTiles, y >= heightInTiles): any other refusal turns away tiles that exist."""
    from ..rules_stream import r_guard_exact
    fn = F.fn(M + "::GetTileIndex", nparams=2)
    return r_guard_exact(F, Engine(F, S), fn, [(P(fn, 0), ("mem", ("this",), "widthInTiles"), True), (P(fn, 1), ("mem", ("this",), "heightInTiles"), True)],
                         optional=True, no_other=True)


def dimensions(F, S):
    out = []
    for name, field in (("WidthInTiles", "widthInTiles"), ("HeightInTiles", "heightInTiles")):
        fn = F.fn(M + "::" + name, nparams=0)
        r = returns(fn)
        inst = "%s::%s#reports-member" % (M, name)
        if len(r) == 1 and fn.term(r[0]["value"]) == ("mem", ("this",), field):
            out.append(ok("R-SIB", inst, fn.loc(r[0]["id"]), fn.qn, "reports the stored dimension", field, nontrivial=False))
        else:
            out.append(bad("R-SIB", inst, fn.loc(fn.body), fn.qn, "reports the stored dimension", "returns something else"))
    fn = F.fn(M + "::TileCount", nparams=0)
    r = returns(fn)
    if len(r) == 1 and fn.term(r[0]["value"]) == ("size", ("mem", ("this",), "tiles")):
        out.append(ok("R-SIB", M + "::TileCount#size", fn.loc(r[0]["id"]), fn.qn, "tile count is tiles.size()", "tiles.size()", nontrivial=False))
    else:
        out.append(bad("R-SIB", M + "::TileCount#size", fn.loc(fn.body), fn.qn, "tile count is tiles.size()", "returns something else"))
    # the dimensions are stored only by the constructor and by ReadMapBeginning, from the header
    writers = {}
    for f in F.functions.values():
        if not f.qn.startswith(M + "::") or f.d.get("implicit"):
            continue
        for nd in f.nodes:
            if is_store(nd):
                t = f.term(f.kids(nd["id"])[0])
                ln = f.n(f.strip(f.kids(nd["id"])[0]))
                if t[0] == "mem" and t[2] in ("widthInTiles", "heightInTiles") and ln.get("mrec") == M:
                    writers.setdefault(t[2], []).append((f, nd))
        if f.d.get("ctor"):
            for ini in f.d.get("inits", []):
                if ini.get("field") in ("widthInTiles", "heightInTiles"):
                    writers.setdefault(ini["field"], []).append((f, None))
    rmb = F.fn(M + "::ReadMapBeginning", nparams=1)
    for field, src in (("widthInTiles", "WidthInTiles"), ("heightInTiles", "heightInTiles")):
        ws = writers.get(field, [])
        non_ctor = [(f, nd) for f, nd in ws if nd is not None]
        inst = "%s::%s#single-writer" % (M, field)
        req = "%s is set only when a map is read, from the header" % field
        # the reading code is ReadMapBeginning and the private helpers it alone calls (it may have been split up)
        from ..through import private_closure
        reading = private_closure(F, rmb)
        good = len(non_ctor) == 1 and non_ctor[0][0].key in reading
        if good:
            f, nd = non_ctor[0]
            rt = f.term(f.kids(nd["id"])[1])
            hv = [("var", d["n"], d["d"]) for x in f.nodes if x["k"] == "DeclStmt" for d in x.get("decls", []) if d.get("rec") == "OP2Utility::MapHeader"]
            hv += [("var", p["n"], p["d"]) for p in f.params if p.get("rec") == "OP2Utility::MapHeader"]
            good = (rt[0] == "mem" and rt[2] == src and (not hv or rt[1] in hv)) or any(rt == F.method_value("OP2Utility::MapHeader::" + src, h0) for h0 in hv)
        if good:
            out.append(ok("R-WRITESET", inst, rmb.loc(non_ctor[0][1]["id"]), rmb.qn, req, "one store, from mapHeader"))
        else:
            out.append(bad("R-WRITESET", inst, rmb.loc(rmb.body), rmb.qn, req, "%d stores outside constructors" % len(non_ctor)))
    return out


def check(F, run, tier):
    S = Summaries(F)
    run.declined = DECLINED
    run.explanation = (
        "Static checks on the tile accessors and the packed tile record: R-ENUMBITS (every CellType enumerator is "
        "representable in the 5-bit field as the compiler reads it back: the enum's underlying type must not make bit 4 "
        "a sign bit), R-LAYOUT (Tile / TileMapping bit positions, CellType values), R-SIB/R-WRITESET (getter and setter "
        "use the same member path through the same GetTileIndex(x, y); a setter writes one element of `tiles` only), "
        "R-ATOMIC and guard strength of SetCellType, the getter chain tile -> mapping entry -> tileset / image index, the "
        "shape of the 32-column block index expression, and single-writer facts for the reported dimensions.")
    run.add(r_enumbits(F, ["OP2Utility::Tile"]))
    run.add(r_layout(F, records=["OP2Utility::Tile", "OP2Utility::TileMapping"], enums=["OP2Utility::CellType"]))
    run.add(accessors(F, S))
    run.add(cell_type_guard(F, S))
    run.add(mapping_getters(F))
    run.add(tile_index_shape(F))
    run.add(tile_index_refuses_only_outside(F, S))
    run.add(dimensions(F, S))
    # a bounds refusal guarding a subscript (however the lookup is packaged) refuses exactly the out-of-range indices
    from ..rules_stream import subscript_guards_exact
    o_, _n = subscript_guards_exact(F, S, ["/src/"])
    run.add(o_)
    fxg = [f for f in F.fixture_functions.values() if f.qn == "fixture::Entries::At"]
    hitg = bool(fxg) and any(x.status == "violated" for x in subscript_guards_exact(F, S, [], functions=fxg)[0])
    run.fixture("fixtures/raw_read.cpp: `if (index + 1 >= items.size()) throw` before items[index] is reported by R-GUARD", hitg)
    run.floor("obligations", len(run.obligations), 20)

"""C04 — LZH decompression equals the reference decoder, however it is drained."""
import json
import os

from ..extract import AnalysisBroken
from ..facts import CALLS, CTORS, fmt_term
from ..flow import Engine, Summaries, final_site_facts, fmt_fact, mentions
from ..prove import prove_le
from ..report import ok, bad, VERIF
from ..rules_archive import facts_txt, raw_io_extents
from ..rules_sib import P, returns
from ..rules_stream import is_store
from . import c15

HL = "OP2Utility::Archive::HuffLZ"
BS = "OP2Utility::Archive::BitStreamReader"

DECLINED = [
    "equality of the decoded bytes with a reference decoder (values)",
    "equivalence of drain schedules: needs the relational invariant between read and write index (that write - read does not "
    "wrap at the second copy of CopyAvailableData is not decided; only the two per-copy bounds are)",
    "termination of the tree walk (depends on the declined tree invariants of C15)",
    "that an independent encoder's payload decodes to a string that begins with the payload (values)",
]


def lz_spec():
    with open(os.path.join(VERIF, "spec", "lzh_offsets.json")) as fh:
        return json.load(fh)


def window_mask(F, S):
    """R-CURSOR, mask form: every store to the write index (and to every index used to address the window for a store or a
    match source) is `(…) & (extent - 1)` or 0."""
    out = []
    rec = F.record(HL)
    buf = [f for f in rec["fields"] if f["name"] == "m_DecompressBuffer"]
    if not buf or not buf[0].get("array_len"):
        raise AnalysisBroken("HuffLZ::m_DecompressBuffer extent not found")
    ext = buf[0]["array_len"]
    sp = lz_spec()
    inst = HL + "::m_DecompressBuffer#extent"
    if ext == sp["window"]:
        out.append(ok("R-LAYOUT", inst, "HuffLZ.h:%s" % buf[0]["line"], HL, "the window has the format's %d bytes" % sp["window"], "char[%d]" % ext, nontrivial=False))
    else:
        out.append(bad("R-LAYOUT", inst, "HuffLZ.h:%s" % buf[0]["line"], HL, "the window has the format's %d bytes" % sp["window"], "char[%d]" % ext))
    n = 0
    wi = ("mem", ("this",), "m_BuffWriteIndex")
    for fn in sorted(F.functions.values(), key=lambda f: f.key):
        if fn.cls != HL:
            continue
        # window subscripts used as a store target or as the source of a byte that is written back
        idx_terms = set()
        for nd in fn.nodes:
            if nd["k"] == "ArraySubscriptExpr":
                ks = fn.kids(nd["id"])
                if fn.term(ks[0]) == ("mem", ("this",), "m_DecompressBuffer"):
                    idx_terms.add(fn.term(ks[1]))
        cursors = {wi} | {t for t in idx_terms if t[0] == "var"}
        for nd in fn.nodes:
            if is_store(nd) and len(fn.kids(nd["id"])) >= 1:
                l = fn.term(fn.kids(nd["id"])[0])
                if l not in cursors:
                    continue
                if l[0] == "var" and l not in idx_terms:
                    continue
                n += 1
                inst = "%s#%s-store:%s" % (fn.qn, "write-index" if l == wi else l[1], fmt_term(fn.term(nd["id"])))
                req = "the index stays below the window extent: stored as (…) & %#x (or unsigned %% %d)" % (ext - 1, ext)
                good = False
                if nd.get("op") == "=":
                    r = fn.term(fn.kids(nd["id"])[1])
                    good = (r[0] == "op" and r[1] == "&" and ("const", ext - 1) in (r[2], r[3])) or r == ("const", 0) or \
                        (r[0] == "op" and r[1] == "%" and r[3] == ("const", ext) and not fn.n(fn.kids(nd["id"])[1]).get("is", False))
                if good:
                    out.append(ok("R-CURSOR", inst, fn.loc(nd["id"]), fn.qn, req, fmt_term(fn.term(nd["id"]))))
                else:
                    out.append(bad("R-CURSOR", inst, fn.loc(nd["id"]), fn.qn, req, "stored as %s" % fmt_term(fn.term(nd["id"]))))
        # a window index declared with its first value (`unsigned int start = (...) & 0xFFF;`) is a store of that value
        for nd in fn.nodes:
            if nd["k"] != "DeclStmt":
                continue
            for d in nd.get("decls", []):
                v = ("var", d.get("n"), d.get("d"))
                if v in idx_terms and "init" in d:
                    n += 1
                    r = fn.term(d["init"])
                    inst = "%s#%s-store:%s" % (fn.qn, v[1], fmt_term(("op", "=", v, r)))
                    req = "the index stays below the window extent: stored as (…) & %#x (or unsigned %% %d)" % (ext - 1, ext)
                    if (r[0] == "op" and r[1] == "&" and ("const", ext - 1) in (r[2], r[3])) or r == ("const", 0):
                        out.append(ok("R-CURSOR", inst, fn.loc(nd["id"]), fn.qn, req, fmt_term(r)))
                    else:
                        out.append(bad("R-CURSOR", inst, fn.loc(nd["id"]), fn.qn, req, "initialised as %s" % fmt_term(r)))
        # the for-loop increment of a match source index is a store in comma form: covered above through is_store on '='
    # constructor starts the write index at 0
    c = [f for f in F.fns(HL + "::HuffLZ") if not f.d.get("copy_ctor")]
    for cc in c:
        for ini in cc.d.get("inits", []):
            if ini.get("field") == "m_BuffWriteIndex":
                n += 1
                t = cc.term(ini["init"])
                if t == ("const", 0):
                    out.append(ok("R-CURSOR", HL + "#write-index-init", cc.loc(ini["init"]), cc.qn, "the write index starts inside the window", "0", nontrivial=False))
                else:
                    out.append(bad("R-CURSOR", HL + "#write-index-init", cc.loc(ini["init"]), cc.qn, "the write index starts inside the window", fmt_term(t)))
    return out, n


def window_initialised(F, S):
    """Every byte of the window is set to the format's fill byte (space) on every path through the constructor: by
    memset / std::fill / std::fill_n over the whole array, in the constructor or in a helper of the class it calls."""
    from ..through import on_every_returning_path, closure
    rec = F.record(HL)
    ext = [f for f in rec["fields"] if f["name"] == "m_DecompressBuffer"][0]["array_len"]
    win = ("mem", ("this",), "m_DecompressBuffer")
    SPACE = ("const", 32)

    def whole_fill(f, nd):
        """nd fills all `ext` bytes of the window with spaces; returns a description or None (a partial / other fill gives False)."""
        a = [f.term(x) for x in nd.get("args", [])]
        fq = nd.get("fq") or nd.get("fname") or ""
        first = lambda t: t == win or t == ("un", "&", ("idx", win, ("const", 0))) or (t[0] == "call" and t[1].split("::")[-1] == "begin" and (t[3] == (win,) or t[2] == win))
        last = lambda t: (t[0] == "call" and t[1].split("::")[-1] == "end" and (t[3] == (win,) or t[2] == win)) or t == ("op", "+", win, ("const", ext))
        if fq.endswith("memset") and len(a) == 3 and first(a[0]):
            return "memset(window, ' ', %d)" % ext if a[1] == SPACE and a[2] == ("const", ext) else False
        if fq == "std::fill" and len(a) == 3 and first(a[0]):
            return "std::fill over the whole window" if last(a[1]) and a[2] == SPACE else False
        if fq == "std::fill_n" and len(a) == 3 and first(a[0]):
            return "std::fill_n(window, %d, ' ')" % ext if a[1] == ("const", ext) and a[2] == SPACE else False
        return None

    ctor = [f for f in F.fns(HL + "::HuffLZ") if not f.d.get("copy_ctor") and not f.d.get("implicit")]
    if len(ctor) != 1:
        raise AnalysisBroken("HuffLZ: expected one user-written constructor")
    c0 = ctor[0]
    out = []
    fills = []      # (function, node, description)
    partial = []
    for f in closure(F, c0, depth=2):
        for nd in f.nodes:
            if nd["k"] in CALLS:
                w = whole_fill(f, nd)
                if w:
                    fills.append((f, nd, w))
                elif w is False:
                    partial.append((f, nd))
    inst = HL + "::InitializeDecompressBuffer#whole-window"
    req = "all %d window bytes are set to the format's fill byte (space) before decoding starts" % ext
    if fills and not partial:
        f, nd, w = fills[0]
        out.append(ok("R-INIT", inst, f.loc(nd["id"]), f.qn, req, w))
    elif partial:
        f, nd = partial[0]
        a = [f.term(x) for x in nd.get("args", [])]
        out.append(bad("R-INIT", inst, f.loc(nd["id"]), f.qn, req, "memset length %s / fill %s" % (fmt_term(a[2]) if len(a) > 2 else "?", fmt_term(a[1]) if len(a) > 1 else "?")
                       if (nd.get("fname") or "").endswith("memset") else "%s(%s) does not cover the whole window with spaces" % (nd.get("fq") or nd.get("fname"), ", ".join(fmt_term(x) for x in a))))
    else:
        out.append(bad("R-INIT", inst, c0.loc(c0.body), c0.qn, req, "memset length ? / fill ?"))
    # on every path through the constructor
    inst = HL + "#ctor-initialises-window"
    ids = [nd["id"] for (f, nd, w) in fills if f.key == c0.key]
    for nd in c0.nodes:
        if nd["k"] in CALLS:
            for cal in F.callees(nd):
                hs = [x for (f, x, w) in fills if f.key == cal.key]
                if hs and on_every_returning_path(cal, [x["id"] for x in hs]):
                    ids.append(nd["id"])
    if ids and on_every_returning_path(c0, ids):
        out.append(ok("R-MUSTCALL", inst, c0.loc(c0.body), c0.qn, "the constructor fills the window", "the fill is on every path through the constructor"))
    else:
        out.append(bad("R-MUSTCALL", inst, c0.loc(c0.body), c0.qn, "the constructor fills the window", "not called"))
    return out


def fill_threshold(F, S):
    """A decoded code adds at most (symbols - 1) - match_base bytes; the fill threshold leaves that much room."""
    sp = lz_spec()
    fn = F.fn(HL + "::FillDecompressBuffer", nparams=0)
    # the threshold is whatever constant the fill loop compares the masked fill level with
    from .c05 import alias_defs, resolve
    from ..through import continue_conditions
    mf = None
    fill_conds = []
    for nd in fn.nodes:
        if nd["k"] in ("WhileStmt", "DoStmt", "ForStmt"):
            for t in continue_conditions(fn, nd):
                t = resolve(t, alias_defs(fn))
                if t[0] == "op" and t[1] == "<" and t[3][0] == "const" and "m_BuffWriteIndex" in repr(t[2]) and "m_BuffReadIndex" in repr(t[2]):
                    mf = t[3][1]
                    fill_conds.append(t)
    dc = F.fn(HL + "::DecompressCode", nparams=0)
    # the match length is the code minus a constant (`code -= 253`, or `code - 253` handed to a copy helper)
    base = None
    # the decoded code is what the tree is updated with
    codes = {dc.term(nd["args"][0]) for nd in dc.nodes if nd["k"] == "CXXMemberCallExpr" and nd.get("fname") == "UpdateCodeCount" and nd.get("args")}
    codes = {c for c in codes if c[0] == "var"}
    for nd in dc.nodes:
        if (nd["k"] == "CompoundAssignOperator" and nd.get("op") == "-=") or (nd["k"] == "BinaryOperator" and nd.get("op") == "-"):
            ks = dc.kids(nd["id"])
            l, r = dc.term(ks[0]), dc.term(ks[1])
            if r[0] == "const" and l in codes:
                base = r[1] if base in (None, r[1]) else -1
    ctor = [f for f in F.fns(HL + "::HuffLZ") if not f.d.get("copy_ctor") and not f.d.get("implicit")][0]
    syms = None
    for ini in ctor.d.get("inits", []):
        if ini.get("field") == "m_AdaptiveHuffmanTree":
            for x in ctor.subtree(ini["init"]):
                if ctor.n(x)["k"] == "IntegerLiteral":
                    syms = ctor.n(x)["v"]
    out = []
    inst = HL + "#format-constants"
    if syms == sp["symbols"] and base == sp["match_base"]:
        out.append(ok("R-LAYOUT", inst, dc.loc(dc.body), dc.qn, "%d symbols; match length = code - %d" % (sp["symbols"], sp["match_base"]), "as in the format description"))
    else:
        out.append(bad("R-LAYOUT", inst, dc.loc(dc.body), dc.qn, "%d symbols; match length = code - %d" % (sp["symbols"], sp["match_base"]), "found %s symbols, base %s" % (syms, base)))
    inst = HL + "::FillDecompressBuffer#room-for-longest-match"
    req = "fill threshold + longest match (%d) <= window - 1, so a decoded match never overwrites unread bytes" % sp["max_match"]
    cond_ok = len(fill_conds) == 1
    if mf is not None and syms is not None and base is not None and cond_ok and mf + ((syms - 1) - base) <= sp["window"] - 1:
        out.append(ok("R-ACCT", inst, fn.loc(fn.body), fn.qn, req, "%d + %d <= %d" % (mf, (syms - 1) - base, sp["window"] - 1)))
    else:
        out.append(bad("R-ACCT", inst, fn.loc(fn.body), fn.qn, req, "maxFill=%s, longest match=%s" % (mf, None if syms is None or base is None else (syms - 1) - base)))
    return out


def _eval_term(t, env):
    """Integer value of a closed arithmetic term (unsigned 32-bit semantics), env: term -> int. None if not closed."""
    if t in env:
        return env[t]
    if t[0] == "const":
        return t[1]
    if t[0] == "op" and t[1] in ("+", "-", ">>", "<<", "&", "|", "*"):
        a, b = _eval_term(t[2], env), _eval_term(t[3], env)
        if a is None or b is None:
            return None
        v = {"+": a + b, "-": a - b, ">>": a >> b if b >= 0 else None, "<<": a << b if 0 <= b < 64 else None,
             "&": a & b, "|": a | b, "*": a * b}[t[1]]
        return None if v is None else v & 0xffffffff
    return None


def offset_table_rows(F, fn, off):
    """The distance classes when GetOffsetModifiers is written over a constant table: a loop over a namespace-scope constant
    array of records selects the first row r with `prefix < r.<end>` (returning from the loop, or remembering the row and
    leaving the loop), a fallback row covers the rest, and the result is one formula over the selected row's fields.
    Returns [(below, bits, upper_fn)] in class order, or None when the function is not written this way."""
    loops = [nd for nd in fn.nodes if nd["k"] == "CXXForRangeStmt"]
    if len(loops) != 1:
        return None
    lp = loops[0]
    rng = fn.term(lp["range"])
    tbl = F.vars.get(rng[1]) if rng[0] == "global" else None
    rows = (tbl or {}).get("value")
    if not (tbl and tbl.get("const") and isinstance(rows, list) and rows and all(isinstance(r, dict) for r in rows)):
        return None
    d = fn.n(lp["loopvar"])["decls"][0]
    elem = ("var", d["n"], d["d"])
    body = fn.n(lp["body"])
    ks = fn.kids(lp["body"]) if body["k"] == "CompoundStmt" else [lp["body"]]
    ifs = [fn.n(x) for x in ks if fn.n(x)["k"] == "IfStmt"]
    if len(ifs) != 1 or len(ks) != 1 or ifs[0].get("else") is not None:
        return None
    c = fn.term(ifs[0]["cond"])
    if not (c[0] == "op" and c[1] == "<" and c[2] == off and c[3][0] == "mem" and c[3][1] == elem):
        return None
    end_field = c[3][2]
    then = fn.subtree(ifs[0]["then"])
    rets_in = [fn.n(x) for x in then if fn.n(x)["k"] == "ReturnStmt"]
    rets_out = [r for r in returns(fn) if r["id"] not in then]
    if len(rets_out) != 1:
        return None
    sel = None
    fallback = None
    if rets_in:
        # form (a): return the formula from inside the loop; the final return is the fallback class
        if len(rets_in) != 1:
            return None
        formula = fn.term(rets_in[0]["value"])
        sel = elem
        tail = fn.term(rets_out[0]["value"])
    else:
        # form (b): remember the row and leave the loop; one formula over the remembered row
        if not any(fn.n(x)["k"] == "BreakStmt" for x in then):
            return None
        st = [fn.n(x) for x in then if is_store(fn.n(x))]
        if len(st) != 1:
            return None
        l, r = fn.term(fn.kids(st[0]["id"])[0]), fn.term(fn.kids(st[0]["id"])[1])
        if l[0] != "var" or r not in (elem, ("un", "&", elem)):
            return None
        sel = l
        formula = fn.term(rets_out[0]["value"])
        tail = None
        for nd in fn.nodes:
            if nd["k"] == "DeclStmt":
                for d2 in nd.get("decls", []):
                    if ("var", d2.get("n"), d2.get("d")) == sel and "init" in d2:
                        it = fn.term(d2["init"])
                        g = it[2] if it[0] == "un" and it[1] == "&" else it
                        if g[0] == "global":
                            fv = F.vars.get(g[1]) or {}
                            if fv.get("const") and isinstance(fv.get("value"), dict):
                                fallback = fv["value"]
        if fallback is None:
            return None
    if not (formula[0] == "initlist" and len(formula[1]) == 2):
        return None

    def row_fns(row, f0):
        env = {("mem", sel, k): v for k, v in row.items() if isinstance(v, int)}
        bits = _eval_term(f0[1][0], env)
        def up(x, e=env, t=f0[1][1]):
            e2 = dict(e)
            e2[off] = x
            return _eval_term(t, e2)
        return bits, up
    out = []
    for row in rows:
        if not isinstance(row.get(end_field), int):
            return None
        b, u = row_fns(row, formula)
        out.append((row[end_field], b, u))
    if fallback is not None:
        b, u = row_fns(fallback, formula)
        out.append((256, b, u))
    else:
        if not (tail[0] == "initlist" and len(tail[1]) == 2):
            return None
        out.append((256, _eval_term(tail[1][0], {}), lambda x, t=tail[1][1]: _eval_term(t, {off: x})))
    return out


def offset_table(F, S):
    sp = lz_spec()
    fn = F.fn(HL + "::GetOffsetModifiers", nparams=1)
    off = P(fn, 0)
    rows = offset_table_rows(F, fn, off)
    if rows is not None:
        # table form: the i-th row must be the i-th class of the format; the upper-bits formula is compared with the
        # format's on every prefix value of the class (two closed formulas over at most 80 values)
        out = []
        lo = 0
        for i, cl in enumerate(sp["classes"]):
            inst = "%s::GetOffsetModifiers#class-%d" % (HL, i)
            req = "prefix < %d: %d extra bits, upper bits ((prefix - %d) >> %d) + %d" % (cl["below"], cl["extra_bits"], cl["from"], cl["shift"], cl["base"])
            if i >= len(rows):
                out.append(bad("R-LAYOUT", inst, fn.loc(fn.body), fn.qn, req, "class missing"))
                continue
            below, bits, up = rows[i]
            probs = []
            if below != cl["below"]:
                probs.append("class boundary %s" % below)
            if bits != cl["extra_bits"]:
                probs.append("extra bits %s" % bits)
            want = (lambda x: cl["base"]) if "const_upper" in cl else (lambda x: ((x - cl["from"]) >> cl["shift"]) + cl["base"])
            diff = [x for x in range(lo, cl["below"]) if up(x) != want(x)]
            if diff:
                probs.append("upper bits differ from the format's for prefix %d (gives %s, format %d)" % (diff[0], up(diff[0]), want(diff[0])))
            lo = cl["below"]
            if probs:
                out.append(bad("R-LAYOUT", inst, fn.loc(fn.body), fn.qn, req, "; ".join(probs)))
            else:
                out.append(ok("R-LAYOUT", inst, fn.loc(fn.body), fn.qn, req, "row %d of the constant table, as in the format description" % i))
        if len(rows) != len(sp["classes"]):
            out.append(bad("R-LAYOUT", "%s::GetOffsetModifiers#class-count" % HL, fn.loc(fn.body), fn.qn, "the table has the format's %d classes" % len(sp["classes"]), "%d rows" % len(rows)))
        return out
    classes = []
    for nd in fn.nodes:
        if nd["k"] == "IfStmt":
            c = fn.term(nd["cond"])
            r = [x for x in fn.subtree(nd["then"]) if fn.n(x)["k"] == "ReturnStmt"]
            if len(r) != 1:
                raise AnalysisBroken("GetOffsetModifiers: branch without a single return")
            classes.append((nd["id"], c, fn.term(fn.n(r[0])["value"])))
    tail = [r for r in returns(fn) if all(r["id"] not in fn.subtree(fn.n(i)["then"]) for (i, _, _) in classes)]
    if len(tail) != 1:
        raise AnalysisBroken("GetOffsetModifiers: final return not found")
    classes.sort()
    got = []
    for (_, c, v) in classes:
        if not (c[0] == "op" and c[2] == off and c[3][0] == "const"):
            raise AnalysisBroken("GetOffsetModifiers: condition shape not recognised")
        got.append((c[1], c[3][1], v))
    got.append((None, 256, fn.term(tail[0]["value"])))
    out = []

    def upper(v):
        return v[1][1] if v[0] == "initlist" and len(v[1]) == 2 else None

    def bits(v):
        return v[1][0][1] if v[0] == "initlist" and v[1][0][0] == "const" else None
    for i, cl in enumerate(sp["classes"]):
        inst = "%s::GetOffsetModifiers#class-%d" % (HL, i)
        req = "prefix < %d: %d extra bits, upper bits ((prefix - %d) >> %d) + %d" % (cl["below"], cl["extra_bits"], cl["from"], cl["shift"], cl["base"])
        if i >= len(got):
            out.append(bad("R-LAYOUT", inst, fn.loc(fn.body), fn.qn, req, "class missing"))
            continue
        op, thr, v = got[i]
        u = upper(v)
        want_u = ("const", cl["base"]) if "const_upper" in cl else None
        if want_u is None:
            inner = ("op", "-", off, ("const", cl["from"]))
            sh = ("op", ">>", inner, ("const", cl["shift"])) if cl["shift"] else inner
            want_u = ("op", "+", sh, ("const", cl["base"])) if cl["base"] else sh
        probs = []
        if op not in ("<", None):
            probs.append("comparison `%s %d` (the format's class ends below %d)" % (op, thr, cl["below"]))
        if thr != cl["below"]:
            probs.append("class boundary %d" % thr)
        if bits(v) != cl["extra_bits"]:
            probs.append("extra bits %s" % bits(v))
        if u != want_u:
            probs.append("upper bits %s" % (fmt_term(u) if u else "?"))
        if probs:
            out.append(bad("R-LAYOUT", inst, fn.loc(fn.body), fn.qn, req, "; ".join(probs)))
        else:
            out.append(ok("R-LAYOUT", inst, fn.loc(fn.body), fn.qn, req, "as in the format description"))
    return out


def bitstream_bounds(F, S):
    out = []
    n = 0
    idx = ("mem", ("this",), "m_ReadBitIndex")
    lim = ("mem", ("this",), "m_BufferBitSize")
    for name in ("ReadNextBit", "ReadNext8Bits"):
        fn = F.fn(BS + "::" + name, nparams=0)
        eng = Engine(F, S)
        eng.analyze(fn, frozenset())
        for nd in fn.nodes:
            if nd["k"] == "ArraySubscriptExpr" and fn.term(fn.kids(nd["id"])[0]) == ("mem", ("this",), "m_Buffer"):
                n += 1
                site = final_site_facts(eng, fn, nd["id"]) or set()
                it = fn.term(fn.kids(nd["id"])[1])
                inst = "%s::%s#buffer[%s]" % (BS, name, fmt_term(it))
                req = "m_ReadBitIndex < m_BufferBitSize where the byte m_Buffer[m_ReadBitIndex >> 3] is fetched"
                if it == ("op", ">>", idx, ("const", 3)) and prove_le(site, idx, lim, strict=True):
                    out.append(ok("R-INDEX", inst, fn.loc(nd["id"]), fn.qn, req, "end-of-stream refusal dominates the fetch"))
                else:
                    out.append(bad("R-INDEX", inst, fn.loc(nd["id"]), fn.qn, req, "facts: " + facts_txt(site)))
    c = [f for f in F.fns(BS + "::BitStreamReader") if not f.d.get("copy_ctor") and not f.d.get("implicit")]
    inits = {i.get("field"): c[0].term(i["init"]) for i in c[0].d.get("inits", []) if "field" in i}
    inst = BS + "#bit-size"
    if inits.get("m_BufferBitSize") in (("op", "<<", P(c[0], 1), ("const", 3)), ("op", "*", P(c[0], 1), ("const", 8)), ("op", "*", ("const", 8), P(c[0], 1))):
        out.append(ok("R-ACCT", inst, c[0].loc(c[0].body), c[0].qn, "the bit limit is 8 x the byte size of the caller's buffer", "bufferSize << 3", nontrivial=False))
    else:
        out.append(bad("R-ACCT", inst, c[0].loc(c[0].body), c[0].qn, "the bit limit is 8 x the byte size of the caller's buffer", fmt_term(inits.get("m_BufferBitSize", ("?",)))))
    return out, n


def decode_order(F, S):
    dc = F.fn(HL + "::DecompressCode", nparams=0)
    eng = Engine(F, S)
    eng.analyze(dc, frozenset())
    wr = [nd for nd in dc.nodes if nd["k"] in CALLS and nd.get("fname") == "WriteCharToBuffer"]
    out = []
    allok = bool(wr)
    for w in wr:
        site = final_site_facts(eng, dc, w["id"]) or set()
        if ("ev", "called", "OP2Utility::Archive::AdaptiveHuffmanTree::UpdateCodeCount") not in site:
            allok = False
    inst = HL + "::DecompressCode#update-before-output"
    req = "the (refusable) tree update for a code precedes every byte that code outputs: an over-capacity input errors at that code"
    if allok:
        out.append(ok("R-ORDER", inst, dc.loc(wr[0]["id"]), dc.qn, req, "UpdateCodeCount dominates all %d output sites" % len(wr)))
    else:
        out.append(bad("R-ORDER", inst, dc.loc(dc.body), dc.qn, req, "an output site is not dominated by the update"))
    # the end-of-stream answer the function returns is read after everything the code consumes from the bit stream
    from ..through import closure
    consumers = ("GetRepeatOffset", "GetNextCode", "ReadNextBit", "ReadNext8Bits", "GetOffsetModifiers")
    eos_t = F.method_value(BS + "::EndOfStream", ("mem", ("this",), "m_BitStreamReader"))
    # functions that (transitively) take bits from the reader
    bit_consumers = {f.key for f in F.functions.values() if f.cls == BS and f.name in ("ReadNextBit", "ReadNext8Bits")}
    changed = True
    while changed:
        changed = False
        for f in F.functions.values():
            if f.key in bit_consumers or not f.cfg or f.cls not in (HL, BS):
                continue
            if any(c.key in bit_consumers for nd in f.nodes if nd["k"] in CALLS for c in F.callees(nd)):
                bit_consumers.add(f.key)
                changed = True
    bit_consumers.discard(dc.key)
    inst = HL + "::DecompressCode#end-of-stream-after-code"
    req = "the end-of-stream flag returned for a code is read after all bits of that code (symbol, offset) were consumed"
    probs = []
    rets = returns(dc)
    for r in rets:
        v = dc.term(r["value"])
        read_at = r["id"]
        if v[0] == "var":
            defs_at = [nd["id"] for nd in dc.nodes if nd["k"] == "DeclStmt" and any(("var", d.get("n"), d.get("d")) == v and "init" in d and dc.term(d["init"]) == eos_t for d in nd.get("decls", []))]
            defs_at += [nd["id"] for nd in dc.nodes if nd["k"] == "BinaryOperator" and nd.get("op") == "=" and dc.term(dc.kids(nd["id"])[0]) == v and dc.term(dc.kids(nd["id"])[1]) == eos_t]
            if len(defs_at) != 1:
                raise AnalysisBroken("DecompressCode: the returned flag is not the bit reader's end-of-stream test")
            read_at = defs_at[0]
        elif v != eos_t:
            raise AnalysisBroken("DecompressCode: the returned flag is not the bit reader's end-of-stream test")
        later = [nd for nd in dc.nodes if nd["k"] in CALLS and nd["id"] > read_at and
                 (nd.get("fname") in consumers or any(c.key in bit_consumers for c in F.callees(nd)))]
        if later:
            probs.append("the flag is read at %s, before %s at %s consumes further bits" % (dc.loc(read_at), later[0].get("fname"), dc.loc(later[0]["id"])))
    if not rets:
        raise AnalysisBroken("DecompressCode: no return")
    if probs:
        out.append(bad("R-ORDER", inst, dc.loc(rets[0]["id"]), dc.qn, req, "; ".join(probs)))
    else:
        out.append(ok("R-ORDER", inst, dc.loc(rets[0]["id"]), dc.qn, req, "read at the return, after the last consuming call"))
    return out


def drain_copies(F, S):
    """CopyAvailableData: each memcpy out of the window copies no more than the caller's remaining room and no more than the
    window holds from the read index on (up to the window's end, or up to the write index)."""
    fn = F.fn(HL + "::CopyAvailableData", nparams=2)
    eng = Engine(F, S)
    eng.analyze(fn, frozenset())
    out = []
    size = P(fn, 1)
    rd = ("mem", ("this",), "m_BuffReadIndex")
    wr = ("mem", ("this",), "m_BuffWriteIndex")
    win = F.record(HL)
    ext = None
    for f in win["fields"]:
        if f["name"] == "m_DecompressBuffer":
            ext = f["width_bits"] // 8
    if ext is None:
        raise AnalysisBroken("HuffLZ::m_DecompressBuffer not found")
    n = 0
    # the copies are in CopyAvailableData or in helpers it calls on the same object; a helper's copy is judged once per
    # calling context (what is known at each call, carried into the helper, must give both bounds)
    from ..through import find_calls
    sites = find_calls(F, fn, lambda x: x.get("fname") == "memcpy" and len(x.get("args", [])) == 3, depth=2)
    done = set()
    for st in sorted(sites, key=lambda s0: (s0.owner.key != fn.key, s0.node["id"])):
        hf, nd = st.owner, st.node
        if (hf.key, nd["id"]) in done:
            continue
        done.add((hf.key, nd["id"]))
        obs = eng.site.get((hf.key, nd["id"])) or []
        if not obs:
            raise AnalysisBroken("%s: the copy at %s is not reached from CopyAvailableData" % (fn.qn, hf.loc(nd["id"])))
        a = [hf.term(x) for x in nd["args"]]
        cnt = a[2]
        src_ok = a[1] == ("un", "&", ("idx", ("mem", ("this",), "m_DecompressBuffer"), rd))
        # one obligation per calling context when the copy is in a helper called from several places
        ctxs = [set(o) for o in obs] if hf.key != fn.key else [final_site_facts(eng, hf, nd["id"]) or set()]
        seen_ctx = []
        for site in ctxs:
            if site in seen_ctx:
                continue
            seen_ctx.append(site)
            n += 1
            inst = "%s#memcpy%d" % (fn.qn, n)
            room = prove_le(site, cnt, size)
            held = prove_le(site, cnt, ("op", "-", ("const", ext), rd)) or prove_le(site, cnt, ("op", "-", wr, rd))
            req = "memcpy out of the window: count <= caller's remaining room, and <= %d - read index or <= write index - read index" % ext
            if src_ok and room and held:
                out.append(ok("R-COPYEXT", inst, hf.loc(nd["id"]), hf.qn, req, "both bounds hold at the copy"))
            else:
                why = []
                if not src_ok:
                    why.append("source is %s" % fmt_term(a[1]))
                if not room:
                    why.append("%s <= %s not established" % (fmt_term(cnt), fmt_term(size)))
                if not held:
                    why.append("%s not bounded by what the window holds" % fmt_term(cnt))
                out.append(bad("R-COPYEXT", inst, hf.loc(nd["id"]), hf.qn, req, "; ".join(why) + "; facts at site: " + facts_txt(site)))
    # the terms above are read through conversions; a conversion that can change the value (size_t -> int ...) must be guarded
    from ..rules_narrow import r_narrow
    o2, _ = r_narrow(F, S, fn, explicit_only=False)
    out += [o for o in o2 if "accumulation in" not in o.required]
    return out, n

# ------------------------------------------------------------------------------------------
class _Lin:
    """Linear forms over named symbols: {symbol: coefficient} + constant; None = unknown."""

    @staticmethod
    def const(c):
        return ({}, c)

    @staticmethod
    def sym(name):
        return ({name: 1}, 0)

    @staticmethod
    def add(a, b, sign=1):
        if a is None or b is None:
            return None
        co = dict(a[0])
        for k, v in b[0].items():
            co[k] = co.get(k, 0) + sign * v
        return ({k: v for k, v in co.items() if v != 0}, a[1] + sign * b[1])

    @staticmethod
    def eq(a, b):
        return a is not None and b is not None and a[0] == b[0] and a[1] == b[1]

    @staticmethod
    def txt(a):
        if a is None:
            return "?"
        parts = ["%s%s" % ("" if v == 1 else ("-" if v == -1 else "%d*" % v), k) for k, v in sorted(a[0].items())]
        if a[1] or not parts:
            parts.append(str(a[1]))
        return " + ".join(parts)


def drain_placement(F, S):
    """GetData fills the caller's buffer contiguously: a small abstract interpretation of GetData over linear forms.
    With D = the number of bytes delivered so far in this call (the sum of the results of the CopyAvailableData calls made),
    every chunk is placed at buffer + D, is given room bufferSize - D, and the count returned is D. Loops are handled by
    guessing, for every local the loop changes, the relations `v == D` / `v == bufferSize0 - D` that hold on entry and
    keeping those the body preserves."""
    fn = F.fn(HL + "::GetData", nparams=2)
    out = []
    buf, size0 = P(fn, 0), P(fn, 1)
    L = _Lin
    counter = [0]
    problems = []
    sites = []

    def fresh(prefix):
        counter[0] += 1
        return "%s%d" % (prefix, counter[0])

    def is_drain_call(nd):
        return nd["k"] in CALLS and (nd.get("fq") or "") == HL + "::CopyAvailableData" and len(nd.get("args", [])) == 2

    def ev(t, st):
        """Linear value of term t in state st (st: var term -> linear form)."""
        if t[0] == "const":
            return L.const(t[1])
        if t[0] == "var":
            if t in st["vars"]:
                return st["vars"][t]
            return None
        if t[0] == "op" and t[1] in ("+", "-"):
            return L.add(ev(t[2], st), ev(t[3], st), 1 if t[1] == "+" else -1)
        if t[0] == "call" and t in st["calls"]:
            return st["calls"][t]
        return None

    def offset_of(t, st):
        """dst term -> linear offset from the caller's buffer, or None."""
        if t == buf:
            return L.const(0)
        if t[0] == "op" and t[1] == "+" and buf in (t[2], t[3]):
            return ev(t[3] if t[2] == buf else t[2], st)
        if t[0] == "un" and t[1] == "&" and t[2][0] == "idx" and t[2][1] == buf:
            return ev(t[2][2], st)
        return None

    def do_calls(nid, st, record):
        """Drain calls inside expression nid, in evaluation (node) order: obligations + a fresh result symbol each."""
        for x in sorted(fn.subtree(nid)):
            nd = fn.n(x)
            if not is_drain_call(nd):
                continue
            dst, room = fn.term(nd["args"][0]), fn.term(nd["args"][1])
            off, rm = offset_of(dst, st), ev(room, st)
            if record:
                sites.append((nd, dst, room, off, rm, st["D"]))
            r = L.sym(fresh("r"))
            st["calls"][fn.term(x)] = r
            st["D"] = L.add(st["D"], r)

    def assign(nd, st, record):
        ks = fn.kids(nd["id"])
        l = fn.term(ks[0])
        do_calls(ks[1], st, record)
        v = ev(fn.term(ks[1]), st)
        if l[0] != "var":
            return
        op = nd.get("op")
        if op == "=":
            st["vars"][l] = v
        elif op in ("+=", "-="):
            st["vars"][l] = L.add(st["vars"].get(l), v, 1 if op == "+=" else -1)
        else:
            st["vars"][l] = None

    def modified(nid):
        m = set()
        for x in fn.subtree(nid):
            nd = fn.n(x)
            if is_store(nd) or (nd["k"] == "UnaryOperator" and nd.get("op") in ("++", "--")):
                l = fn.term(fn.kids(x)[0])
                if l[0] == "var":
                    m.add(l)
            if nd["k"] == "DeclStmt":
                for d in nd.get("decls", []):
                    if "d" in d:
                        m.add(("var", d["n"], d["d"]))
        return m

    def copy_state(st):
        return {"vars": dict(st["vars"]), "calls": dict(st["calls"]), "D": st["D"], "ret": st["ret"]}

    def run(nid, st, record):
        nid = fn.strip(nid, casts=False)
        nd = fn.n(nid)
        k = nd["k"]
        if k == "CompoundStmt":
            for c in fn.kids(nid):
                run(c, st, record)
        elif k == "DeclStmt":
            for d in nd.get("decls", []):
                if "d" not in d:
                    continue
                v = ("var", d["n"], d["d"])
                if "init" in d:
                    do_calls(d["init"], st, record)
                    st["vars"][v] = ev(fn.term(d["init"]), st)
                else:
                    st["vars"][v] = None
        elif is_store(nd):
            assign(nd, st, record)
        elif k == "UnaryOperator" and nd.get("op") in ("++", "--"):
            l = fn.term(fn.kids(nid)[0])
            if l[0] == "var":
                st["vars"][l] = L.add(st["vars"].get(l), L.const(1), 1 if nd["op"] == "++" else -1)
        elif k in ("WhileStmt", "ForStmt", "DoStmt"):
            if k == "ForStmt" and nd.get("init") is not None:
                run(nd["init"], st, record)
            mod = modified(nid)
            S0 = L.sym("bufferSize0")
            # relations with the delivered count that hold on entry
            rel = {}
            for v in mod:
                cur = st["vars"].get(v)
                if L.eq(cur, st["D"]):
                    rel[v] = "D"
                elif L.eq(cur, L.add(S0, st["D"], -1)):
                    rel[v] = "S-D"
            for _round in range(4):
                h = copy_state(st)
                Dh = L.sym(fresh("D"))
                h["D"] = Dh
                for v in mod:
                    h["vars"][v] = Dh if rel.get(v) == "D" else (L.add(S0, Dh, -1) if rel.get(v) == "S-D" else None)
                b = copy_state(h)
                if nd.get("cond") is not None:
                    do_calls(nd["cond"], b, False)
                run(nd["body"], b, False)
                if k == "ForStmt" and nd.get("inc") is not None:
                    run(nd["inc"], b, False)
                keep = {}
                for v, r0 in rel.items():
                    want = b["D"] if r0 == "D" else L.add(S0, b["D"], -1)
                    if L.eq(b["vars"].get(v), want):
                        keep[v] = r0
                if keep == rel:
                    break
                rel = keep
            # the body once more from the stable loop-head state, recording the obligations of the calls in it
            h = copy_state(st)
            Dh = L.sym(fresh("D"))
            h["D"] = Dh
            for v in mod:
                h["vars"][v] = Dh if rel.get(v) == "D" else (L.add(S0, Dh, -1) if rel.get(v) == "S-D" else None)
            b = copy_state(h)
            run(nd["body"], b, record)
            if k == "ForStmt" and nd.get("inc") is not None:
                run(nd["inc"], b, record)
            # after the loop: the loop-head state (a while / for loop leaves at its test)
            st["vars"], st["D"], st["calls"] = h["vars"], h["D"], h["calls"]
            if k == "DoStmt":
                st["vars"], st["D"], st["calls"] = b["vars"], b["D"], b["calls"]
        elif k == "IfStmt":
            do_calls(nd["cond"], st, record)
            a = copy_state(st)
            run(nd["then"], a, record)
            b2 = copy_state(st)
            if nd.get("else") is not None:
                run(nd["else"], b2, record)
            for v in set(a["vars"]) | set(b2["vars"]):
                st["vars"][v] = a["vars"].get(v) if L.eq(a["vars"].get(v), b2["vars"].get(v)) else None
            st["D"] = a["D"] if L.eq(a["D"], b2["D"]) else None
            st["calls"] = a["calls"]
        elif k == "ReturnStmt":
            if "value" in nd:
                do_calls(nd["value"], st, record)
                if record:
                    st["ret"].append((nd, ev(fn.term(nd["value"]), st), st["D"]))
        else:
            do_calls(nid, st, record)

    st = {"vars": {size0: L.sym("bufferSize0")}, "calls": {}, "D": L.const(0), "ret": []}
    run(fn.body, st, True)
    if not sites:
        raise AnalysisBroken("HuffLZ::GetData: no CopyAvailableData call found")
    S0 = L.sym("bufferSize0")
    for i, (nd, dst, room, off, rm, D) in enumerate(sites, 1):
        inst = "%s::GetData#chunk%d-placement" % (HL, i)
        req = "chunk is placed at buffer + (bytes delivered so far in this call)"
        if off is not None and L.eq(off, D):
            out.append(ok("R-ACCT", inst, fn.loc(nd["id"]), fn.qn, req, "%s = buffer + %s" % (fmt_term(dst), L.txt(D))))
        else:
            out.append(bad("R-ACCT", inst, fn.loc(nd["id"]), fn.qn, req,
                           "destination %s is buffer + %s where %s bytes have been delivered: later chunks overwrite earlier ones or leave a gap" % (fmt_term(dst), L.txt(off), L.txt(D))))
        inst = "%s::GetData#chunk%d-room" % (HL, i)
        req = "the room offered for the chunk is the caller's size minus the bytes delivered so far"
        if rm is not None and L.eq(rm, L.add(S0, D, -1)):
            out.append(ok("R-ACCT", inst, fn.loc(nd["id"]), fn.qn, req, "%s = bufferSize - %s" % (fmt_term(room), L.txt(D))))
        else:
            out.append(bad("R-ACCT", inst, fn.loc(nd["id"]), fn.qn, req, "room %s is %s, delivered %s" % (fmt_term(room), L.txt(rm), L.txt(D))))
    # whatever is buffered is handed out by every call: a copy is attempted on every returning path, not only while the
    # input lasts (a drain that reaches the end of the input with data still buffered is followed by calls that must still
    # deliver that data)
    from ..through import on_every_returning_path
    inst = "%s::GetData#always-drains" % HL
    req = "CopyAvailableData is called on every returning path of GetData, whatever the end-of-stream flag says"
    ids = [nd["id"] for (nd, _d, _r, _o, _m, _D) in sites]
    if on_every_returning_path(fn, ids):
        out.append(ok("R-MUSTCALL", inst, fn.loc(ids[0]), fn.qn, req, "a copy is on every path"))
    else:
        out.append(bad("R-MUSTCALL", inst, fn.loc(fn.body), fn.qn, req,
                       "a path returns without a copy (every copy sits under the end-of-stream / room test): data buffered when the input ended is never delivered by later calls"))
    for (nd, v, D) in st["ret"]:
        inst = "%s::GetData#returns-delivered" % HL
        req = "the count returned is the number of bytes delivered"
        if v is not None and L.eq(v, D):
            out.append(ok("R-ACCT", inst, fn.loc(nd["id"]), fn.qn, req, L.txt(D)))
        else:
            out.append(bad("R-ACCT", inst, fn.loc(nd["id"]), fn.qn, req, "returns %s, delivered %s" % (L.txt(v), L.txt(D))))
    return out, len(sites)


def check(F, run, tier):
    S = Summaries(F)
    from ..rules_archive import handlers_rethrow
    _oh, _nh = handlers_rethrow(F, S, ["/src/"])
    run.add(_oh)
    run.floor("exception-handlers", _nh, 7)
    from ..rules_archive import noexcept_obligations
    noexcept_obligations(F, S, run)
    run.declined = DECLINED
    run.explanation = (
        "Static analysis of the LZH decoder's structural clauses (its output is not examined). Decided: every store to the "
        "window write index and to each match-source index is masked with extent-1, the window is char[4096] and is filled "
        "entirely with spaces by the constructor; the fill threshold plus the longest match fits below the window size; the "
        "symbol count, match base and the six distance classes (boundaries, extra bits, upper-bit formulas) read from the AST "
        "equal the format description; every fetch from the caller's compressed buffer is dominated by the end-of-stream "
        "refusal; the capacity refusal of the Huffman tree (C15) dominates its first store and precedes the output of the "
        "code; volume extraction writes exactly the (pointer, length) pairs the internal-buffer interface returns until 0.")
    obs, n = window_mask(F, S)
    run.add(obs)
    run.floor("index-stores", n, 4)
    run.add(window_initialised(F, S))
    run.add(fill_threshold(F, S))
    run.add(offset_table(F, S))
    obs, n = bitstream_bounds(F, S)
    run.add(obs)
    run.floor("buffer-fetches", n, 3)
    run.add(c15.capacity(F, S))
    run.add(c15.root_counted(F, S))
    run.add(decode_order(F, S))
    obs, n = drain_copies(F, S)
    run.add(obs)
    run.floor("drain-copies", n, 2)
    obs, n = drain_placement(F, S)
    run.add(obs)
    run.floor("drain-chunks", n, 2)
    ex = F.fn("OP2Utility::Archive::VolFile::ExtractFileLzh", nparams=2)
    o, k = raw_io_extents(F, S, [ex], "Write")
    run.add(o)
    loops = [nd for nd in ex.nodes if nd["k"] == "DoStmt"]
    good = False
    if len(loops) == 1:
        # the loop variable is whatever GetInternalBuffer fills in (its address is the call's argument)
        gib = [nd for nd in ex.nodes if nd["k"] in CALLS and nd.get("fname") == "GetInternalBuffer" and nd.get("args")
               and nd["id"] in ex.subtree(loops[0]["body"])]
        cond = ex.term(loops[0]["cond"])
        if cond[0] == "op" and cond[1] in ("!=", ">") and cond[3] == ("const", 0):
            cond = cond[2]          # `while (n != 0)` is `while (n)`
        good = len(gib) == 1 and ex.term(gib[0]["args"][0]) == ("un", "&", cond) and cond[0] == "var"
    inst = "OP2Utility::Archive::VolFile::ExtractFileLzh#drain-loop"
    if good and o and all(x.status == "discharged" for x in o):
        run.add(ok("R-SEQ", inst, ex.loc(loops[0]["id"]), ex.qn, "do { (p, n) = GetInternalBuffer(); Write(p, n); } while (n)", "loop ends only on a zero length"))
    else:
        run.add(bad("R-SEQ", inst, ex.loc(ex.body), ex.qn, "do { (p, n) = GetInternalBuffer(); Write(p, n); } while (n)", "shape not found"))

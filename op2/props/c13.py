"""C13 — Slices are confined, independent, and equivalent across stream backends."""
from ..extract import AnalysisBroken
from ..facts import CALLS, CTORS, fmt_term
from ..flow import CFG, Engine, Summaries, norm_cmp, final_site_facts, fmt_fact
from ..prove import prove_le
from ..report import ok, bad
from ..rules_stream import r_atomic, r_nowrap, mutates_this, is_store
from ..invariants import class_invariants
from ..witness import run_witnesses
from . import c12

NS = "OP2Utility::Stream::"
MR = NS + "MemoryReader"
FR = NS + "FileReader"
SR = NS + "SliceReader<OP2Utility::Stream::FileReader>"
READERS = [NS + "Reader", NS + "ForwardReader", NS + "BidirectionalReader", MR, FR, SR]

DECLINED = [
    "observational equivalence of memory, file and slice backends under all operation histories (a relation between "
    "three implementations' run-time behaviour)",
    "that a slice exposes exactly the parent's bytes s..s+n (values); only confinement of every access to that extent is decided",
]


def r_own(F, S):
    out = []
    n = 0
    reader_names = set(READERS)
    for q in READERS:
        rec = F.record(q)
        for f in rec["fields"]:
            n += 1
            inst = "%s::%s#ownership" % (q, f["name"])
            site = "%s:%s" % (rec["loc"]["file"].split("/")[-1], f["line"])
            req = "reader member is neither a pointer/reference to another reader nor to mutable storage"
            if f.get("is_reference") or f.get("is_pointer"):
                pr = f.get("pointee_record")
                if pr and (pr in reader_names or "Reader" in pr):
                    out.append(bad("R-OWN", inst, site, q, req, "member %s refers to a %s" % (f["name"], pr)))
                elif not f.get("pointee_const"):
                    out.append(bad("R-OWN", inst, site, q, req, "member %s points to non-const storage (%s)" % (f["name"], f.get("ct"))))
                else:
                    out.append(ok("R-OWN", inst, site, q, req, "pointer to const storage (%s)" % f.get("ct")))
            elif f.get("mutable"):
                out.append(bad("R-OWN", inst, site, q, req, "member %s is mutable" % f["name"]))
            elif "shared_ptr" in (f.get("ct") or "") or "unique_ptr" in (f.get("ct") or ""):
                out.append(bad("R-OWN", inst, site, q, req, "member %s is a smart pointer (%s)" % (f["name"], f.get("ct"))))
            else:
                out.append(ok("R-OWN", inst, site, q, req, "held by value (%s)" % f.get("ct"), nontrivial=f.get("record") is not None))
    # the wrapped stream is a by-value copy of the parent
    rec = F.record(SR)
    ws = [f for f in rec["fields"] if f["name"] == "wrappedStream"]
    if len(ws) != 1:
        raise AnalysisBroken("SliceReader::wrappedStream not found")
    n += 1
    if ws[0].get("record") == FR and not ws[0].get("is_reference") and not ws[0].get("is_pointer"):
        out.append(ok("R-OWN", SR + "::wrappedStream#by-value", "SliceReader.h:%s" % ws[0]["line"], SR,
                      "a slice owns its own copy of the wrapped stream", "member of type %s" % ws[0]["ct"]))
    else:
        out.append(bad("R-OWN", SR + "::wrappedStream#by-value", "SliceReader.h:%s" % ws[0]["line"], SR,
                       "a slice owns its own copy of the wrapped stream", "member type is %s" % ws[0].get("ct")))
    # copying a FileReader opens a new handle by name
    cc = [f for f in F.fns(FR + "::FileReader") if f.d.get("copy_ctor")]
    if len(cc) != 1:
        raise AnalysisBroken("FileReader copy constructor body not found")
    cc = cc[0]
    n += 1
    inits = {i.get("field"): i for i in cc.d.get("inits", []) if "field" in i}
    ini = inits.get("file")
    good = False
    detail = "no initialiser for `file`"
    if ini:
        t = cc.term(ini["init"])
        nd0 = cc.n(cc.strip(ini["init"], casts=False))
        detail = fmt_term(t)
        if t[0] == "ctor" and t[2] and t[2][0][0] == "mem" and t[2][0][2] == "filename" and not nd0.get("copy_or_move"):
            good = True
    if good:
        out.append(ok("R-OWN", FR + "#copy-reopens", cc.loc(ini["init"]), cc.qn,
                      "a copied file reader opens its own handle from the file name", detail))
    else:
        out.append(bad("R-OWN", FR + "#copy-reopens", cc.loc(cc.body), cc.qn,
                       "a copied file reader opens its own handle from the file name", detail))
    # SliceReader constructors copy-construct the wrapped stream from the parent (not move / not alias)
    for c in F.fns(SR + "::SliceReader"):
        n += 1
        if any(i0.get("delegating") for i0 in c.d.get("inits", [])):
            out.append(ok("R-OWN", "%s#wrapped-copy" % c.key, c.loc(c.body), c.qn, "the wrapped stream is copy-constructed (FileReader copy reopens)",
                          "delegating constructor: the target constructor copy-constructs the stream", nontrivial=False))
            continue
        inits = {i.get("field"): i for i in c.d.get("inits", []) if "field" in i}
        ini = inits.get("wrappedStream")
        nd0 = c.n(c.strip(ini["init"], casts=False)) if ini else {}
        inst = "%s#wrapped-copy" % c.key
        if ini and nd0.get("k") in CTORS and nd0.get("fq", "").endswith("FileReader::FileReader") and nd0.get("copy_or_move"):
            out.append(ok("R-OWN", inst, c.loc(ini["init"]), c.qn, "the wrapped stream is copy-constructed (FileReader copy reopens)", "copy construction"))
        else:
            out.append(bad("R-OWN", inst, c.loc(c.body), c.qn, "the wrapped stream is copy-constructed (FileReader copy reopens)", "initialiser shape not recognised"))
    return out, n


def slice_api(F, S):
    """Slice(start,len) is const and returns by value on every backend; Slice(len) = Slice(Position(), len) then SeekForward(len)."""
    out = []
    n = 0
    for q in (MR, FR, SR):
        rec = F.record(q)
        two = [m for m in rec["methods"] if m["name"] == "Slice" and m["key"].count(",") == 1]
        one = [m for m in rec["methods"] if m["name"] == "Slice" and m["key"].count(",") == 0]
        if len(two) != 1 or len(one) != 1:
            raise AnalysisBroken("Slice overloads of %s not found" % q)
        n += 1
        m = two[0]
        inst = "%s::Slice/2#const-by-value" % q
        rt = m.get("ret_ct", "")
        if m["const"] and not rt.endswith("&") and not rt.endswith("*"):
            out.append(ok("R-CONST", inst, rec["loc"]["file"].split("/")[-1], q, "Slice(start, length) is const and returns a new reader by value", rt))
        else:
            out.append(bad("R-CONST", inst, rec["loc"]["file"].split("/")[-1], q, "Slice(start, length) is const and returns a new reader by value",
                           "const=%s return=%s" % (m["const"], rt)))
        # write set of the const form is empty
        fn2 = F.fn(q + "::Slice", nparams=2)
        w = {it for it in S.writes(fn2) if it[0] == "this"}
        n += 1
        if not w:
            out.append(ok("R-WRITESET", "%s::Slice/2#writes-nothing" % q, fn2.loc(fn2.body), fn2.qn, "creating a slice changes no parent state", "write set is empty"))
        else:
            out.append(bad("R-WRITESET", "%s::Slice/2#writes-nothing" % q, fn2.loc(fn2.body), fn2.qn, "creating a slice changes no parent state", "writes %s" % sorted(w)))
        # advancing form
        fn1 = F.fn(q + "::Slice", nparams=1)
        n += 1
        lenv = ("var", fn1.params[0]["n"], fn1.params[0]["d"])
        sl = [nd for nd in fn1.nodes if nd["k"] == "CXXMemberCallExpr" and nd.get("fname") == "Slice"]
        sk = [nd for nd in fn1.nodes if nd["k"] == "CXXMemberCallExpr" and nd.get("fname") == "SeekForward"]
        inst = "%s::Slice/1#shape" % q
        probs = []
        if len(sl) != 1 or len(sk) != 1:
            probs.append("expected one Slice(start,len) call and one SeekForward call")
        else:
            a = [fn1.xterm(x) for x in sl[0]["args"]]
            from ..facts import GETTERS
            pos_getter = [m for k, m in GETTERS.items() if k.startswith(q + "::Position(")]
            pos_ok = len(a) == 2 and ((a[0][0] == "call" and a[0][1].endswith("::Position") and a[0][2] == ("this",)) or
                                      (pos_getter and a[0] == ("mem", ("this",), pos_getter[0])))
            if not (pos_ok and a[1] == lenv):
                probs.append("slice is not Slice(Position(), length)")
            if fn1.term(sk[0]["args"][0]) != lenv:
                probs.append("parent advances by %s, not by the slice length" % fmt_term(fn1.term(sk[0]["args"][0])))
            g = CFG(fn1)
            eb = g.elem_block()
            if sl[0]["id"] not in eb or sk[0]["id"] not in eb:
                probs.append("calls not in CFG")
            else:
                (b1, i1), (b2, i2) = eb[sl[0]["id"]], eb[sk[0]["id"]]
                dom = g.dominators()
                if not ((b1 == b2 and i1 < i2) or (b1 != b2 and b1 in dom.get(b2, set()))):
                    probs.append("SeekForward is not dominated by the (may-throw) slice creation")
            rets = [nd for nd in fn1.nodes if nd["k"] == "ReturnStmt" and "value" in nd]
            slice_var = None
            for nd in fn1.nodes:
                if nd["k"] == "DeclStmt":
                    for d in nd.get("decls", []):
                        if "init" in d and fn1.strip(d["init"]) == sl[0]["id"]:
                            slice_var = ("var", d["n"], d["d"])
            if len(rets) != 1 or slice_var is None or fn1.term(rets[0]["value"]) != slice_var:
                probs.append("the returned object is not the slice created before advancing")
        if probs:
            out.append(bad("R-ORDER", inst, fn1.loc(fn1.body), fn1.qn,
                           "slice-at-position creates Slice(Position(), n) first, advances by n only afterwards, returns that slice", "; ".join(probs)))
        else:
            out.append(ok("R-ORDER", inst, fn1.loc(fn1.body), fn1.qn,
                          "slice-at-position creates Slice(Position(), n) first, advances by n only afterwards, returns that slice",
                          "auto s = Slice(Position(), n); SeekForward(n); return s;"))
        out += r_atomic(F, S, fn1, label="%s::Slice/1" % q)
    return out, n


def returns_only_fresh(fn, ctor, label):
    """Every value a Slice operation returns is the reader it has just constructed - never *this or a copy of another
    existing reader, which would carry that reader's current position (a slice starts at its own position 0)."""
    from ..rules_sib import returns
    problems = []
    for r in returns(fn):
        v = fn.strip(r["value"])
        if v == ctor["id"] or ctor["id"] in fn.subtree(v) and fn.n(v)["k"] in CTORS and fn.n(v).get("copy_or_move"):
            continue
        t = fn.term(v)
        okl = False
        if t[0] == "var":
            for nd in fn.nodes:
                if nd["k"] == "DeclStmt":
                    for d in nd.get("decls", []):
                        if ("var", d.get("n"), d.get("d")) == t and "init" in d and fn.strip(d["init"]) == ctor["id"]:
                            okl = True
        if not okl:
            problems.append((r, t))
    inst = label + "#returns-fresh"
    req = "every value returned is the newly constructed slice (position 0 of its own range), not a copy of an existing reader"
    if not problems:
        return [ok("R-OWN", inst, fn.loc(ctor["id"]), fn.qn, req, "all returns are the constructed reader")]
    r, t = problems[0]
    return [bad("R-OWN", inst, fn.loc(r["id"]), fn.qn, req, "a path returns %s: a copy of an existing reader keeps that reader's current position" % fmt_term(t))]


def slice_construction(F, S, inv_slice):
    """Every SliceReader constructor passes Initialize; containment guards precede the positioning seek."""
    out = []
    n = 0
    from ..through import closure
    from ..prove import equal_terms
    so, sl = ("mem", ("this",), "startingOffset"), ("mem", ("this",), "sliceLength")
    ws = ("mem", ("this",), "wrappedStream")
    length = ("call", NS + "FileReader::Length", ws, ())
    ctors = list(F.fns(SR + "::SliceReader"))
    for c in ctors:
        n += 1
        inst = "%s#initialize" % c.key
        req = "every constructor checks containment (startingOffset + sliceLength <= parent length) and then positions the copy at startingOffset"
        dele = [i0 for i0 in c.d.get("inits", []) if i0.get("delegating")]
        if dele:
            # a delegating constructor runs a target constructor completely: the target is judged below; here only that the
            # target is one of this class's own constructors and receives the source object's three members
            t = c.term(dele[0]["init"])
            src = [("var", p["n"], p["d"]) for p in c.params]
            okd = t[0] == "ctor" and len(t[2]) == 3 and len(src) == 1 and \
                [x for x in t[2]] == [("mem", src[0], "wrappedStream"), ("mem", src[0], "startingOffset"), ("mem", src[0], "sliceLength")]
            if okd:
                out.append(ok("R-MUSTCALL", inst, c.loc(c.body), c.qn, req, "delegates to the checking constructor with the source's stream, offset and length", nontrivial=False))
            else:
                out.append(bad("R-MUSTCALL", inst, c.loc(c.body), c.qn, req, "delegating constructor passes %s" % fmt_term(t)))
            continue
        eng = Engine(F, S)
        ex = eng.analyze(c, frozenset(inv_slice) if False else frozenset())
        seeks = []
        for f in closure(F, c):
            for nd in f.nodes:
                if nd["k"] == "CXXMemberCallExpr" and nd.get("fname") == "Seek" and "obj" in nd and f.term(nd["obj"]) == ws:
                    site = final_site_facts(eng, f, nd["id"])
                    if site is not None:
                        seeks.append((f, nd, site))
        on_every_path = ex is not None and any(f[0] == "ev" and f[1] == "called" and f[2] == NS + "FileReader::Seek" for f in ex)
        good = len(seeks) == 1 and on_every_path
        detail = "%d positioning seeks; on every path to the normal exit: %s" % (len(seeks), on_every_path)
        if good:
            f, nd, site = seeks[0]
            arg = f.term(nd["args"][0])
            cont = prove_le(site, ("op", "+", so, sl), length)
            at_start = arg == so or equal_terms(arg, so, site)
            good = cont and at_start
            detail = "containment %s at the seek; seek target %s" % ("holds" if cont else "not established", fmt_term(arg))
            if not good:
                detail += "; facts at the seek: " + ("; ".join(sorted(fmt_fact(x) for x in site if x[0] not in ("ev", "called"))) or "none")
        if good:
            out.append(ok("R-MUSTCALL", inst, c.loc(c.body), c.qn, req, detail))
        else:
            out.append(bad("R-MUSTCALL", inst, c.loc(c.body), c.qn, req, detail))
    # nested slices: Slice(start,len) constructs with startingOffset + start and len, under start + len <= sliceLength
    s2 = F.fn(SR + "::Slice", nparams=2)
    eng = Engine(F, S)
    eng.analyze(s2, frozenset(inv_slice))
    ct = [nd for nd in s2.nodes if nd["k"] in CTORS and nd.get("ctor_rec") == SR and len(nd.get("args", [])) == 3]
    if len(ct) != 1:
        raise AnalysisBroken("SliceReader::Slice/2: constructor call not found")
    site = final_site_facts(eng, s2, ct[0]["id"]) or set()
    a = [s2.term(x) for x in ct[0]["args"]]
    st, ln = ("var", s2.params[0]["n"], s2.params[0]["d"]), ("var", s2.params[1]["n"], s2.params[1]["d"])
    n += 1
    good = a[0] == ws and a[1] in (("op", "+", so, st), ("op", "+", st, so)) and a[2] == ln and \
        (prove_le(site, ("op", "+", st, ln), sl) or prove_le(site, ln, ("op", "-", sl, st)))
    out += returns_only_fresh(s2, ct[0], SR + "::Slice/2")
    if good:
        out.append(ok("R-MUSTCALL", SR + "::Slice/2#nested", s2.loc(ct[0]["id"]), s2.qn,
                      "a nested slice is (wrappedStream, startingOffset + start, length) under start + length <= sliceLength",
                      "guard dominates the construction"))
    else:
        out.append(bad("R-MUSTCALL", SR + "::Slice/2#nested", s2.loc(ct[0]["id"]), s2.qn,
                       "a nested slice is (wrappedStream, startingOffset + start, length) under start + length <= sliceLength",
                       "constructed with (%s); facts: %s" % (", ".join(fmt_term(x) for x in a),
                                                             "; ".join(sorted(fmt_fact(f) for f in site if f[0] not in ("ev", "called"))) or "none")))
    # file reader: Slice(start,len) hands (filename, start, len) to the slice constructor
    f2 = F.fn(FR + "::Slice", nparams=2)
    ct = [nd for nd in f2.nodes if nd["k"] in CTORS and nd.get("ctor_rec") == SR]
    n += 1
    good = False
    if ct:
        a = [f2.term(x) for x in ct[0]["args"]]
        st, ln = ("var", f2.params[0]["n"], f2.params[0]["d"]), ("var", f2.params[1]["n"], f2.params[1]["d"])
        good = len(a) == 3 and a[1] == st and a[2] == ln and (a[0] == ("un", "*", ("this",)) or
                                                              (a[0][0] == "ctor" and a[0][2] and a[0][2][0] == ("mem", ("this",), "filename")))
    if ct:
        out += returns_only_fresh(f2, ct[0], FR + "::Slice/2")
    if good:
        out.append(ok("R-MUSTCALL", FR + "::Slice/2#args", f2.loc(ct[0]["id"]), f2.qn, "a file slice is built from this file with (start, length) unchanged", "shape found"))
    else:
        out.append(bad("R-MUSTCALL", FR + "::Slice/2#args", f2.loc(f2.body), f2.qn, "a file slice is built from this file with (start, length) unchanged", "shape not found"))
    # memory reader: Slice(start,len) -> MemoryReader(&streamBuffer[start], len) under start + len <= streamSize
    m2 = F.fn(MR + "::Slice", nparams=2)
    eng = Engine(F, S)
    eng.analyze(m2, frozenset())
    ct = [nd for nd in m2.nodes if nd["k"] in CTORS and nd.get("ctor_rec") == MR and len(nd.get("args", [])) == 2]
    if len(ct) != 1:
        raise AnalysisBroken("MemoryReader::Slice/2: constructor call not found")
    site = final_site_facts(eng, m2, ct[0]["id"]) or set()
    a = [m2.term(x) for x in ct[0]["args"]]
    st, ln = ("var", m2.params[0]["n"], m2.params[0]["d"]), ("var", m2.params[1]["n"], m2.params[1]["d"])
    sb, ss = ("mem", ("this",), "streamBuffer"), ("mem", ("this",), "streamSize")
    n += 1
    good = a[0] in (("un", "&", ("idx", sb, st)), ("op", "+", sb, st)) and a[1] == ln and \
        (prove_le(site, ("op", "+", st, ln), ss) or prove_le(site, ln, ("op", "-", ss, st)))
    out += returns_only_fresh(m2, ct[0], MR + "::Slice/2")
    if good:
        out.append(ok("R-MUSTCALL", MR + "::Slice/2#extent", m2.loc(ct[0]["id"]), m2.qn,
                      "a memory slice is (buffer + start, length) under start + length <= streamSize", "guard dominates the construction"))
    else:
        out.append(bad("R-MUSTCALL", MR + "::Slice/2#extent", m2.loc(ct[0]["id"]), m2.qn,
                       "a memory slice is (buffer + start, length) under start + length <= streamSize",
                       "constructed with (%s); facts: %s" % (", ".join(fmt_term(x) for x in a),
                                                             "; ".join(sorted(fmt_fact(f) for f in site if f[0] not in ("ev", "called"))) or "none")))
    return out, n


def member_streams(F, S):
    """Archive OpenStream overrides return a freshly made slice and keep nothing."""
    out = []
    n = 0
    for q in ("OP2Utility::Archive::VolFile", "OP2Utility::Archive::ClmFile"):
        fn = F.fn(q + "::OpenStream", nparams=1, pred=lambda f: "unsigned long" in f.key)
        n += 1
        rets = [nd for nd in fn.nodes if nd["k"] == "ReturnStmt" and "value" in nd]
        probs = []
        for r in rets:
            t = fn.term(r["value"])
            # make_unique<FileSliceReader>(<slice>)
            found = None
            for x in fn.subtree(r["value"]):
                nd = fn.n(x)
                if nd["k"] == "CallExpr" and (nd.get("fq") or "").startswith("std::make_unique"):
                    found = nd
            if not found:
                probs.append("return value is not std::make_unique<FileSliceReader>(…)")
                continue
            a = fn.term(found["args"][0])
            src = a
            if a[0] == "var":
                for nd in fn.nodes:
                    if nd["k"] == "DeclStmt":
                        for d in nd.get("decls", []):
                            if ("var", d.get("n"), d.get("d")) == a and "init" in d:
                                src = fn.term(d["init"])
            from ..through import inline_single_return
            for _ in range(2):
                if src[0] == "call" and not src[1].endswith("FileReader::Slice"):
                    src = inline_single_return(F, src, depth=1)
            if not (src[0] == "call" and src[1].endswith("FileReader::Slice") and len(src[3]) == 2):
                probs.append("stream is not produced by FileReader::Slice(start, length): %s" % fmt_term(src))
        w = set()
        for nd in fn.nodes:
            if is_store(nd):
                m = mutates_this(F, S, fn, nd)
                w |= m
        if w:
            probs.append("stores to members %s" % sorted(w))
        inst = "%s::OpenStream#fresh-slice" % q
        if probs:
            out.append(bad("R-OWN", inst, fn.loc(fn.body), fn.qn, "a member stream is a freshly created slice; the archive keeps no reference to it", "; ".join(probs)))
        else:
            out.append(ok("R-OWN", inst, fn.loc(fn.body), fn.qn, "a member stream is a freshly created slice; the archive keeps no reference to it",
                          "make_unique<FileSliceReader>(reader.Slice(start, length)); no member store"))
    return out, n


WITNESSES = [
    ("const-file-reader-can-slice", "void f(const Stream::FileReader& r) { auto s = r.Slice(1, 2); (void)s; }", "compiles"),
    ("const-memory-reader-can-slice", "void f(const Stream::MemoryReader& r) { auto s = r.Slice(1, 2); (void)s; }", "compiles"),
    ("const-slice-can-slice", "void f(const Stream::FileSliceReader& r) { auto s = r.Slice(1, 2); (void)s; }", "compiles"),
    ("advancing-slice-needs-mutable-file-reader", "void f(const Stream::FileReader& r) { auto s = r.Slice(2); (void)s; }", "rejected"),
    ("advancing-slice-needs-mutable-memory-reader", "void f(const Stream::MemoryReader& r) { auto s = r.Slice(2); (void)s; }", "rejected"),
    ("advancing-slice-needs-mutable-slice", "void f(const Stream::FileSliceReader& r) { auto s = r.Slice(2); (void)s; }", "rejected"),
    ("slice-is-a-value", "static_assert(!std::is_reference<decltype(std::declval<const Stream::FileReader&>().Slice(0, 0))>::value, \"by value\");", "compiles"),
    ("slice-ctor-takes-const-parent", "void f(const Stream::FileReader& r) { Stream::FileSliceReader s(r, 0, 0); (void)s; }", "compiles"),
    ("reading-needs-mutable-reader", "void f(const Stream::FileSliceReader& r) { char c; const_cast<void>(0); r.Read(c); }", "rejected"),
]


def check(F, run, tier):
    S = Summaries(F)
    run.declined = DECLINED
    run.explanation = (
        "Static analysis of slice creation and reader ownership. Decided: R-OWN (no reader holds a pointer/reference to "
        "another reader or to mutable storage; a slice owns a by-value copy of its wrapped stream; copying a file reader "
        "reopens the file by name; archive member streams are fresh slices and nothing is stored), R-CONST (type "
        "witnesses: Slice(start,len) callable on const readers, the advancing form rejected on const readers), "
        "R-WRITESET (the const form writes nothing), R-ORDER/R-ATOMIC (the advancing form creates the slice before "
        "moving the parent and returns that slice), R-MUSTCALL (every slice constructor passes the containment check; "
        "nested and memory slices are built with the guarded extent) and R-NOWRAP/R-CURSOR on every containment and "
        "slice-relative guard (shared with C12).")
    inv_slice, notes = class_invariants(F, S, SR)
    posinv = norm_cmp("<=", ("call", SR + "::Position", ("this",), ()), ("mem", ("this",), "sliceLength"))
    inv_all = set(inv_slice) | {posinv}

    obs, n = r_own(F, S)
    run.add(obs)
    run.floor("R-OWN", n, 10)
    obs, n = slice_api(F, S)
    run.add(obs)
    run.floor("slice-api", n, 9)
    obs, n = slice_construction(F, S, inv_all)
    run.add(obs)
    run.floor("slice-construction", n, 6)
    obs, n = member_streams(F, S)
    run.add(obs)
    run.floor("member-streams", n, 2)

    # containment guards cannot wrap (R-NOWRAP), slice-relative guards keep the wrapped stream inside the slice (R-CURSOR)
    deleg = c12.seekforward_delegate(F, S)
    guards = 0
    for name, np_ in (("Slice", 2), ("Initialize", 0), ("ReadImplementation", 2), ("SeekForward", 1), ("SeekBackward", 1), ("Seek", 1)):
        fn = F.fn(SR + "::" + name, nparams=np_)
        obs, g = r_nowrap(F, Engine(F, S), fn, invariants=inv_all, delegate=deleg)
        guards += g
        run.add(obs)
    for fn in F.fns(SR + "::SliceReader"):
        if not fn.d.get("copy_ctor"):
            obs, g = r_nowrap(F, Engine(F, S), fn)
            guards += g
            run.add(obs)
    fn = F.fn(MR + "::Slice", nparams=2)
    obs, g = r_nowrap(F, Engine(F, S), fn)
    guards += g
    run.add(obs)
    run.floor("R-NOWRAP(guards)", guards, 9)
    sf = F.fn(SR + "::SeekForward", nparams=1)
    sf_obs, _ = r_nowrap(F, Engine(F, S), sf, invariants=inv_all, delegate=deleg)
    sum_ok = bool(sf_obs) and all(o.status == "discharged" for o in sf_obs)
    obs, n = c12.slice_cursor_rule(F, S, run, inv_all, sum_ok=sum_ok)
    run.add(obs)
    run.floor("R-CURSOR", n, 5)

    # each slice-relative guard refuses exactly the out-of-bounds arguments (positions 0..n and nothing else)
    ng = 0
    for fn, specs in c12.reader_guard_specs(F):
        if fn.cls == SR or fn.qn == MR + "::Slice":
            run.add(c12.r_guard_exact(F, Engine(F, S), fn, specs, invariants=inv_all if fn.cls == SR else ()))
            ng += 1
    run.floor("R-GUARD", ng, 7)

    run.add(run_witnesses(F, "C13", WITNESSES))
    run.extra["class_invariants"] = {"SliceReader": sorted(fmt_fact(f) for f in inv_all)}

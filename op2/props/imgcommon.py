"""Shared obligations for the bitmap / tileset / sprite properties (C08, C09, C11)."""
from ..extract import AnalysisBroken
from ..facts import CALLS, CTORS, fmt_term
from ..flow import Engine, Summaries, final_site_facts, fmt_fact, mentions
from ..prove import Width, prove_le
from ..report import ok, bad
from ..rules_sib import P, returns, enclosing_if_cond
from ..rules_stream import is_store, guard_blocks
from ..rules_archive import facts_txt

B = "OP2Utility::BitmapFile"
IH = "OP2Utility::ImageHeader"
T = "OP2Utility::Tileset::"


def exit_events(F, S, fn, entry=frozenset()):
    eng = Engine(F, S)
    ex = eng.analyze(fn, entry)
    return eng, (ex if ex is not None else frozenset())


def called(ex, q):
    return ("ev", "called", q) in ex or ("ev", "each", ("ev", "called", q)) in ex


def reader_validations(F, S):
    """Every path of ReadIndexed to its return passes the library's own four validations (those BitmapFile::Validate runs)."""
    out = []
    rd = F.fn(B + "::ReadIndexed", nparams=1, pred=lambda f: "Reader &)" in f.key)
    eng, ex = exit_events(F, S, rd)
    need = [("OP2Utility::BmpHeader::VerifyFileSignature", "file signature"), (IH + "::Validate", "image header rules"),
            (B + "::VerifyIndexedImageForSerialization", "indexed bit depth"),
            (B + "::VerifyPixelSizeMatchesImageDimensionsWithPitch", "pixel size == pitch x |height|")]
    for q, what in need:
        inst = "%s::ReadIndexed#validated:%s" % (B, q.split("::")[-1])
        req = "every bitmap the reader returns has passed %s (%s)" % (q.split("::")[-1], what)
        from ..rules_valid import validated
        if validated(F, rd, ex, q):
            out.append(ok("R-MUSTCALL", inst, rd.loc(rd.body), rd.qn, req, "on every path to the return"))
        else:
            out.append(bad("R-MUSTCALL", inst, rd.loc(rd.body), rd.qn, req, "a returning path bypasses it"))
    v = F.fn(B + "::Validate", nparams=0)
    eng, ex = exit_events(F, S, v)
    for q, what in need[:2] + [(B + "::VerifyIndexedPaletteSizeDoesNotExceedBitCount", "palette <= 2^depth"), need[3]]:
        inst = "%s::Validate#includes:%s" % (B, q.split("::")[-1])
        if validated(F, v, ex, q):
            out.append(ok("R-MUSTCALL", inst, v.loc(v.body), v.qn, "BitmapFile::Validate runs %s" % q.split("::")[-1], "called on every path", nontrivial=False))
        else:
            out.append(bad("R-MUSTCALL", inst, v.loc(v.body), v.qn, "BitmapFile::Validate runs %s" % q.split("::")[-1], "not called"))
    return out


def _by_type(F, a):
    """Abstract term with member paths that lead to a sub-object of record type named by that type
    (`BitmapFile.imageHeader.compression` and a local `ImageHeader.compression` are the same thing)."""
    if not isinstance(a, list) or not a:
        return a
    a = [_by_type(F, x) for x in a]
    if a[0] == "mem" and len(a) == 3 and isinstance(a[1], list) and a[1] and a[1][0] == "V" and a[1][1] in F.records:
        for f in F.records[a[1][1]]["fields"]:
            if f["name"] == a[2]:
                r = f.get("rec") or f.get("record") or (f.get("ct") or "").replace("const ", "").strip()
                if r in F.records:
                    return ["V", r]
    return a


def validate_not_stricter(F, S):
    """BitmapFile::Validate refuses nothing the reader lets through: besides the verifiers the reader itself runs (or whose
    effect the palette-size rule decides), every refusal written in Validate's own body has a counterpart among the
    refusals every returning path of ReadIndexed has passed. (Otherwise the reader returns bitmaps its own Validate rejects.)"""
    from ..rules_valid import abstract, amatch, var_types, global_var_types
    from ..flow import cond_facts
    out = []
    rd = F.fn(B + "::ReadIndexed", nparams=1, pred=lambda f: "Reader &)" in f.key)
    v = F.fn(B + "::Validate", nparams=0)
    _e, rex = exit_events(F, S, rd)
    called_names = {f[2].split("::")[-1] for f in rex if f[0] == "ev" and f[1] == "called"}
    decided_elsewhere = {"VerifyIndexedPaletteSizeDoesNotExceedBitCount"}     # c08.palette_bound: the reader sizes the palette within 2^depth
    inst = B + "::Validate#no-stricter-than-reader"
    req = "every refusal BitmapFile::Validate makes is one every bitmap returned by ReadIndexed has passed"
    problems = []
    for nd in v.nodes:
        if nd["k"] in CALLS:
            for cal in F.callees(nd):
                if cal.cfg and cal.file.startswith(F.repo) and S.may_throw(cal) and cal.name not in called_names and cal.name not in decided_elsewhere:
                    problems.append("%s is run by Validate but not by the reader" % cal.name)
    vt, gvt = var_types(rd), global_var_types(F)
    have = []
    for f in rex:
        if f[0] == "ev" and f[1] == "passed":
            have.append(_by_type(F, abstract(rd, f[2], vt, gvt)))
    vvt = var_types(v)
    n_inline = 0
    for nd in v.nodes:
        if nd["k"] != "IfStmt":
            continue
        for branch, truth in (("then", True), ("else", False)):
            b = nd.get(branch)
            if b is None:
                continue
            if any(v.n(x)["k"] == "CXXThrowExpr" for x in v.subtree(b)):
                n_inline += 1
                for f in cond_facts(v, nd["cond"], not truth):
                    need = _by_type(F, abstract(v, f, vvt, gvt))
                    if not any(amatch(need, h) or need == h for h in have):
                        problems.append("Validate refuses unless %s, which the reader never checks" % fmt_fact(f))
    if problems:
        out.append(bad("R-SIB", inst, v.loc(v.body), v.qn, req, "; ".join(problems)))
    else:
        out.append(ok("R-SIB", inst, v.loc(v.body), v.qn, req, "%d verifier calls shared with the reader, %d inline refusals matched" % (len(called_names), n_inline)))
    return out


def _dim_facts(ex, w, h):
    has_w = ("<=", ("const", 0), w) in ex
    has_h = any(f[0] == "!=" and h in (f[1], f[2]) and ("const", -2147483648) in (f[1], f[2]) for f in ex)
    return has_w, has_h


def dimension_refusal(F, S):
    """ImageHeader::Validate and ImageHeader::Create establish width >= 0 and height != INT32_MIN on every returning
    path (however the refusal is written); every factory takes |height| only after the header was created."""
    out = []
    v = F.fn(IH + "::Validate", nparams=0)
    eng, ex = exit_events(F, S, v)
    has_w, has_h = _dim_facts(ex, ("mem", ("this",), "width"), ("mem", ("this",), "height"))
    inst = IH + "::Validate#dimensions"
    req = "a validated header has width >= 0 and height != INT32_MIN (no sign-extended pitch, no std::abs / negation of INT32_MIN)"
    if has_w and has_h:
        out.append(ok("R-TAINT", inst, v.loc(v.body), v.qn, req, "both refusals on every returning path"))
    else:
        out.append(bad("R-TAINT", inst, v.loc(v.body), v.qn, req, "width refusal %s, height refusal %s" % ("present" if has_w else "missing", "present" if has_h else "missing")))
    c = F.fn(IH + "::Create", nparams=3)
    eng, ex = exit_events(F, S, c)
    has_w, has_h = _dim_facts(ex, P(c, 0), P(c, 1))
    inst = IH + "::Create#dimensions"
    req = "a header made by Create has width >= 0 and height != INT32_MIN"
    if has_w and has_h:
        out.append(ok("R-TAINT", inst, c.loc(c.body), c.qn, req, "both refusals on every returning path"))
    else:
        out.append(bad("R-TAINT", inst, c.loc(c.body), c.qn, req, "width refusal %s, height refusal %s" % ("present" if has_w else "missing", "present" if has_h else "missing")))
    # factories: the header is created (and so checked) before |height| is taken
    for fn in F.fns(B + "::CreateIndexed"):
        absn = [nd for nd in fn.nodes if nd["k"] in CALLS and nd.get("fname") == "abs"]
        if not absn:
            continue
        eng = Engine(F, S)
        eng.analyze(fn, frozenset())
        for a in absn:
            site = final_site_facts(eng, fn, a["id"]) or set()
            inst = "%s#abs-after-check" % fn.key
            if ("ev", "called", IH + "::Create") in site:
                out.append(ok("R-ORDER", inst, fn.loc(a["id"]), fn.qn, "std::abs(height) is reached only after the header was created (dimension refusal)", "dominated by ImageHeader::Create"))
            else:
                out.append(bad("R-ORDER", inst, fn.loc(a["id"]), fn.qn, "std::abs(height) is reached only after the header was created (dimension refusal)", "not dominated"))
    return out


def pitch_law(F, S):
    out = []
    cp = F.fn(IH + "::CalculatePitch", nparams=2)
    cb = F.fn(IH + "::CalcPixelByteWidth", nparams=2)
    from .c05 import alias_defs, resolve
    r = returns(cp)
    t = resolve(cp.term(r[0]["value"]), alias_defs(cp)) if len(r) == 1 else None
    want = ("op", "&", ("op", "+", F.call_value(IH + "::CalcPixelByteWidth", None, (P(cp, 0), P(cp, 1))), ("const", 3)), ("const", -4))
    inst = IH + "::CalculatePitch#law"
    if t == want:
        out.append(ok("R-ACCT", inst, cp.loc(r[0]["id"]), cp.qn, "pitch = (bytes per row + 3) & ~3", fmt_term(t)))
    else:
        out.append(bad("R-ACCT", inst, cp.loc(cp.body), cp.qn, "pitch = (bytes per row + 3) & ~3", "found %s" % (fmt_term(t) if t else "?")))
    r = returns(cb)
    t = resolve(cb.term(r[0]["value"]), alias_defs(cb)) if len(r) == 1 else None
    bc, w = P(cb, 0), P(cb, 1)
    want = ("op", ">>", ("op", "+", ("op", "*", w, bc), ("const", 7)), ("const", 3))      # canonical spelling of (... + 7) / 8 on unsigned
    inst = IH + "::CalcPixelByteWidth#law"
    if t == want or (t and t[0] == "op" and t[1] == ">>" and t[3] == ("const", 3) and t[2][0] == "op" and t[2][1] == "+" and t[2][3] == ("const", 7)
                     and t[2][2] == ("op", "*", bc, w)):
        out.append(ok("R-ACCT", inst, cb.loc(r[0]["id"]), cb.qn, "bytes per row = (width * bitCount + 7) / 8", fmt_term(t)))
    else:
        out.append(bad("R-ACCT", inst, cb.loc(cb.body), cb.qn, "bytes per row = (width * bitCount + 7) / 8", "found %s" % (fmt_term(t) if t else "?")))
    # single source: nothing else in the bitmap code re-derives a rounding to 4
    others = []
    for fn in F.functions.values():
        if "/Bitmap/" not in fn.file or fn.key == cp.key:
            continue
        for nd in fn.nodes:
            if nd["k"] == "BinaryOperator" and nd.get("op") == "&":
                ks = fn.kids(nd["id"])
                if fn.term(ks[1]) in (("const", -4), ("const", 0xfffffffc), ("const", 0xfffffffffffffffc)):
                    others.append((fn, nd))
    inst = "Bitmap#single-pitch-source"
    if not others:
        out.append(ok("R-SIB", inst, cp.loc(cp.body), cp.qn, "every consumer takes the pitch from CalculatePitch; none re-derives the rounding", "no other `& ~3` in src/Bitmap"))
    else:
        out.append(bad("R-SIB", inst, others[0][0].loc(others[0][1]["id"]), others[0][0].qn, "every consumer takes the pitch from CalculatePitch; none re-derives the rounding", "another rounding expression"))
    return out


def write_pixels_shape(F, S):
    """Row loop: meaningful bytes of row y from &pixels[y * pitch], then a zero-initialised padding of pitch - bytesPerRow."""
    fn = F.fn(B + "::WritePixels", nparams=5)
    from .c05 import alias_defs, resolve
    defs = alias_defs(fn)
    out = []
    loops = [nd for nd in fn.nodes if nd["k"] == "ForStmt"]
    inst = B + "::WritePixels#rows"
    req = "each row writes CalcPixelByteWidth bytes from &pixels[y * pitch] followed by (pitch - bytes) bytes of a zero-filled buffer"
    if len(loops) != 1:
        return [bad("R-SEQ", inst, fn.loc(fn.body), fn.qn, req, "no per-row loop: rows (and their in-memory padding bytes) are written wholesale")]
    body = fn.subtree(loops[0]["body"])
    wr = [fn.n(x) for x in body if fn.n(x)["k"] == "CXXMemberCallExpr" and fn.n(x).get("fname") == "Write"]
    wr.sort(key=lambda n: n["id"])
    probs = []
    if len(wr) != 2:
        probs.append("%d writes per row" % len(wr))
    else:
        d = fn.n(loops[0]["init"])["decls"][0]
        y = ("var", d["n"], d["d"])
        pix = P(fn, 1)
        a0 = resolve(fn.term(wr[0]["args"][0]), {})
        a1 = resolve(fn.term(wr[0]["args"][1]), defs)
        pitch_t = F.call_value(IH + "::CalculatePitch", None, (P(fn, 4), P(fn, 2)))
        bytes_t = F.call_value(IH + "::CalcPixelByteWidth", None, (P(fn, 4), P(fn, 2)))
        a0r = resolve(a0, defs)
        alt = a0r[0] == "op" and a0r[1] == "+" and a0r[2][0] == "call" and a0r[2][1].endswith("::data") and a0r[2][2] == pix and a0r[3] == ("op", "*", y, pitch_t)
        walking = False
        a0t = fn.term(wr[0]["args"][0])
        if a0t[0] == "var" and a0t != pix:
            # a pointer that walks the buffer: starts at pixels.data() before the loop, is advanced by the pitch once per
            # iteration after the row was written, and is stored to nowhere else; the loop counts the rows down from height
            from ..rules_stream import is_store
            init = None
            for nd0 in fn.nodes:
                if nd0["k"] == "DeclStmt" and nd0["id"] < loops[0]["id"]:
                    for d0 in nd0.get("decls", []):
                        if ("var", d0.get("n"), d0.get("d")) == a0t and "init" in d0:
                            init = fn.term(d0["init"])
            starts = init is not None and ((init[0] == "call" and init[1].endswith("::data") and init[2] == pix) or
                                           init == ("un", "&", ("idx", pix, ("const", 0))))
            sts = [nd0 for nd0 in fn.nodes if is_store(nd0) and fn.term(fn.kids(nd0["id"])[0]) == a0t]
            steps = len(sts) == 1 and sts[0].get("op") == "+=" and sts[0]["id"] in body and sts[0]["id"] > wr[0]["id"] and \
                resolve(fn.term(fn.kids(sts[0]["id"])[1]), defs) == pitch_t
            walking = bool(starts and steps)
            if not walking:
                probs.append("row source %s is not a pointer walking the pixel buffer by the pitch" % fmt_term(a0t))
        elif a0r != ("un", "&", ("idx", pix, ("op", "*", y, pitch_t))) and not alt:
            probs.append("row source is %s" % fmt_term(a0r))
        if a1 != bytes_t:
            probs.append("row length is %s" % fmt_term(a1))
        padv = fn.term(wr[1]["args"][0])
        pd = defs.get(padv)
        if not (pd and pd[0] == "ctor" and len(pd[2]) >= 2 and resolve(pd[2][0], defs) == ("op", "-", pitch_t, bytes_t) and pd[2][1] == ("const", 0)):
            probs.append("padding buffer is %s" % (fmt_term(pd) if pd else fmt_term(padv)))
        cond = resolve(fn.term(loops[0]["cond"]), {})
        if walking:
            # `for (r = height; r > 0; --r)`: |rows| iterations for a positive height, none otherwise - as the counting-up loop
            yi = fn.term(d["init"]) if "init" in d else None
            inc = fn.n(loops[0]["inc"]) if "inc" in loops[0] else {}
            down = inc.get("k") == "UnaryOperator" and inc.get("op") == "--" and fn.term(fn.kids(inc["id"])[0]) == y
            if not (yi == P(fn, 3) and down and cond in (("op", ">", y, ("const", 0)), ("op", "<", ("const", 0), y))):
                probs.append("loop %s from %s does not count the rows down from the height" % (fmt_term(cond), fmt_term(yi) if yi else "?"))
        elif not (cond[0] == "op" and cond[1] == "<" and cond[2] == y):
            probs.append("loop bound %s" % fmt_term(cond))
    if probs:
        out.append(bad("R-SEQ", inst, fn.loc(loops[0]["id"]), fn.qn, req, "; ".join(probs)))
    else:
        out.append(ok("R-SEQ", inst, fn.loc(loops[0]["id"]), fn.qn, req, "Write(&pixels[y*pitch], bytes); Write(vector(pitch - bytes, 0))"))
    return out


def unsigned_subtractions(F, S, fn, lemmas=()):
    """Unsigned subtractions in fn need a dominating `b <= a` (or a recorded lemma)."""
    W = Width(fn)
    eng = Engine(F, S)
    eng.analyze(fn, frozenset())
    from .c05 import alias_defs, resolve
    defs = alias_defs(fn)
    out = []
    for nd in fn.nodes:
        if nd["k"] == "BinaryOperator" and nd.get("op") == "-" and nd.get("iw") and not nd.get("is") and "cv" not in nd:
            ks = fn.kids(nd["id"])
            a, b = fn.term(ks[0]), fn.term(ks[1])
            site = final_site_facts(eng, fn, nd["id"])
            if site is None:
                continue
            inst = "%s#sub:%s" % (fn.qn, fmt_term(fn.term(nd["id"])))
            req = "%s <= %s before the unsigned subtraction" % (fmt_term(b), fmt_term(a))
            ra, rb = resolve(a, defs), resolve(b, defs)
            if prove_le(site, b, a) or (ra, rb) in lemmas:
                out.append(ok("R-NOWRAP", inst, fn.loc(nd["id"]), fn.qn, req, "guard fact or recorded lemma (pitch >= bytes per row)"))
            else:
                out.append(bad("R-NOWRAP", inst, fn.loc(nd["id"]), fn.qn, req, "nothing bounds the subtrahend; facts: " + facts_txt(site)))
    return out


def invert_scan_lines(F, S):
    fn = F.fn(B + "::InvertScanLines", nparams=0)
    out = []
    w = {it for it in S.writes(fn) if it[0] in ("this", "this@", "global")}
    names = {x[1] for x in w}
    inst = B + "::InvertScanLines#writeset"
    if names <= {"imageHeader", "pixels"} and names:
        out.append(ok("R-WRITESET", inst, fn.loc(fn.body), fn.qn, "flipping changes the height sign and the pixel rows only", "write set %s" % sorted(names)))
    else:
        out.append(bad("R-WRITESET", inst, fn.loc(fn.body), fn.qn, "flipping changes the height sign and the pixel rows only", "write set %s" % sorted(names)))
    neg = [nd for nd in fn.nodes if is_store(nd) and fn.term(fn.kids(nd["id"])[0]) == ("mem", ("mem", ("this",), "imageHeader"), "height")]
    inst = B + "::InvertScanLines#negates"
    good = len(neg) == 1 and ((neg[0].get("op") == "*=" and fn.term(fn.kids(neg[0]["id"])[1]) == ("const", -1)) or
                              (neg[0].get("op") == "=" and fn.term(fn.kids(neg[0]["id"])[1]) == ("un", "-", ("mem", ("mem", ("this",), "imageHeader"), "height"))))
    if good:
        from ..through import on_every_returning_path
        loops = [l for l in fn.nodes if l["k"] in ("ForStmt", "WhileStmt", "DoStmt", "CXXForRangeStmt") and neg[0]["id"] in fn.subtree(l["id"])]
        if loops:
            good = False
            out.append(bad("R-SIB", inst, fn.loc(neg[0]["id"]), fn.qn, "the height is negated exactly once", "the negation sits inside a loop"))
        elif not on_every_returning_path(fn, [neg[0]["id"]]):
            good = False
            out.append(bad("R-SIB", inst, fn.loc(neg[0]["id"]), fn.qn, "the height is negated exactly once on every flip",
                           "a returning path (an early return) skips the negation: such a flip leaves the height sign unchanged"))
        else:
            out.append(ok("R-SIB", inst, fn.loc(neg[0]["id"]), fn.qn, "the height is negated exactly once", fmt_term(fn.term(neg[0]["id"])) + ", on every returning path"))
    else:
        out.append(bad("R-SIB", inst, fn.loc(fn.body), fn.qn, "the height is negated exactly once", "%d stores to height" % len(neg)))
    out += unsigned_subtractions(F, S, fn)
    return out


def detectors(F, S):
    """PeekIs* call nothing on the stream but Peek (which restores the position)."""
    out = []
    for q in (T + "PeekIsCustomTileset", B + "::PeekIsBitmap"):
        fn = F.fn(q, nparams=1, pred=lambda f: "&&" not in f.key)
        sv = P(fn, 0)
        calls = [nd for nd in fn.nodes if nd["k"] == "CXXMemberCallExpr" and "obj" in nd and fn.term(nd["obj"]) == sv]
        names = sorted({c.get("fname") for c in calls})
        passed = [nd for nd in fn.nodes if nd["k"] in CALLS and nd["k"] != "CXXMemberCallExpr" and any(fn.term(a) == sv for a in nd.get("args", []))]
        inst = q + "#peek-only"
        req = "the detector uses the stream only through Peek (read n, seek back n)"
        if names == ["Peek"] and not passed:
            out.append(ok("R-WHOCALLS", inst, fn.loc(calls[0]["id"]), fn.qn, req, "one Peek call"))
        else:
            out.append(bad("R-WHOCALLS", inst, fn.loc(fn.body), fn.qn, req, "stream calls: %s%s" % (names, "; stream passed on" if passed else "")))
    return out


def no_partial_reads(F, S, files):
    """Parsers use the throwing Read only (a short read is an error, never a smaller success)."""
    out = []
    n = 0
    bad_sites = []
    for fn in F.functions.values():
        if not any(x in fn.file for x in files):
            continue
        for nd in fn.nodes:
            if nd["k"] == "CXXMemberCallExpr" and (nd.get("fq") or "").startswith("OP2Utility::Stream::"):
                if nd.get("fname") in ("Read", "Peek", "ReadPartial", "ReadNullTerminatedString"):
                    n += 1
                    if nd.get("fname") == "ReadPartial":
                        bad_sites.append((fn, nd))
    inst = "parsers#throwing-read-only:" + ",".join(sorted(f.split("/")[-1] for f in files))
    req = "every read in the parsers is the throwing Read/Peek (proper prefixes are refused)"
    if bad_sites:
        f, nd = bad_sites[0]
        out.append(bad("R-WHOCALLS", inst, f.loc(nd["id"]), f.qn, req, "ReadPartial is used"))
    else:
        out.append(ok("R-WHOCALLS", inst, "", "(%d read sites)" % n, req, "%d read sites, none partial" % n))
    return out, n


def pixel_size_check_width(F, S):
    """The pixel-size cross-check compares full-width quantities: no narrowing of pitch or |height|, product formed in 64 bits."""
    from ..rules_narrow import r_narrow
    vp = F.fn(B + "::VerifyPixelSizeMatchesImageDimensionsWithPitch", nparams=4)
    out, k = r_narrow(F, S, vp, explicit_only=False, sign_conversions=False)
    n = 0
    for nd in vp.nodes:
        if nd["k"] == "BinaryOperator" and nd.get("op") == "*" and "cv" not in nd:
            n += 1
            inst = "%s#product-width" % vp.qn
            if (nd.get("iw") or 0) >= 64:
                out.append(ok("R-NOWRAP", inst, vp.loc(nd["id"]), vp.qn, "pitch x |height| is formed in 64 bits", "type %s" % nd.get("ct")))
            else:
                out.append(bad("R-NOWRAP", inst, vp.loc(nd["id"]), vp.qn, "pitch x |height| is formed in 64 bits", "formed in %s: matches modulo 2^%s only" % (nd.get("ct"), nd.get("iw"))))
    # strength: whichever way the comparison is written, every returning path has passed an equality that involves the pixel
    # byte count (a path that returns without one accepts any amount of pixel data for those dimensions)
    eng, ex = exit_events(F, S, vp)
    sz = P(vp, 3)
    inst = "%s#every-path-compares" % vp.qn
    req = "every returning path of the pixel-size check has passed an equality between the pixel byte count and the size the dimensions call for"
    has = any(f[0] == "ev" and f[1] == "passed" and f[2][0] == "==" and mentions(f[2], sz) for f in ex) or \
        any(f[0] == "==" and mentions(f, sz) and (f[1][0] in ("op",) or f[2][0] in ("op",)) for f in ex)
    if has:
        out.append(ok("R-MUSTCALL", inst, vp.loc(vp.body), vp.qn, req, "an equality on the byte count is passed on every returning path"))
    else:
        out.append(bad("R-MUSTCALL", inst, vp.loc(vp.body), vp.qn, req, "a path returns without comparing the byte count (e.g. an early return for a special case)"))
    return out


def divisors_nonzero(F, S, files, functions=None):
    """Every division or remainder by a non-constant value in the given files is dominated by a test that excludes zero
    (a divisor read from a file can be 0: the operation then traps)."""
    out = []
    n = 0
    fns = functions if functions is not None else [f for f in F.functions.values() if any(x in f.file for x in files)]
    for fn in sorted(fns, key=lambda f: f.key):
        if not fn.cfg or fn.d.get("implicit"):
            continue
        sites = [nd for nd in fn.nodes if nd["k"] in ("BinaryOperator", "CompoundAssignOperator") and nd.get("op") in ("/", "%", "/=", "%=")
                 and fn.term(fn.kids(nd["id"])[1])[0] != "const" and (nd.get("iw") or fn.n(fn.kids(nd["id"])[1]).get("iw"))]
        if not sites:
            continue
        eng = Engine(F, S)
        eng.analyze(fn, frozenset())
        for nd in sites:
            site = final_site_facts(eng, fn, nd["id"])
            if site is None:
                continue
            n += 1
            d = fn.term(fn.kids(nd["id"])[1])
            inst = "%s#divisor:%s" % (fn.qn, fmt_term(d))
            req = "the divisor %s is known to be non-zero where it divides" % fmt_term(d)
            nz = any((f[0] == "<" and f[1][0] == "const" and f[1][1] >= 0 and f[2] == d) or
                     (f[0] == "<=" and f[1][0] == "const" and f[1][1] >= 1 and f[2] == d) or
                     (f[0] == "!=" and d in (f[1], f[2]) and ("const", 0) in (f[1], f[2])) for f in site)
            if nz:
                out.append(ok("R-TAINT", inst, fn.loc(nd["id"]), fn.qn, req, "a refusal / test of zero dominates the division"))
            else:
                out.append(bad("R-TAINT", inst, fn.loc(nd["id"]), fn.qn, req, "nothing excludes %s == 0 here; facts: %s" % (fmt_term(d), facts_txt(site))))
    return out, n

"""C09 — Tilesets load to the same picture from custom and standard formats."""
from ..extract import AnalysisBroken
from ..facts import CALLS, fmt_term
from ..flow import Engine, Summaries, final_site_facts, fmt_fact, subterms
from ..report import ok, bad
from ..rules_layout import r_layout
from ..rules_sib import P, returns
from ..rules_archive import facts_txt
from ..rules_stream import r_atomic, is_store
from .seqdefs import seq_obligations
from . import imgcommon as ic
from . import c05, c08

T = "OP2Utility::Tileset::"
B = ic.B

DECLINED = [
    "that the loaded picture equals the saved one (pixel and colour values)",
    "behaviour of the standard-bitmap branch beyond: it is the indexed-bitmap reader followed by the tileset validation",
]


def swap_palette_exact(F, S):
    """The red/blue exchange is std::swap(red, blue) applied to each colour by reference (alpha untouched)."""
    out = []
    c = F.fn("OP2Utility::Color::SwapRedAndBlue", nparams=0)
    sw = [nd for nd in c.nodes if nd["k"] in CALLS and (nd.get("fq") or "") == "std::swap"]
    stores = [nd for nd in c.nodes if is_store(nd)]
    inst = "OP2Utility::Color::SwapRedAndBlue#exchange"
    good = len(sw) == 1 and not stores and {fmt_term(c.term(a)) for a in sw[0]["args"]} == {"this->red", "this->blue"}
    if good:
        out.append(ok("R-SIB", inst, c.loc(sw[0]["id"]), c.qn, "the channel swap exchanges red and blue and touches nothing else", "std::swap(red, blue)"))
    else:
        out.append(bad("R-SIB", inst, c.loc(c.body), c.qn, "the channel swap exchanges red and blue and touches nothing else", "shape not found"))
    for q in (T + "SwapPaletteRedAndBlue", B + "::SwapRedAndBlue"):
        fn = F.fns(q)
        if len(fn) == 0 and q.endswith("SwapPaletteRedAndBlue"):
            continue            # inlined into its caller: the caller's swap is judged by once_each_side below
        if len(fn) != 1:
            raise AnalysisBroken("%s not unique" % q)
        fn = fn[0]
        from .c10 import element_bodies
        loops = element_bodies(F, fn)
        inst = q + "#each-colour"
        req = "every palette entry is exchanged in place through Color::SwapRedAndBlue (all four bytes kept)"
        good = len(loops) == 1 and loops[0]["is_ref"]
        if good:
            h, v = loops[0]["host"], loops[0]["var"]
            calls = [h.n(x) for x in h.subtree(loops[0]["body"]) if h.n(x)["k"] == "CXXMemberCallExpr"]
            st = [h.n(x) for x in h.subtree(loops[0]["body"]) if is_store(h.n(x)) or h.n(x)["k"] == "CXXOperatorCallExpr" and h.n(x).get("op") == "="]
            good = len(calls) == 1 and calls[0].get("fq") == "OP2Utility::Color::SwapRedAndBlue" and h.term(calls[0]["obj"]) == v and not st
        if good:
            out.append(ok("R-SIB", inst, fn.loc(loops[0]["node"]["id"]), fn.qn, req, "for each colour c of the palette, by reference: c.SwapRedAndBlue()"))
        else:
            out.append(bad("R-SIB", inst, fn.loc(fn.body), fn.qn, req, "the per-entry operation is not the in-place exchange (an entry rebuilt from three channels loses its fourth byte)"))
    return out


def once_each_side(F, S):
    out = []
    rd = F.fn(T + "ReadCustomTileset", nparams=1, pred=lambda f: "Reader &)" in f.key)
    wr = F.fn(T + "WriteCustomTileset", nparams=2, pred=lambda f: "Writer &," in f.key)
    # reader: exactly one swap, after the palette read, before the return
    from .c10 import swapped_containers
    sw = [nd for (nd, obj) in swapped_containers(F, rd) if obj[0] == "mem" and obj[2] == "palette"]
    reads = [nd for nd in rd.nodes if nd["k"] == "CXXMemberCallExpr" and nd.get("fname") == "Read" and rd.term(nd["args"][0])[0] == "mem" and rd.term(nd["args"][0])[2] == "palette"]
    inst = T + "ReadCustomTileset#swap-once"
    loops = any(nd["k"] in ("ForStmt", "WhileStmt", "CXXForRangeStmt", "DoStmt") and sw and sw[0]["id"] in rd.subtree(nd["id"]) and nd["id"] != sw[0]["id"] for nd in rd.nodes)
    if len(sw) == 1 and len(reads) == 1 and sw[0]["id"] > reads[0]["id"] and not loops:
        out.append(ok("R-MUSTCALL", inst, rd.loc(sw[0]["id"]), rd.qn, "the palette read from the file is channel-swapped exactly once before it is returned", "one swap after the read"))
    else:
        out.append(bad("R-MUSTCALL", inst, rd.loc(rd.body), rd.qn, "the palette read from the file is channel-swapped exactly once before it is returned", "%d swap sites" % len(sw)))
    pic = ("var", wr.params[1]["n"], wr.params[1]["d"])
    sw = [nd for (nd, obj) in swapped_containers(F, wr) if obj == ("mem", pic, "palette")]
    writes = [nd for nd in wr.nodes if nd["k"] == "CXXMemberCallExpr" and nd.get("fname") == "Write" and wr.term(nd["args"][0])[0] == "mem" and wr.term(nd["args"][0])[2] == "palette"]
    inst = T + "WriteCustomTileset#swap-once"
    by_value = not wr.params[1].get("ref")
    if len(sw) == 1 and len(writes) == 1 and sw[0]["id"] < writes[0]["id"] and by_value:
        out.append(ok("R-MUSTCALL", inst, wr.loc(sw[0]["id"]), wr.qn, "the palette is channel-swapped exactly once before it is written, on the function's own copy of the picture", "one swap before the write; picture taken by value"))
    else:
        out.append(bad("R-MUSTCALL", inst, wr.loc(wr.body), wr.qn, "the palette is channel-swapped exactly once before it is written, on the function's own copy of the picture",
                       "%d swap sites; picture by value: %s" % (len(sw), by_value)))
    return out


def validation_and_orientation(F, S):
    out = []
    wr = F.fn(T + "WriteCustomTileset", nparams=2, pred=lambda f: "Writer &," in f.key)
    eng = Engine(F, S)
    eng.analyze(wr, frozenset())
    writes = sorted([nd for nd in wr.nodes if nd["k"] == "CXXMemberCallExpr" and nd.get("fname") == "Write"], key=lambda n: n["id"])
    if not writes:
        raise AnalysisBroken("WriteCustomTileset: no writes")
    site = final_site_facts(eng, wr, writes[0]["id"]) or set()
    inst = T + "WriteCustomTileset#validated-first"
    from ..rules_valid import validated
    if validated(F, wr, site, T + "ValidateTileset"):
        out.append(ok("R-MUSTCALL", inst, wr.loc(writes[0]["id"]), wr.qn, "a picture violating the tileset constraints is refused before anything is written", "ValidateTileset dominates the first write"))
    else:
        out.append(bad("R-MUSTCALL", inst, wr.loc(writes[0]["id"]), wr.qn, "a picture violating the tileset constraints is refused before anything is written", "not dominated"))
    # orientation: InvertScanLines on exactly the BottomUp branch, before the first write
    inv = [nd for nd in wr.nodes if nd["k"] == "CXXMemberCallExpr" and nd.get("fname") == "InvertScanLines"]
    inst = T + "WriteCustomTileset#top-down"
    good = False
    detail = "%d InvertScanLines calls" % len(inv)
    if len(inv) == 1 and inv[0]["id"] < writes[0]["id"]:
        s2 = final_site_facts(eng, wr, inv[0]["id"]) or set()
        pic = ("var", wr.params[1]["n"], wr.params[1]["d"])
        en = F.enums.get("OP2Utility::ScanLineOrientation")
        bu = [e["value"] for e in en["enumerators"] if e["name"] == "BottomUp"][0] if en else None
        orient = F.method_value(B + "::GetScanLineOrientation", pic)
        good = any(f[0] == "==" and orient in (f[1], f[2]) and ("const", bu) in (f[1], f[2]) for f in s2)
        if not good and orient[0] == "cond" and orient[2][0] == "const" and orient[3][0] == "const":
            # the orientation expression is `c ? A : B` over a two-valued enum: evaluate the flip guard on both values; the
            # flip must happen exactly for BottomUp (however the comparison is spelled: == BottomUp, != TopDown, ...)
            inv_if = [x for x in wr.nodes if x["k"] == "IfStmt" and (inv[0]["id"] in wr.subtree(x["then"])
                                                                    or (x.get("else") is not None and inv[0]["id"] in wr.subtree(x["else"])))]
            if inv_if:
                gi = inv_if[-1]
                ct = wr.term(gi["cond"])
                in_then = inv[0]["id"] in wr.subtree(gi["then"])

                def ev(val):
                    if ct[0] == "op" and ct[1] in ("==", "!=") and orient in (ct[2], ct[3]):
                        k = ct[3] if ct[2] == orient else ct[2]
                        if k[0] == "const":
                            r = (val == k[1]) if ct[1] == "==" else (val != k[1])
                            return r if in_then else (not r)
                    return None
                td_v = [e["value"] for e in en["enumerators"] if e["name"] == "TopDown"][0]
                good = ev(bu) is True and ev(td_v) is False
        detail = "flip guarded by orientation == BottomUp: %s" % good
    if good:
        out.append(ok("R-MUSTCALL", inst, wr.loc(inv[0]["id"]), wr.qn, "bottom-up pictures (and only those) are flipped before writing, so the file is always top-down", detail))
    else:
        out.append(bad("R-MUSTCALL", inst, wr.loc(wr.body), wr.qn, "bottom-up pictures (and only those) are flipped before writing, so the file is always top-down", detail))
    # GetScanLineOrientation: negative height <=> TopDown
    go = F.fn(B + "::GetScanLineOrientation", nparams=0)
    r = returns(go)
    t = go.result_term()
    en = F.enums.get("OP2Utility::ScanLineOrientation")
    td = [e["value"] for e in en["enumerators"] if e["name"] == "TopDown"][0]
    bu = [e["value"] for e in en["enumerators"] if e["name"] == "BottomUp"][0]
    want = ("cond", ("op", "<", ("mem", ("mem", ("this",), "imageHeader"), "height"), ("const", 0)), ("const", td), ("const", bu))
    inst = B + "::GetScanLineOrientation#sign"
    if t == want:
        out.append(ok("R-SIB", inst, go.loc(go.body), go.qn, "negative height means top-down, otherwise bottom-up", fmt_term(t)))
    else:
        out.append(bad("R-SIB", inst, go.loc(go.body), go.qn, "negative height means top-down, otherwise bottom-up", "returns %s" % (fmt_term(t) if t else "?")))
    # reader: the bitmap is created with a negated height (top-down) and validated before it is returned
    rd = F.fn(T + "ReadCustomTileset", nparams=1, pred=lambda f: "Reader &)" in f.key)
    eng2 = Engine(F, S)
    ex = eng2.analyze(rd, frozenset()) or frozenset()
    ci = [nd for nd in rd.nodes if nd["k"] in CALLS and nd.get("fname") == "CreateIndexed"]
    inst = T + "ReadCustomTileset#top-down"
    good = len(ci) == 1
    if good:
        h = rd.term(ci[0]["args"][2])
        good = h[0] == "op" and h[1] == "*" and ("const", -1) in (h[2], h[3]) and "pixelHeight" in repr(h) or (h[0] == "un" and h[1] == "-")
        site = final_site_facts(eng2, rd, ci[0]["id"]) or set()
        allv = all(validated(F, rd, site, q) for q in (T + "ValidateFileSignatureHeader", T + "TilesetHeader::Validate", T + "PpalHeader::Validate", T + "ValidatePaletteHeader"))
    if good:
        out.append(ok("R-MUSTCALL", inst, rd.loc(ci[0]["id"]), rd.qn, "a custom tileset is returned top-down (negated height)", fmt_term(h)))
    else:
        out.append(bad("R-MUSTCALL", inst, rd.loc(rd.body), rd.qn, "a custom tileset is returned top-down (negated height)", "height argument not a negation"))
    inst = T + "ReadCustomTileset#headers-before-allocation"
    if good and allv:
        out.append(ok("R-ORDER", inst, rd.loc(ci[0]["id"]), rd.qn, "all four section headers are validated before the bitmap is allocated from them", "validations dominate CreateIndexed"))
    else:
        out.append(bad("R-ORDER", inst, rd.loc(rd.body), rd.qn, "all four section headers are validated before the bitmap is allocated from them", "not dominated"))
    inst = T + "ReadCustomTileset#validated"
    need = [T + "ValidatePixelHeader", T + "ValidateTileset"]
    if all(validated(F, rd, ex, q) for q in need):
        out.append(ok("R-MUSTCALL", inst, rd.loc(rd.body), rd.qn, "the pixel header and the tileset constraints are validated on every returning path", "ValidatePixelHeader, ValidateTileset"))
    else:
        out.append(bad("R-MUSTCALL", inst, rd.loc(rd.body), rd.qn, "the pixel header and the tileset constraints are validated on every returning path", "missing: %s" % [q.split("::")[-1] for q in need if not validated(F, rd, ex, q)]))
    # ReadTileset: custom branch iff the detector says so; bitmap branch validates too
    rt = F.fn(T + "ReadTileset", nparams=1, pred=lambda f: "&&" not in f.key)
    eng3 = Engine(F, S)
    ex = eng3.analyze(rt, frozenset()) or frozenset()
    inst = T + "ReadTileset#both-branches-validated"
    if validated(F, rt, ex, T + "ValidateTileset"):
        out.append(ok("R-MUSTCALL", inst, rt.loc(rt.body), rt.qn, "whichever format is detected, the returned picture passed ValidateTileset", "on every returning path"))
    else:
        out.append(bad("R-MUSTCALL", inst, rt.loc(rt.body), rt.qn, "whichever format is detected, the returned picture passed ValidateTileset", "a returning path bypasses it"))
    return out


def header_fields_constrained(F, S):
    """Every format-constrained field of the custom tileset header is constrained on load: either TilesetHeader::Validate
    refuses on it, or it is what the returned bitmap is created from (and ValidateTileset then judges the bitmap)."""
    out = []
    rd = F.fn(T + "ReadCustomTileset", nparams=1, pred=lambda f: "Reader &)" in f.key)
    va = F.fn(T + "TilesetHeader::Validate", nparams=0)
    hdr = None
    for nd in rd.nodes:
        if nd["k"] == "DeclStmt":
            for d in nd.get("decls", []):
                if (d.get("rec") or "").endswith("Tileset::TilesetHeader"):
                    hdr = ("var", d["n"], d["d"])
    if hdr is None:
        raise AnalysisBroken("ReadCustomTileset: header local not found")
    ci = [nd for nd in rd.nodes if nd["k"] in CALLS and nd.get("fname") == "CreateIndexed"]
    created_from = set()
    for c in ci:
        for a in c["args"]:
            for st in subterms(rd.term(a)):
                if st[0] == "mem" and st[1] == hdr:
                    created_from.add(st[2])
    refused = set()
    g = Engine(F, S).cfg(va)
    for nd in va.nodes:
        if nd["k"] == "IfStmt":
            body = va.subtree(nd["then"]) if "then" in nd else set()
            throws = any(va.n(x)["k"] == "CXXThrowExpr" or (va.n(x)["k"] in CALLS and (va.n(x).get("fname") or "").lower().startswith("throw")) for x in body)
            if throws:
                for st in subterms(va.term(nd["cond"])):
                    if st[0] == "mem" and st[1] == ("this",):
                        refused.add(st[2])
                    elif st[0] == "mem" and st[1][0] == "mem" and st[1][1] == ("this",):
                        refused.add(st[1][2] + "." + st[2])
    # refusals made by helpers the validator hands its fields to count as well: every check passed on a returning path
    exv = Engine(F, S).analyze(va, frozenset()) or frozenset()
    for fct in exv:
        if fct[0] == "ev" and fct[1] == "passed":
            for st in subterms(fct[2]):
                if st[0] == "mem" and st[1] == ("this",):
                    refused.add(st[2])
                elif st[0] == "mem" and st[1][0] == "mem" and st[1][1] == ("this",):
                    refused.add(st[1][2] + "." + st[2])
    for f, why in (("sectionHead.tag", "section tag"), ("sectionHead.length", "section length"), ("tagCount", "tag count"),
                   ("pixelWidth", "pixel width"), ("pixelHeight", "pixel height"), ("bitDepth", "bit depth")):
        inst = T + "ReadCustomTileset#constrained:" + f
        req = "the header's %s is judged on load (refused by TilesetHeader::Validate, or the validated bitmap is created from it)" % why
        top = f.split(".")[0]
        if f in refused or top in refused:
            out.append(ok("R-TAINT", inst, va.loc(va.body), va.qn, req, "refusal in TilesetHeader::Validate"))
        elif top in created_from:
            out.append(ok("R-TAINT", inst, rd.loc(ci[0]["id"]), rd.qn, req, "flows into BitmapFile::CreateIndexed; ValidateTileset judges the result"))
        else:
            out.append(bad("R-TAINT", inst, rd.loc(rd.body), rd.qn, req, "the field is read from the file and then ignored: any value is accepted"))
    return out


def signature_length_floor(F, S):
    """The loader's lower bound on the file-signature section length admits every length the saver writes: the saver writes
    C + 32*h for a picture of height h >= 0, so a refusal of small lengths may refuse at most the lengths below C (an empty,
    height-0 tileset is a valid picture and is written with exactly C)."""
    from ..rules_stream import linear
    from ..through import closure
    out = []
    wr = F.fn(T + "WriteCustomTileset", nparams=2, pred=lambda f: "Writer &," in f.key)
    rd = F.fn(T + "ReadCustomTileset", nparams=1, pred=lambda f: "Reader &)" in f.key)
    # the length the saver puts into the section whose tag is the file signature
    wlen = None
    for f0 in closure(F, wr, depth=1):
        for nd in f0.nodes:
            if nd["k"] == "DeclStmt":
                for d in nd.get("decls", []):
                    if (d.get("rec") or "").endswith("SectionHeader") and "init" in d:
                        t = f0.term(d["init"])
                        items = t[1] if t[0] == "initlist" else (t[2] if t[0] == "ctor" else ())
                        if len(items) >= 2 and items[0] == ("global", T + "TagFileSignature"):
                            wlen = f0.xterm(f0.kids(f0.strip(d["init"]))[1]) if t[0] == "initlist" else items[1]
    if wlen is None:
        raise AnalysisBroken("WriteCustomTileset: the file-signature section header was not found")
    co, lmin = linear(wlen)
    if any(v < 0 for v in co.values()):
        raise AnalysisBroken("WriteCustomTileset: the section length is not an increasing function of the picture's height")
    # the lower bound the loader's refusals establish on that field (wherever they are made)
    eng = Engine(F, S)
    ex = eng.analyze(rd, frozenset()) or frozenset()
    lb = 0
    why = "no lower bound"
    n = 0
    for f in ex:
        if f[0] != "ev" or f[1] != "passed":
            continue
        g = f[2]
        if g[0] not in ("<", "<=", "!="):
            continue
        def is_len(t):
            return t[0] == "mem" and t[2] == "length" and "ignature" in repr(t[1])
        if g[0] == "!=" and ((is_len(g[1]) and g[2] == ("const", 0)) or (is_len(g[2]) and g[1] == ("const", 0))):
            n += 1
            if lb < 1:
                lb, why = 1, fmt_fact(g)
        elif g[0] in ("<", "<=") and is_len(g[2]):
            c2, k = linear(g[1])
            if not c2:
                n += 1
                v = k + (1 if g[0] == "<" else 0)
                if v > lb:
                    lb, why = v, fmt_fact(g)
    inst = T + "ValidateFileSignatureHeader#length-floor"
    req = "the smallest section length the loader accepts is not above the smallest the saver writes (%d, a height-0 picture)" % lmin
    if lb <= lmin:
        out.append(ok("R-SIB", inst, rd.loc(rd.body), rd.qn, req, "loader accepts lengths >= %d (%s)" % (lb, why), nontrivial=n > 0))
    else:
        out.append(bad("R-SIB", inst, rd.loc(rd.body), rd.qn, req, "the loader refuses lengths below %d (%s): the saver's own output for height 0 (length %d) is refused" % (lb, why, lmin)))
    return out


def tileset_constraints(F, S):
    fn = F.fn(T + "ValidateTileset", nparams=1)
    eng = Engine(F, S)
    ex = eng.analyze(fn, frozenset()) or frozenset()
    ih = ("mem", P(fn, 0), "imageHeader")
    from ..prove import definitions, expand
    defs = definitions(ex)
    ex = {(f[0], expand(f[1], defs), expand(f[2], defs)) if f[0] in ("==", "!=", "<", "<=") else f for f in ex}
    bc = any(f[0] == "==" and ("mem", ih, "bitCount") in (f[1], f[2]) and ("const", 8) in (f[1], f[2]) for f in ex)
    wd = any(f[0] == "==" and ("mem", ih, "width") in (f[1], f[2]) and ("const", 32) in (f[1], f[2]) for f in ex)
    def mod32(t):
        return t[0] == "op" and ((t[1] == "&" and t[3] == ("const", 31)) or (t[1] == "%" and t[3] == ("const", 32))) and "eight" in repr(t[2])
    ht = any(f[0] == "==" and ("const", 0) in (f[1], f[2]) and (mod32(f[1]) or mod32(f[2])) for f in ex)
    inst = T + "ValidateTileset#constraints"
    req = "after validation: bitCount == 8, width == 32 (the pixel width itself), height % 32 == 0"
    if bc and wd and ht:
        return [ok("R-MUSTCALL", inst, fn.loc(fn.body), fn.qn, req, "three refusals on every returning path")]
    return [bad("R-MUSTCALL", inst, fn.loc(fn.body), fn.qn, req, "depth %s, width %s, height %s; established: %s" % (bc, wd, ht, facts_txt(ex)))]


def check(F, run, tier):
    S = Summaries(F)
    run.declined = DECLINED
    run.explanation = (
        "Static analysis of the tileset loader/saver. Decided: R-SEQ (WriteCustomTileset, ReadCustomTileset and "
        "spec/tileset.seq.json agree: sections, order, widths, and which constant / expression feeds each header), R-LAYOUT "
        "of the tileset headers, tags and every header constant the reader does not validate, the red/blue exchange being an "
        "in-place std::swap applied exactly once on each side (on the saver's own copy), ValidateTileset before the first "
        "write and on every returning path of both load branches, with the exact three constraints, top-down orientation on "
        "both sides (flip on exactly the bottom-up branch; negated height when loading), section headers validated before "
        "allocation, Peek-only detectors with Peek = read-then-inverse-seek, and header aggregates naming every field.")
    obs, n = seq_obligations(F, "tileset", min_sites=14)
    run.add(obs)
    run.add(r_layout(F, records=["OP2Utility::SectionHeader", "OP2Utility::Tileset::TilesetHeader", "OP2Utility::Tileset::PpalHeader", "OP2Utility::Color"],
                     constants=[c for c in __import__("op2.rules_layout", fromlist=["spec"]).spec()["constants"] if c.startswith("OP2Utility::Tileset::")]))
    run.add(swap_palette_exact(F, S))
    run.add(once_each_side(F, S))
    run.add(validation_and_orientation(F, S))
    run.add(header_fields_constrained(F, S))
    run.add(signature_length_floor(F, S))
    # the bytes written depend on the picture alone: no state carried over from an earlier call
    from .c18 import static_locals
    run.add([o for o in static_locals(F)[0] if "Tileset" in o.instance])
    run.add(tileset_constraints(F, S))
    run.add(ic.detectors(F, S))
    pk = F.fn("OP2Utility::Stream::BidirectionalReader::Peek", nparams=2)
    run.add(r_atomic(F, S, pk, inverse_exempt=("ReadImplementation", "SeekBackward")))
    run.add(ic.invert_scan_lines(F, S))
    # header aggregates name every field
    for q, rec, n in ((T + "TilesetHeader::Create", "OP2Utility::Tileset::TilesetHeader", 6), (T + "PpalHeader::Create", "OP2Utility::Tileset::PpalHeader", 3)):
        c = F.fns(q)[0]
        from ..rules_init import returned_record_complete
        verdict, detail = returned_record_complete(F, S, c, rec)
        if verdict is None:
            raise AnalysisBroken("%s: %s" % (q, detail))
        req = "the header returned has a value named for every field (bytes determined by the picture alone)"
        run.add((ok if verdict else bad)("R-INIT", q + "#all-fields", c.loc(c.body), c.qn, req, detail))
    run.floor("obligations", len(run.obligations), 40)

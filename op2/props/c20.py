"""C20 — Writers refuse quantities that do not fit their on-disk fields."""
from ..extract import AnalysisBroken
from ..facts import CALLS, CTORS, fmt_term
from ..flow import CFG, Engine, Summaries, norm_cmp, final_site_facts, fmt_fact, mentions
from ..prove import prove_le, Width
from ..report import ok, bad
from ..rules_narrow import r_narrow
from ..rules_archive import facts_txt
from ..rules_stream import is_store
from . import c14

AR = "OP2Utility::Archive::"
VOL, CLM = AR + "VolFile", AR + "ClmFile"
NS = "OP2Utility::Stream::"

DECLINED = [
    "the behaviour with real 2-4 GiB inputs is not run; only the dominance of each conversion by a sufficient refusal is decided",
    "section lengths of the VOL name/index tables beyond 2^31 bytes (not among the quantities the property lists; they need >2 GiB of names)",
]

SWEEP = [
    (VOL + "::PrepareHeader", 2), (CLM + "::PrepareIndex", 3), (CLM + "::WriteArchive", 5),
    ("OP2Utility::Map::CreateHeader", 0), ("OP2Utility::Map::WriteTileGroups", 2), ("OP2Utility::Map::WriteContainerSize", 2),
    ("OP2Utility::ArtFile::WritePalettes", 1), ("OP2Utility::ArtFile::WriteAnimations", 1), ("OP2Utility::ArtFile::WriteAnimation", 2),
    ("OP2Utility::PaletteHeader::CreatePaletteHeader", 0),
]


def throws_outside_handlers(fn):
    catch_nodes = set()
    for nd in fn.nodes:
        if nd["k"] == "CXXCatchStmt":
            catch_nodes |= set(fn.subtree(nd["id"]))
    return [nd for nd in fn.nodes if nd["k"] == "CXXThrowExpr" and nd["id"] not in catch_nodes]


def vol_block_length_chain(F, S):
    """The 31-bit block length written by WriteFiles is IndexEntry::fileSize of the entries PrepareHeader appended
    under the size refusal; nothing else fills CreateVolumeInfo::indexEntries."""
    out = []
    ph = F.fn(VOL + "::PrepareHeader", nparams=2)
    wf = F.fn(VOL + "::WriteFiles", nparams=2)
    rec = F.record(VOL + "::SectionHeader")
    lf = [f for f in rec["fields"] if f["name"] == "length"]
    ie = F.record(VOL + "::IndexEntry")
    fs = [f for f in ie["fields"] if f["name"] == "fileSize"]
    if not lf or not fs:
        raise AnalysisBroken("VolFile::SectionHeader::length / IndexEntry::fileSize not found")
    bits = lf[0]["width_bits"]
    cap = (1 << bits) - 1
    fcap = (1 << (fs[0]["width_bits"] - (1 if fs[0].get("is") else 0))) - 1
    cap = min(cap, fcap)
    # the entry may be built in PrepareHeader or in a helper whose result it appends
    from ..through import entry_producer
    ep = entry_producer(F, ph)
    if ep is None:
        raise AnalysisBroken("PrepareHeader: the appended IndexEntry is not a local built here or in a helper")
    ph_outer = ph
    ph = ep["host"]
    eng = Engine(F, S)
    eng.analyze(ph, frozenset())
    # (1) the store into fileSize is dominated by a refusal of sizes above the field capacity
    stores = [nd for nd in ph.nodes if is_store(nd) and ph.term(ph.kids(nd["id"])[0])[0] == "mem" and ph.term(ph.kids(nd["id"])[0])[2] == "fileSize"]
    if len(stores) != 1:
        raise AnalysisBroken("PrepareHeader: expected exactly one store to IndexEntry::fileSize")
    st = stores[0]
    site = final_site_facts(eng, ph, st["id"]) or set()
    v = ph.term(ph.kids(st["id"])[1])
    req = "member size <= %d (the %d-bit block length field / int32 fileSize) is established before it is recorded" % (cap, bits)
    if prove_le(site, v, ("const", cap)):
        out.append(ok("R-NARROW", VOL + "::PrepareHeader#member-size", ph.loc(st["id"]), ph.qn, req, "refusal dominates the store of %s" % fmt_term(v)))
    else:
        out.append(bad("R-NARROW", VOL + "::PrepareHeader#member-size", ph.loc(st["id"]), ph.qn, req, "facts at the store: " + facts_txt(site)))
    # (2) the entry stored is the one pushed; indexEntries is only appended to here
    entry_var = ph.term(ph.kids(st["id"])[0])[1]
    pushes = []
    for fn in F.functions.values():
        if not (fn.cls or "").startswith(VOL) and not fn.qn.startswith(VOL):
            continue
        for nd in fn.nodes:
            if nd["k"] == "CXXMemberCallExpr" and nd.get("fname") in ("push_back", "emplace_back", "resize", "insert", "assign", "operator=") and "obj" in nd:
                o = fn.term(nd["obj"])
                if o[0] == "mem" and o[2] == "indexEntries" and o[1] != ("this",):
                    pushes.append((fn, nd))
            if nd["k"] == "CXXOperatorCallExpr" and nd.get("op") == "=" and nd.get("args"):
                o = fn.term(nd["args"][0])
                if o[0] == "mem" and o[2] == "indexEntries" and o[1] != ("this",):
                    pushes.append((fn, nd))
    good = len(pushes) == 1 and pushes[0][0].key == ph_outer.key and pushes[0][1].get("fname") == "push_back" and \
        pushes[0][1]["id"] == ep["push"]["id"] and entry_var == ep["ent"] and (ph.key != ph_outer.key or pushes[0][1]["id"] > st["id"])
    req = "CreateVolumeInfo::indexEntries is filled only by PrepareHeader's push_back of the entry whose size was checked"
    if good:
        out.append(ok("R-WRITESET", VOL + "::CreateVolumeInfo::indexEntries#single-producer", ph.loc(pushes[0][1]["id"]), ph.qn, req, "one producer site"))
    else:
        out.append(bad("R-WRITESET", VOL + "::CreateVolumeInfo::indexEntries#single-producer", ph.loc(ph.body), ph.qn, req,
                       "%d producer sites: %s" % (len(pushes), ", ".join("%s@%s" % (f.name, f.loc(n["id"])) for f, n in pushes))))
    # other stores to fileSize of those entries?
    other = []
    for fn in F.functions.values():
        if not fn.qn.startswith(VOL) or fn.d.get("implicit"):
            continue
        for nd in fn.nodes:
            if is_store(nd):
                t = fn.term(fn.kids(nd["id"])[0])
                if t[0] == "mem" and t[2] == "fileSize" and not (fn.key == ph.key and nd["id"] == st["id"]):
                    other.append((fn, nd))
    if other:
        out.append(bad("R-WRITESET", VOL + "::IndexEntry::fileSize#single-store", other[0][0].loc(other[0][1]["id"]), other[0][0].qn,
                       "fileSize is stored only at the checked site", "another store exists"))
    else:
        out.append(ok("R-WRITESET", VOL + "::IndexEntry::fileSize#single-store", ph.loc(st["id"]), ph.qn, "fileSize is stored only at the checked site", "one store", nontrivial=False))
    # (3) WriteFiles hands exactly that field to the block header
    ctor = [nd for nd in wf.nodes if nd["k"] in CTORS and (nd.get("ctor_rec") or "").endswith("VolFile::SectionHeader") and len(nd.get("args", [])) >= 2]
    good = False
    det = "no SectionHeader construction"
    if ctor:
        a = wf.xterm(ctor[0]["args"][1])
        det = fmt_term(a)
        good = a[0] == "mem" and a[2] == "fileSize" and a[1][0] == "idx" and a[1][1][0] == "mem" and a[1][1][2] == "indexEntries"
    req = "the block header length written is indexEntries[i].fileSize"
    if good:
        out.append(ok("R-SEQ", VOL + "::WriteFiles#block-length", wf.loc(ctor[0]["id"]), wf.qn, req, det))
    else:
        out.append(bad("R-SEQ", VOL + "::WriteFiles#block-length", wf.loc(wf.body), wf.qn, req, det))
    return out


def vol_offsets(F, S, size_chain_ok=False):
    """Every stored block offset is a 64-bit value refused above UINT32_MAX; the arithmetic producing it cannot wrap."""
    out = []
    ph0 = F.fn(VOL + "::PrepareHeader", nparams=2)
    # the offsets are laid out in PrepareHeader or in a helper it is split into: analyse the function that stores them
    from ..through import closure
    hosts = [f for f in closure(F, ph0) if sum(1 for nd in f.nodes if is_store(nd) and f.term(f.kids(nd["id"])[0])[0] == "mem"
                                               and f.term(f.kids(nd["id"])[0])[2] == "dataBlockOffset") >= 2]
    if len(hosts) != 1:
        raise AnalysisBroken("PrepareHeader: expected stores to dataBlockOffset for the first and the following entries (in it or in one helper)")
    ph = hosts[0]
    eng = Engine(F, S)
    eng.analyze(ph, frozenset())
    # IndexEntry::fileSize holds 0..2^31-1 once the member-size obligations are discharged (single guarded store)
    W = Width(ph, field_bits={"fileSize": 31} if size_chain_ok else None)
    stores = [nd for nd in ph.nodes if is_store(nd) and ph.term(ph.kids(nd["id"])[0])[0] == "mem" and ph.term(ph.kids(nd["id"])[0])[2] == "dataBlockOffset"]
    for i, st in enumerate(stores):
        site = final_site_facts(eng, ph, st["id"]) or set()
        rhs = ph.kids(st["id"])[1]
        inner = rhs
        while ph.n(inner)["k"] in ("ImplicitCastExpr", "CXXStaticCastExpr") and ph.kids(inner):
            inner = ph.kids(inner)[0]
        v = ph.term(inner)
        inst = "%s::PrepareHeader#offset-%d" % (VOL, i)
        req = "block offset <= 0xffffffff is established before it is stored in the 32-bit field"
        need = W.needed(inner)
        if (1 << need) - 1 <= 0xffffffff and "cv" not in ph.n(inner):
            # computed in 32 bits: the arithmetic itself may have wrapped
            wraps = [x for (x, base) in W.arith_nodes(inner) if W.may_wrap(x, base)]
            if wraps:
                out.append(bad("R-NARROW", inst, ph.loc(st["id"]), ph.qn, req,
                               "offset %s is accumulated in 32 bits and can wrap" % fmt_term(v)))
                continue
        if prove_le(site, v, ("const", 0xffffffff)):
            out.append(ok("R-NARROW", inst, ph.loc(st["id"]), ph.qn, req, "refusal dominates the store of %s" % fmt_term(v)))
        else:
            out.append(bad("R-NARROW", inst, ph.loc(st["id"]), ph.qn, req, "no dominating bound on %s; facts: %s" % (fmt_term(v), facts_txt(site))))
    # the 64-bit accumulations feeding the guard are wrap-free by width
    for nd in ph.nodes:
        if is_store(nd) and ph.term(ph.kids(nd["id"])[0]) in offset_locals(ph):
            rhs = ph.kids(nd["id"])[1]
            for (x, base) in W.arith_nodes(rhs):
                inst = "%s::PrepareHeader#offset-arith:%s" % (VOL, fmt_term(ph.term(x)))
                if W.may_wrap(x, base):
                    out.append(bad("R-NARROW", inst, ph.loc(x), ph.qn, "offset arithmetic is performed wide enough not to wrap",
                                   "%s needs %d bits in a %s-bit type" % (fmt_term(ph.term(x)), W.needed(x), ph.n(x).get("iw"))))
                else:
                    out.append(ok("R-NARROW", inst, ph.loc(x), ph.qn, "offset arithmetic is performed wide enough not to wrap",
                                  "needs %d bits, type has %s" % (W.needed(x), ph.n(x).get("iw"))))
    for nd in ph.nodes:
        if nd["k"] == "DeclStmt":
            for d in nd.get("decls", []):
                # the running offset: the local that is later stored into an entry's dataBlockOffset field
                if "init" in d and ("var", d.get("n"), d.get("d")) in offset_locals(ph):
                    for (x, base) in W.arith_nodes(d["init"]):
                        inst = "%s::PrepareHeader#offset-arith:%s" % (VOL, fmt_term(ph.term(x)))
                        if W.may_wrap(x, base):
                            out.append(bad("R-NARROW", inst, ph.loc(x), ph.qn, "offset arithmetic is performed wide enough not to wrap",
                                           "%s needs %d bits in a %s-bit type" % (fmt_term(ph.term(x)), W.needed(x), ph.n(x).get("iw"))))
                        else:
                            out.append(ok("R-NARROW", inst, ph.loc(x), ph.qn, "offset arithmetic is performed wide enough not to wrap",
                                          "needs %d bits, type has %s" % (W.needed(x), ph.n(x).get("iw"))))
    return out


def offset_locals(ph):
    out = set()
    for nd in ph.nodes:
        if is_store(nd):
            ks = ph.kids(nd["id"])
            l = ph.term(ks[0])
            if l[0] == "mem" and l[2] == "dataBlockOffset":
                r = ph.term(ks[1])
                if r[0] == "var":
                    out.add(r)
    return out


def no_delete_on_refusal(F, S, roots=None):
    """R-ORDER: creating an archive never removes or renames what is at the destination path because of a refusal: a call that
    deletes / renames a path (XFile::DeletePath, RenameFile, std::filesystem remove / rename) in the creation code is allowed
    only inside a handler whose try block starts after the output FileWriter was constructed in the same function (cleaning
    up a file this call has itself created). A handler that also covers the checks made before creation would delete a
    volume that was there before the refused call."""
    from ..through import closure
    out = []
    n = 0
    for root in (roots if roots is not None else [F.fn(VOL + "::CreateArchive", nparams=2), F.fn(AR + "ClmFile::CreateArchive", nparams=2)]):
        for f_ in (closure(F, root, depth=3) if roots is None else [root]):
            pm = f_.parent_map()
            fw = [nd["id"] for nd in f_.nodes if (nd["k"] in CTORS and (nd.get("ctor_rec") or "").endswith("Stream::FileWriter")) or
                  (nd["k"] == "DeclStmt" and any((d.get("rec") or "").endswith("Stream::FileWriter") for d in nd.get("decls", [])))]
            for nd in f_.nodes:
                if nd["k"] not in CALLS:
                    continue
                fq = nd.get("fq") or ""
                last = fq.split("::")[-1]
                if not (fq in ("OP2Utility::XFile::DeletePath", "OP2Utility::XFile::RenameFile") or ("filesystem" in fq and last in ("remove", "remove_all", "rename"))):
                    continue
                n += 1
                # the try statement whose handler contains this call
                cur = nd["id"]
                trystmt = None
                while cur in pm:
                    cur = pm[cur]
                    if f_.n(cur)["k"] == "CXXCatchStmt":
                        trystmt = pm.get(cur)
                        break
                inst = "%s#destructive-call@%s" % (f_.qn, nd.get("l"))
                req = "a path is deleted / renamed by the archive creators only to clean up a file this call created (handler of a try block that starts after the FileWriter construction)"
                if trystmt is not None and fw and min(fw) < trystmt:
                    out.append(ok("R-ORDER", inst, f_.loc(nd["id"]), f_.qn, req, "clean-up after creation"))
                else:
                    out.append(bad("R-ORDER", inst, f_.loc(nd["id"]), f_.qn, req,
                                   "%s can run when a refusal made before the output file is created propagates: a file that existed at the destination before the call is removed" % last))
    return out, n


def vol_refuse_before_create(F, S):
    """R-ORDER: every refusal reachable from CreateArchive precedes the construction of the output FileWriter."""
    out = []
    ca = F.fn(VOL + "::CreateArchive", nparams=2)
    wv = F.fn(VOL + "::WriteVolume", nparams=2)
    eng = Engine(F, S)
    eng.analyze(ca, frozenset())
    fw = [nd for nd in wv.nodes if nd["k"] in CTORS and (nd.get("ctor_rec") or "").endswith("Stream::FileWriter")]
    if len(fw) != 1:
        raise AnalysisBroken("WriteVolume: expected exactly one FileWriter construction")
    site = final_site_facts(eng, wv, fw[0]["id"])
    if site is None:
        raise AnalysisBroken("WriteVolume is not reached from CreateArchive")
    evs = {f for f in site if f[0] == "ev"}
    req_calls = [VOL + "::PrepareHeader", AR + "ArchiveFile::VerifySortedContainerHasNoDuplicateNames"]
    for q in req_calls:
        inst = "%s::CreateArchive#before-create:%s" % (VOL, q.split("::")[-1])
        from ..rules_valid import validated
        if ("ev", "called", q) in evs or (q.endswith("VerifySortedContainerHasNoDuplicateNames") and validated(F, wv, evs, q)):
            out.append(ok("R-ORDER", inst, wv.loc(fw[0]["id"]), wv.qn, "%s (all its refusals) completes before the output file is created" % q.split("::")[-1],
                          "call dominates the FileWriter construction"))
        else:
            out.append(bad("R-ORDER", inst, wv.loc(fw[0]["id"]), wv.qn, "%s (all its refusals) completes before the output file is created" % q.split("::")[-1],
                           "the call does not dominate the FileWriter construction"))
    self_incl = any(f[1] == "each" and "PathsAreEqual" in str(f) for f in evs)
    inst = "%s::WriteVolume#self-inclusion-first" % VOL
    if self_incl:
        out.append(ok("R-ORDER", inst, wv.loc(fw[0]["id"]), wv.qn, "the output-names-an-input refusal over all inputs precedes the creation", "loop of refusals dominates the construction"))
    else:
        out.append(bad("R-ORDER", inst, wv.loc(fw[0]["id"]), wv.qn, "the output-names-an-input refusal over all inputs precedes the creation", "not dominated"))
    # no refusal after the file exists: the functions that run afterwards throw only from catch handlers (I/O error wrappers)
    g = eng.cfg(wv)
    eb = g.elem_block()
    for nd in wv.nodes:
        if nd["k"] in CALLS and nd["id"] > fw[0]["id"]:
            for cal in F.callees(nd):
                if not cal.qn.startswith(VOL):
                    continue
                th = throws_outside_handlers(cal)
                inst = "%s::%s#no-refusal-after-create" % (VOL, cal.name)
                if th:
                    out.append(bad("R-ORDER", inst, cal.loc(th[0]["id"]), cal.qn, "no size/format refusal is left to happen after the output file was created",
                                   "throw outside an I/O error handler"))
                else:
                    out.append(ok("R-ORDER", inst, cal.loc(cal.body), cal.qn, "no size/format refusal is left to happen after the output file was created",
                                  "only I/O error wrappers can throw here"))
    return out


def clm_names(F, S):
    out = []
    ca = F.fn(CLM + "::CreateArchive", nparams=2)
    eng = Engine(F, S)
    eng.analyze(ca, frozenset())
    wa = [nd for nd in ca.nodes if nd["k"] in CALLS and nd.get("fname") == "WriteArchive"]
    if len(wa) != 1:
        raise AnalysisBroken("ClmFile::CreateArchive: WriteArchive call not found")
    site = final_site_facts(eng, ca, wa[0]["id"]) or set()
    rec = F.record(CLM + "::IndexEntry")
    fl = [f for f in rec["fields"] if f["name"] == "filename"]
    cap = fl[0].get("array_len") or (fl[0]["width_bits"] // 8)
    good = False
    for f in site:
        if f[0] == "ev" and f[1] == "each":
            g = f[2]
            if g[0] == "ev" and g[1] == "passed" and g[2][0] == "<=" and g[2][1][0] == "size" and g[2][2] == ("const", cap):
                good = True
    inst = CLM + "::CreateArchive#name-length"
    req = "every name longer than the %d-byte index field is refused before the archive is written" % cap
    if good:
        out.append(ok("R-MUSTCALL", inst, ca.loc(wa[0]["id"]), ca.qn, req, "loop of refusals `name.size() > %d` dominates WriteArchive" % cap))
    else:
        out.append(bad("R-MUSTCALL", inst, ca.loc(wa[0]["id"]), ca.qn, req, "no dominating per-name refusal with bound %d" % cap))
    # the copy into the field is bounded by the field size
    pi = F.fn(CLM + "::PrepareIndex", nparams=3)
    sc = [nd for nd in pi.nodes if nd["k"] in CALLS and nd.get("fname") == "strncpy"]
    if len(sc) != 1:
        raise AnalysisBroken("PrepareIndex: strncpy not found")
    ln = pi.term(sc[0]["args"][2])
    if ln == ("const", cap):
        out.append(ok("R-TAINT", CLM + "::PrepareIndex#strncpy-bound", pi.loc(sc[0]["id"]), pi.qn, "the name copy is bounded by the field size", "strncpy(…, %d)" % cap, nontrivial=False))
    else:
        out.append(bad("R-TAINT", CLM + "::PrepareIndex#strncpy-bound", pi.loc(sc[0]["id"]), pi.qn, "the name copy is bounded by the field size", "bound is %s" % fmt_term(ln)))
    return out


def clm_extension_strip(F, S):
    """R-SIB: the CLM member name is the file name with its extension removed by the path library's own rule
    (XFile::ChangeFileExtension(x, "")): cutting at the last '.' of the string instead also cuts at a dot in a directory part
    (`./sounds/beep`), which makes the archive depend on how the input path was spelled."""
    from ..through import find_calls
    ca = F.fn(CLM + "::CreateArchive", nparams=2)
    inst = CLM + "::CreateArchive#extension-strip"
    req = "extensions are removed with XFile::ChangeFileExtension(name, \"\"), never by cutting the string at a '.'"
    # the code that derives the names: CreateArchive, the helpers it calls on itself / statically, and the lambdas written in them
    from ..through import closure, with_lambdas
    code = []
    for f in closure(F, ca, depth=2, same_class_only=False) if "same_class_only" in closure.__code__.co_varnames else closure(F, ca, depth=2):
        for g in with_lambdas(F, f):
            if g not in code:
                code.append(g)

    class _S:       # (a call site in that code, with the interface the verdict below needs)
        def __init__(self, f, nd):
            self.f, self.node = f, nd

        def args(self):
            return [self.f.term(a) for a in self.node.get("args", [])]

        def outer_id(self):
            return ca.body
    cf = [_S(f, nd) for f in code for nd in f.nodes if nd["k"] in CALLS and (nd.get("fq") or "").endswith("XFile::ChangeFileExtension")]
    cuts = [_S(f, nd) for f in code for nd in f.nodes if nd["k"] == "CXXMemberCallExpr" and (nd.get("mrec") or "").startswith("std::basic_string")
            and nd.get("fname") in ("rfind", "find_last_of", "find", "substr", "erase", "resize")]
    if not cf and not cuts:
        raise AnalysisBroken("ClmFile::CreateArchive: how extensions are stripped was not recognised")
    good = len(cf) >= 1 and all(len(c.args()) == 2 and c.args()[1] in (("str", b""), ("ctor", "std::basic_string<char>", ())) or
                                (len(c.args()) == 2 and c.args()[1][0] == "ctor" and c.args()[1][2] and c.args()[1][2][0] == ("str", b"")) for c in cf) and not cuts
    if good:
        return [ok("R-SIB", inst, ca.loc(cf[0].outer_id()), ca.qn, req, "ChangeFileExtension(x, \"\")")]
    return [bad("R-SIB", inst, ca.loc((cuts or cf)[0].outer_id()), ca.qn, req,
                "the name is cut with %s" % ", ".join(sorted({c.node.get("fname") for c in cuts})) if cuts else "ChangeFileExtension is not called with an empty extension")]


def frame_layers(F, S):
    fn = F.fn("OP2Utility::ArtFile::WriteFrame", nparams=2)
    eng = Engine(F, S)
    eng.analyze(fn, frozenset())
    wr = sorted([nd for nd in fn.nodes if nd["k"] in CALLS and nd.get("fname") == "Write"], key=lambda n: n["id"])
    if not wr:
        raise AnalysisBroken("WriteFrame: no Write calls")
    g = eng.cfg(fn)
    out = []
    ok_all = True
    # the frame being written: a parameter, or (when the function has been inlined into the animation writer) the
    # loop variable ranging over the frames - any variable of type Animation::Frame; its writes are those that mention it
    from ..rules_valid import var_types
    from ..flow import mentions
    frames = [v for v, d in var_types(fn).items() if (d.get("rec") or d.get("record") or d.get("ct") or "").replace("const ", "").rstrip(" &").endswith("Animation::Frame")]
    if not frames:
        raise AnalysisBroken("frame writer: no variable of type Animation::Frame in %s" % fn.qn)
    checked = 0
    for w in wr:
        for fr in frames:
            if any(mentions(fn.term(a), fr) for a in w.get("args", [])):
                checked += 1
                want = norm_cmp("==", ("mem", ("mem", fr, "layerMetadata"), "count"), ("size", ("mem", fr, "layers")))
                site = final_site_facts(eng, fn, w["id"]) or set()
                if want not in site:
                    ok_all = False
    if checked == 0:
        raise AnalysisBroken("frame writer: no write of frame data found in %s" % fn.qn)
    inst = "OP2Utility::ArtFile::WriteFrame#layer-count"
    req = "a frame whose 7-bit layer count differs from layers.size() is refused before anything is written"
    if ok_all:
        return [ok("R-MUSTCALL", inst, fn.loc(wr[0]["id"]), fn.qn, req, "the refusal dominates all %d writes" % len(wr))]
    return [bad("R-MUSTCALL", inst, fn.loc(wr[0]["id"]), fn.qn, req, "a write is not dominated by the refusal")]


def check(F, run, tier):
    S = Summaries(F)
    from ..rules_archive import discarded_exception_obligations
    discarded_exception_obligations(F, S, run)
    # refusals at the edge of an integer type's range are exact (neither the largest representable value is turned away nor
    # the first unrepresentable one let through), wherever in the library they are made
    from ..rules_stream import capacity_refusals_exact
    _oc, _nc = capacity_refusals_exact(F, S, ["/src/"])
    run.add(_oc)
    run.floor("capacity-refusals", _nc, 33)
    run.declined = DECLINED
    run.explanation = (
        "Static analysis of the writers' narrowing conversions (R-NARROW): every explicit cast, bit-field store and "
        "accumulation in a narrower type on the serialisation paths is dominated by a refusal that bounds the value by the "
        "destination's capacity (bit-width domain + guard facts, with linear-arithmetic consequence for sums). For volumes: "
        "the member size is refused above the 31-bit block length before it is recorded and WriteFiles writes exactly that "
        "recorded field; block offsets are accumulated in 64 bits and refused above 32 bits; every refusal precedes the "
        "construction of the output FileWriter (R-ORDER) and nothing that can refuse runs after it. CLM: data offsets, "
        "member count, name length <= 8 refused before writing. Frames: layer-count mismatch refused before the first write.")
    n = 0
    from ..through import closure
    swept = set()
    for q, np_ in SWEEP:
        if q.endswith("::WriteContainerSize") and not F.by_qn.get(q):
            continue            # inlined into WriteTileGroups, which is swept
        primary = F.fn(q, nparams=np_)
        for fn in closure(F, primary):       # the writer function and the helpers it is split into
            if fn.key in swept:
                continue
            swept.add(fn.key)
            obs, k = r_narrow(F, S, fn, explicit_only=True)
            if fn.key != primary.key:
                # helpers: the explicit casts only (their size_t accumulations of container sizes are not field stores)
                obs = [o for o in obs if "accumulation in" not in o.required]
                k = len(obs)
            run.add(obs)
            n += k
    run.floor("R-NARROW(sweep)", n, 19)
    # the VOL header preparation also with its *implicit* conversions: a size handed to a helper whose parameter is narrower
    # (`FitsLength(uint32_t)`) has lost its upper bits before the helper looks at it
    ph = F.fn(VOL + "::PrepareHeader", nparams=2)
    ni = 0
    for fn in closure(F, ph):
        obs, k = r_narrow(F, S, fn, explicit_only=False, sign_conversions=False)
        have = {(x.key(), x.site) for x in run.obligations}
        obs = [o for o in obs if "accumulation in" not in o.required and (o.key(), o.site) not in have]
        for o in obs:
            if o.key() in {x.key() for x in run.obligations}:
                o.instance += "@implicit"
        run.add(obs)
        ni += len(obs)
    run.floor("R-NARROW(implicit, PrepareHeader)", ni, 3)
    obs, k = c14.r_narrow_prefix(F, S)
    run.add(obs)
    run.floor("prefix-casts", k, 9)
    chain = vol_block_length_chain(F, S)
    run.add(chain)
    run.add(vol_offsets(F, S, size_chain_ok=all(o.status == "discharged" for o in chain)))
    run.add(vol_refuse_before_create(F, S))
    _on, _nn = no_delete_on_refusal(F, S)
    run.add(_on)
    _fx = [f for f in F.fixture_functions.values() if f.qn == "fixture::SaveChecked"]
    run.fixture("fixtures/raw_read.cpp: a clean-up handler that deletes the destination and also covers the pre-creation check is reported by R-ORDER",
                bool(_fx) and any(x.status == "violated" for x in no_delete_on_refusal(F, S, roots=_fx)[0]))
    run.add(clm_names(F, S))
    run.add(frame_layers(F, S))

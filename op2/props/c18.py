"""C18 — Serialised bytes and parsed values depend only on the logical input."""
from ..extract import AnalysisBroken
from ..facts import CALLS, CTORS, fmt_term
from ..flow import Engine, Summaries, final_site_facts
from ..report import ok, bad
from ..rules_init import leaves, ctor_defined, ctor_cover, local_defined, r_init_local, member_path, fmt_paths, is_repo_record
from ..rules_layout import r_layout, spec
from ..rules_seq import Tracer
from ..rules_sib import P, returns
from ..rules_stream import is_store
from .seqdefs import writers
from . import c19

DECLINED = [
    "independence from path spelling (inside std::filesystem) and the cross-process comparison itself",
    "container *elements* that the caller supplies (tiles, mappings, image metadata): their definedness is the caller's; only the "
    "library's own producers of serialised records are analysed",
    "the copy buffer of Writer::Write(Reader&): only the first `count` bytes returned by ReadPartial are forwarded (shape checked in C14)",
]

# classes a user can default-construct and hand to a serialiser
CLASS_LEVEL = {"OP2Utility::Map", "OP2Utility::ArtFile"}

READER_FILES = ("/Map/MapReader.cpp", "/Sprite/ArtReader.cpp", "/Bitmap/IndexedBmpReader.cpp", "/Sprite/TilesetLoader.cpp",
                "/Archive/VolFile.cpp", "/Archive/ClmFile.cpp", "/Archive/WaveFile.cpp", "/Sprite/TilesetHeaders.cpp",
                "/Sprite/PaletteHeader.cpp", "/Bitmap/ImageHeader.cpp", "/Bitmap/BmpHeader.cpp", "/Bitmap/BitmapFile.cpp", "/Map/MapWriter.cpp")


def var_decl(fn, var):
    for nd in fn.nodes:
        if nd["k"] == "DeclStmt":
            for d in nd.get("decls", []):
                if ("var", d.get("n"), d.get("d")) == var:
                    return nd, d
    for p in fn.params:
        if ("var", p["n"], p["d"]) == var:
            return None, p
    return None, None


def returned_defined(F, S, fn, label=None):
    """A function returning a repo record by value returns a fully defined object."""
    out = []
    rr = fn.d.get("ret_rec")
    if not rr or not is_repo_record(F, rr) or (fn.d.get("ret_ct") or "").endswith("&"):
        return out
    for r in returns(fn):
        v = fn.strip(r["value"])
        t = fn.term(r["value"])
        inst0 = label or fn.qn
        if t[0] == "var":
            nd, d = var_decl(fn, t)
            if nd is None:
                continue
            out.append(r_init_local(F, S, fn, t, rr, r["id"], inst0 + "#return", "it is returned"))
        elif fn.n(v)["k"] == "InitListExpr":
            n_explicit = len([k for k in fn.kids(v) if fn.n(k)["k"] != "ImplicitValueInitExpr"])
            nf = len(F.records[rr]["fields"])
            inst = "%s#return:aggregate" % inst0
            # value-initialised trailing members are zero: defined
            out.append(ok("R-INIT", inst, fn.loc(r["id"]), fn.qn, "the returned aggregate defines every field", "%d explicit of %d, rest value-initialised" % (n_explicit, nf)))
        elif t[0] == "ctor":
            nd0 = fn.n(v)
            cal = [x for x in F.callees(nd0) if x.d.get("ctor")]
            d = ctor_cover(F, cal[0]) if cal else ctor_defined(F, rr)
            missing = set(leaves(F, rr)) - d
            inst = "%s#return:ctor" % inst0
            if nd0.get("copy_or_move") or nd0.get("zero_init") or nd0.get("list_init") or not missing:
                out.append(ok("R-INIT", inst, fn.loc(r["id"]), fn.qn, "the returned temporary defines every field", "constructor initialises all leaves"))
            else:
                out.append(bad("R-INIT", inst, fn.loc(r["id"]), fn.qn, "the returned temporary defines every field", "constructor leaves undefined: %s" % fmt_paths(missing)))
    return out


def write_sites(F, S):
    """Every value handed to Writer::Write on the seven serialisation paths is fully defined."""
    out = []
    n = 0
    seen = set()
    for name, (wf, ws, roots) in sorted(writers(F).items()):
        tr = Tracer(F, roots)
        tr.trace(wf, ws)
        for (fn, c, toks) in tr.prim_sites:
            if (fn.key, c["id"]) in seen or not c.get("args"):
                continue
            seen.add((fn.key, c["id"]))
            a_id = c["args"][0]
            t = fn.term(a_id)
            targs = c.get("targs") or []
            rec = targs[0].get("record") if len(targs) == 1 else None
            label = "%s:%s" % (name, fn.name)
            if t[0] == "var":
                nd, d = var_decl(fn, t)
                if nd is None:
                    continue        # parameter: the caller's object
                n += 1
                if rec and is_repo_record(F, rec):
                    out.append(r_init_local(F, S, fn, t, rec, c["id"], label, "it is written"))
                else:
                    # scalar local: must have an initialiser or a dominating store / out-parameter fill
                    dd = local_defined(F, S, fn, t, "<scalar>", c["id"])
                    has_init = "init" in d
                    inst = "%s#init:%s" % (label, t[1])
                    if has_init or dd:
                        out.append(ok("R-INIT", inst, fn.loc(c["id"]), fn.qn, "the local `%s` is assigned before it is written" % t[1], "initialised / assigned on every path", nontrivial=False))
                    else:
                        out.append(bad("R-INIT", inst, fn.loc(c["id"]), fn.qn, "the local `%s` is assigned before it is written" % t[1], "no initialiser and no dominating assignment"))
            elif t[0] == "ctor" and rec and is_repo_record(F, rec):
                n += 1
                x0 = fn.strip(a_id, casts=False)
                while fn.n(x0)["k"] in ("CXXFunctionalCastExpr", "ImplicitCastExpr") and fn.kids(x0):
                    x0 = fn.strip(fn.kids(x0)[0], casts=False)
                nd0 = fn.n(x0)
                missing = set(leaves(F, rec)) - ctor_defined(F, rec)
                # a constructor call with arguments: look at that constructor's own initialiser list
                inst = "%s#temp:%s" % (label, rec.split("::")[-1])
                cal = [x for x in F.callees(nd0) if x.d.get("ctor")]
                cov = ctor_cover(F, cal[0]) if cal else set()
                if nd0.get("zero_init") or nd0.get("copy_or_move"):
                    cov = set(leaves(F, rec))
                missing = set(leaves(F, rec)) - cov
                if not missing:
                    out.append(ok("R-INIT", inst, fn.loc(c["id"]), fn.qn, "the temporary written is fully defined by its constructor", "every leaf in the initialiser list"))
                else:
                    out.append(bad("R-INIT", inst, fn.loc(c["id"]), fn.qn, "the temporary written is fully defined by its constructor", "undefined: %s" % fmt_paths(missing)))
            elif t[0] == "call" and rec and is_repo_record(F, rec):
                n += 1
                cal = [x for x in F.callees(fn.n(fn.strip(a_id))) if x.cfg]
                inst = "%s#factory:%s" % (label, t[1].split("::")[-1])
                sub = []
                for x in cal:
                    sub += returned_defined(F, S, x)
                if sub and all(o.status == "discharged" for o in sub):
                    out.append(ok("R-INIT", inst, fn.loc(c["id"]), fn.qn, "the record written comes from a factory whose result is fully defined", t[1].split("::")[-1]))
                else:
                    out.append(bad("R-INIT", inst, fn.loc(c["id"]), fn.qn, "the record written comes from a factory whose result is fully defined",
                                   "; ".join(o.detail for o in sub if o.status != "discharged") or "factory body not analysable"))
            elif t[0] == "mem":
                # member of the object being serialised: every constructor of its class must define it
                root = t
                path = []
                while root[0] == "mem":
                    path.append(root[2])
                    root = root[1]
                path = tuple(reversed(path))
                cls = None
                if root == ("this",):
                    cls = fn.cls
                elif root[0] == "var":
                    nd, d = var_decl(fn, root)
                    cls = d.get("rec") if d else None
                if not cls or cls not in CLASS_LEVEL or any("[" in p for p in path):
                    continue        # container elements and internal scratch structures: see DECLINED
                n += 1
                allv = [p for p in leaves(F, cls) if p[:len(path)] == path]
                if not allv:
                    continue
                missing = set(allv) - ctor_defined(F, cls)
                inst = "%s#member:%s::%s" % (name, cls.split("::")[-1], ".".join(path))
                req = "every constructor of %s gives the serialised member %s a defined value" % (cls.split("::")[-1], ".".join(path))
                if not missing:
                    out.append(ok("R-INIT", inst, fn.loc(c["id"]), fn.qn, req, "initialised by every constructor / default member initialiser"))
                else:
                    out.append(bad("R-INIT", inst, fn.loc(c["id"]), fn.qn, req, "left indeterminate by a constructor: %s" % fmt_paths(missing)))
    return out, n


def zero_filled_names(F, S):
    """CLM index entries start value-initialised and the name copy covers the whole field width."""
    out = []
    ca = F.fn("OP2Utility::Archive::ClmFile::CreateArchive", nparams=2)
    ok_decl = False
    for nd in ca.nodes:
        if nd["k"] == "DeclStmt":
            for d in nd.get("decls", []):
                if d.get("n") == "indexEntries" and "init" in d:
                    ini = ca.n(ca.strip(d["init"], casts=False))
                    t = ca.term(d["init"])
                    ok_decl = t[0] == "ctor" and len(t[2]) >= 1 and t[2][0][0] == "size" and not ini.get("list_init")
    inst = "OP2Utility::Archive::ClmFile::CreateArchive#index-value-initialised"
    if ok_decl:
        out.append(ok("R-INIT", inst, ca.loc(ca.body), ca.qn, "the CLM index is created as vector<IndexEntry>(n): every entry zero-initialised (names zero-filled)", "value-initialising constructor"))
    else:
        out.append(bad("R-INIT", inst, ca.loc(ca.body), ca.qn, "the CLM index is created as vector<IndexEntry>(n): every entry zero-initialised (names zero-filled)", "declaration shape not found"))
    pi = F.fn("OP2Utility::Archive::ClmFile::PrepareIndex", nparams=3)
    calls = [nd for nd in pi.nodes if nd["k"] in CALLS and nd.get("fname") in ("strncpy", "memcpy", "strcpy", "copy")]
    inst = "OP2Utility::Archive::ClmFile::PrepareIndex#name-copy"
    req = "the name is copied with strncpy over the full 8-byte field (zero padding, never reading past the name's terminator)"
    if len(calls) == 1 and calls[0]["fname"] == "strncpy" and pi.term(calls[0]["args"][2]) == ("const", 8):
        out.append(ok("R-INIT", inst, pi.loc(calls[0]["id"]), pi.qn, req, "strncpy(field, name, 8)"))
    else:
        out.append(bad("R-INIT", inst, pi.loc(pi.body), pi.qn, req, "copy primitive: %s" % [c.get("fname") for c in calls]))
    # each entry's offset is assigned in the same loop
    st = {pi.term(pi.kids(nd["id"])[0])[2] for nd in pi.nodes if is_store(nd) and pi.term(pi.kids(nd["id"])[0])[0] == "mem"}
    inst = "OP2Utility::Archive::ClmFile::PrepareIndex#offsets-assigned"
    if "dataOffset" in st:
        out.append(ok("R-INIT", inst, pi.loc(pi.body), pi.qn, "every entry's dataOffset is assigned", "store in the per-entry loop", nontrivial=False))
    else:
        out.append(bad("R-INIT", inst, pi.loc(pi.body), pi.qn, "every entry's dataOffset is assigned", "no store"))
    return out


def vol_index_entries(F, S):
    """Recorded exemption with re-checked anchors: IndexEntry::dataBlockOffset is assigned for entry 0 and for 1..n-1."""
    ph = F.fn("OP2Utility::Archive::VolFile::PrepareHeader", nparams=2)
    out = []
    # the pushed entry: all fields but dataBlockOffset assigned before push_back
    ent = None
    for nd in ph.nodes:
        if nd["k"] == "DeclStmt":
            for d in nd.get("decls", []):
                if (d.get("rec") or "").endswith("VolFile::IndexEntry") and not d.get("is_ref"):
                    ent = ("var", d["n"], d["d"])
    pb = [nd for nd in ph.nodes if nd["k"] == "CXXMemberCallExpr" and nd.get("fname") == "push_back" and ent and ph.term(nd["args"][0]) == ent]
    if not ent or len(pb) != 1:
        raise AnalysisBroken("PrepareHeader: IndexEntry local / push_back not found")
    rec = "OP2Utility::Archive::VolFile::IndexEntry"
    d = local_defined(F, S, ph, ent, rec, pb[0]["id"])
    missing = set(leaves(F, rec)) - d
    inst = "OP2Utility::Archive::VolFile::PrepareHeader#entry-fields"
    if missing <= {("dataBlockOffset",)}:
        out.append(ok("R-INIT", inst, ph.loc(pb[0]["id"]), ph.qn, "the entry appended has every field assigned except the block offset, which is filled in below", "missing only: %s" % fmt_paths(missing)))
    else:
        out.append(bad("R-INIT", inst, ph.loc(pb[0]["id"]), ph.qn, "the entry appended has every field assigned except the block offset, which is filled in below", "unassigned: %s" % fmt_paths(missing)))
    stores = [nd for nd in ph.nodes if is_store(nd) and ph.term(ph.kids(nd["id"])[0])[0] == "mem" and ph.term(ph.kids(nd["id"])[0])[2] == "dataBlockOffset"]
    idxs = sorted(repr(ph.term(ph.kids(nd["id"])[0])[1][2]) for nd in stores if ph.term(ph.kids(nd["id"])[0])[1][0] == "idx")
    loops = [nd for nd in ph.nodes if nd["k"] == "ForStmt" and any(s["id"] in ph.subtree(nd["body"]) for s in stores)]
    inst = "OP2Utility::Archive::VolFile::PrepareHeader#offset-anchors"
    req = "dataBlockOffset is assigned for indexEntries[0] and, in a loop from 1 to fileCount(), for every later entry (before anything is written)"
    good = len(stores) == 2 and any("('const', 0)" in x for x in idxs) and len(loops) == 1
    if good:
        lp = loops[0]
        d0 = ph.n(lp["init"])["decls"][0]
        good = ph.term(d0["init"]) == ("const", 1) and ph.term(lp["cond"])[0] == "op" and ph.term(lp["cond"])[1] == "<" and "fileCount" in repr(ph.term(lp["cond"]))
    if good:
        out.append(ok("R-INIT", inst, ph.loc(stores[0]["id"]), ph.qn, req, "store for [0] + loop i = 1 .. fileCount()"))
    else:
        out.append(bad("R-INIT", inst, ph.loc(ph.body), ph.qn, req, "%d stores, %d loops" % (len(stores), len(loops))))
    return out


def sort_before_layout(F, S):
    """Output independent of listing order: the inputs are sorted (by the case-insensitive name order) before anything is derived."""
    out = []
    for cls in ("OP2Utility::Archive::VolFile", "OP2Utility::Archive::ClmFile"):
        fn = F.fn(cls + "::CreateArchive", nparams=2)
        files = P(fn, 1)
        sorts = [nd for nd in fn.nodes if nd["k"] in CALLS and (nd.get("fq") or "") == "std::sort"]
        inst = cls + "::CreateArchive#sorted-first"
        req = "std::sort(filesToPack, ComparePathFilenames) precedes every other use of the input list"
        good = len(sorts) == 1
        if good:
            a = [fn.term(x) for x in sorts[0]["args"]]
            good = len(a) == 3 and a[0] == ("call", "std::vector::begin", files, ()) or (len(a) == 3 and "begin" in repr(a[0]) and files in (a[0][2],))
            good = good and a[2] == ("func", [f.key for f in F.fns("OP2Utility::Archive::ArchiveFile::ComparePathFilenames")][0])
            uses = [nd["id"] for nd in fn.nodes if nd["k"] == "DeclRefExpr" and ("var", nd.get("n"), nd.get("d")) == files]
            first_other = min([u for u in uses if u not in fn.subtree(sorts[0]["id"])] or [10 ** 9])
            good = good and sorts[0]["id"] < first_other
        if good:
            out.append(ok("R-MUSTCALL", inst, fn.loc(sorts[0]["id"]), fn.qn, req, "sort is the first use of the list"))
        else:
            out.append(bad("R-MUSTCALL", inst, fn.loc(fn.body), fn.qn, req, "sort missing, with another comparator, or not first"))
    return out


def check(F, run, tier):
    S = Summaries(F)
    run.declined = DECLINED
    run.explanation = (
        "Field-sensitive definite-initialisation analysis (R-INIT) over the seven serialisation paths and the parsers: every "
        "value handed to Writer::Write is traced (same call-graph walk as R-SEQ) and classified: a local record must have "
        "every leaf field assigned on every path before the write (dominating stores, reads, aggregate or constructor "
        "initialisation); a temporary must be fully defined by its constructor; a factory result must be a fully defined "
        "return; a member of the object being serialised must be defined by every constructor of its class. Functions that "
        "return a record by value return a fully defined object. R-NOPAD: no serialised record has padding bits. CLM names "
        "are zero-filled (value-initialised index, strncpy over the full field); VOL block offsets are assigned for every "
        "entry (recorded exemption with re-checked anchors); the input list is sorted before anything is derived from it, by "
        "the comparator whose shape C19 checks.")
    obs, n = write_sites(F, S)
    run.add(obs)
    run.floor("write-sites", n, 30)
    # parser / factory results
    k = 0
    for fn in sorted(F.functions.values(), key=lambda f: f.key):
        if any(x in fn.file for x in READER_FILES) and fn.cfg and not fn.d.get("implicit"):
            o = returned_defined(F, S, fn)
            run.add(o)
            k += len(o)
    run.floor("returned-records", k, 15)
    if tier == "thorough":
        k2 = 0
        for fn in sorted(F.functions.values(), key=lambda f: f.key):
            if fn.cfg and not fn.d.get("implicit") and not any(x in fn.file for x in READER_FILES):
                o = returned_defined(F, S, fn)
                run.add(o)
                k2 += len(o)
        run.extra["thorough_returned_records_outside_anchor_files"] = k2
    # user-constructible serialisable classes: every constructor defines every scalar member
    for cls in sorted(CLASS_LEVEL):
        missing = set(leaves(F, cls)) - ctor_defined(F, cls)
        r = F.record(cls)
        inst = "%s#every-ctor-defines-all" % cls
        site = "%s:%s" % (r["loc"]["file"].split("/")[-1], r["loc"]["line"])
        if not missing:
            run.add(ok("R-INIT", inst, site, cls, "every constructor of %s (including the implicit one) leaves every member defined" % cls.split("::")[-1],
                       "%d leaf members" % len(leaves(F, cls))))
        else:
            run.add(bad("R-INIT", inst, site, cls, "every constructor of %s (including the implicit one) leaves every member defined" % cls.split("::")[-1],
                        "indeterminate after construction: %s" % fmt_paths(missing)))
    sp = spec()
    run.add([o for o in r_layout(F, records=list(sp["records"])) if o.rule == "R-NOPAD"])
    from . import c04
    run.add(c04.window_initialised(F, S))
    run.add(zero_filled_names(F, S))
    run.add(vol_index_entries(F, S))
    run.add(sort_before_layout(F, S))
    run.add(c19.compare_path_filenames(F))
    run.add(c19.duplicate_scan(F))

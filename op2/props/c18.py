"""C18 — Serialised bytes and parsed values depend only on the logical input."""
from ..extract import AnalysisBroken
from ..facts import CALLS, CTORS, fmt_term
from ..flow import Engine, Summaries, final_site_facts
from ..report import ok, bad
from ..rules_init import leaves, ctor_defined, ctor_cover, local_defined, r_init_local, member_path, fmt_paths, is_repo_record
from ..rules_layout import r_layout, spec
from ..rules_seq import Tracer
from ..rules_sib import P, returns
from ..rules_stream import is_store
from .seqdefs import writers
from . import c19

DECLINED = [
    "independence from path spelling (inside std::filesystem) and the cross-process comparison itself",
    "container *elements* that the caller supplies (tiles, mappings, image metadata): their definedness is the caller's; only the "
    "library's own producers of serialised records are analysed",
    "the copy buffer of Writer::Write(Reader&): only the first `count` bytes returned by ReadPartial are forwarded (shape checked in C14)",
]

# classes a user can default-construct and hand to a serialiser
CLASS_LEVEL = {"OP2Utility::Map", "OP2Utility::ArtFile"}

READER_FILES = ("/Map/MapReader.cpp", "/Sprite/ArtReader.cpp", "/Bitmap/IndexedBmpReader.cpp", "/Sprite/TilesetLoader.cpp",
                "/Archive/VolFile.cpp", "/Archive/ClmFile.cpp", "/Archive/WaveFile.cpp", "/Sprite/TilesetHeaders.cpp",
                "/Sprite/PaletteHeader.cpp", "/Bitmap/ImageHeader.cpp", "/Bitmap/BmpHeader.cpp", "/Bitmap/BitmapFile.cpp", "/Map/MapWriter.cpp")


def var_decl(fn, var):
    for nd in fn.nodes:
        if nd["k"] == "DeclStmt":
            for d in nd.get("decls", []):
                if ("var", d.get("n"), d.get("d")) == var:
                    return nd, d
    for p in fn.params:
        if ("var", p["n"], p["d"]) == var:
            return None, p
    return None, None


def returned_defined(F, S, fn, label=None):
    """A function returning a repo record by value returns a fully defined object."""
    out = []
    rr = fn.d.get("ret_rec")
    if not rr or not is_repo_record(F, rr) or (fn.d.get("ret_ct") or "").endswith("&"):
        return out
    for r in returns(fn):
        v = fn.strip(r["value"])
        t = fn.term(r["value"])
        inst0 = label or fn.qn
        if t[0] == "var":
            nd, d = var_decl(fn, t)
            if nd is None:
                continue
            out.append(r_init_local(F, S, fn, t, rr, r["id"], inst0 + "#return", "it is returned"))
        elif fn.n(v)["k"] == "InitListExpr":
            n_explicit = len([k for k in fn.kids(v) if fn.n(k)["k"] != "ImplicitValueInitExpr"])
            nf = len(F.records[rr]["fields"])
            inst = "%s#return:aggregate" % inst0
            # value-initialised trailing members are zero: defined
            out.append(ok("R-INIT", inst, fn.loc(r["id"]), fn.qn, "the returned aggregate defines every field", "%d explicit of %d, rest value-initialised" % (n_explicit, nf)))
        elif t[0] == "ctor":
            nd0 = fn.n(v)
            cal = [x for x in F.callees(nd0) if x.d.get("ctor")]
            d = ctor_cover(F, cal[0]) if cal else ctor_defined(F, rr)
            missing = set(leaves(F, rr)) - d
            inst = "%s#return:ctor" % inst0
            if nd0.get("copy_or_move") or nd0.get("zero_init") or nd0.get("list_init") or not missing:
                out.append(ok("R-INIT", inst, fn.loc(r["id"]), fn.qn, "the returned temporary defines every field", "constructor initialises all leaves"))
            else:
                out.append(bad("R-INIT", inst, fn.loc(r["id"]), fn.qn, "the returned temporary defines every field", "constructor leaves undefined: %s" % fmt_paths(missing)))
    return out


def write_sites(F, S):
    """Every value handed to Writer::Write on the seven serialisation paths is fully defined."""
    out = []
    n = 0
    seen = set()
    for name, (wf, ws, roots) in sorted(writers(F).items()):
        tr = Tracer(F, roots)
        tr.trace(wf, ws)
        for (fn, c, toks) in tr.prim_sites:
            if (fn.key, c["id"]) in seen or not c.get("args"):
                continue
            seen.add((fn.key, c["id"]))
            a_id = c["args"][0]
            t = fn.term(a_id)
            targs = c.get("targs") or []
            rec = targs[0].get("record") if len(targs) == 1 else None
            label = "%s:%s" % (name, fn.name)
            if t[0] == "var":
                nd, d = var_decl(fn, t)
                if nd is None:
                    continue        # parameter: the caller's object
                n += 1
                if rec and is_repo_record(F, rec):
                    out.append(r_init_local(F, S, fn, t, rec, c["id"], label, "it is written"))
                else:
                    # scalar local: must have an initialiser or a dominating store / out-parameter fill
                    dd = local_defined(F, S, fn, t, "<scalar>", c["id"])
                    has_init = "init" in d
                    if has_init:
                        # `std::array<T, N> a;` runs a trivial default constructor: the elements are left indeterminate
                        i0 = fn.n(fn.strip(d["init"], casts=False))
                        if i0.get("k") in CTORS and i0.get("trivial") and i0.get("default_ctor") and not i0.get("zero_init") and not i0.get("list_init"):
                            has_init = False
                            # filled completely by fill() before the write?
                            for x in fn.nodes:
                                if x["k"] == "CXXMemberCallExpr" and x.get("fname") == "fill" and "obj" in x and fn.term(x["obj"]) == t and x["id"] < c["id"]:
                                    has_init = True
                    inst = "%s#init:%s" % (label, t[1])
                    if has_init or dd:
                        out.append(ok("R-INIT", inst, fn.loc(c["id"]), fn.qn, "the local `%s` is assigned before it is written" % t[1], "initialised / assigned on every path", nontrivial=False))
                    else:
                        out.append(bad("R-INIT", inst, fn.loc(c["id"]), fn.qn, "the local `%s` is assigned before it is written" % t[1], "no initialiser and no dominating assignment"))
            elif t[0] == "ctor" and rec and is_repo_record(F, rec):
                n += 1
                x0 = fn.strip(a_id, casts=False)
                while fn.n(x0)["k"] in ("CXXFunctionalCastExpr", "ImplicitCastExpr") and fn.kids(x0):
                    x0 = fn.strip(fn.kids(x0)[0], casts=False)
                nd0 = fn.n(x0)
                missing = set(leaves(F, rec)) - ctor_defined(F, rec)
                # a constructor call with arguments: look at that constructor's own initialiser list
                inst = "%s#temp:%s" % (label, rec.split("::")[-1])
                cal = [x for x in F.callees(nd0) if x.d.get("ctor")]
                cov = ctor_cover(F, cal[0]) if cal else set()
                if nd0.get("zero_init") or nd0.get("copy_or_move"):
                    cov = set(leaves(F, rec))
                missing = set(leaves(F, rec)) - cov
                if not missing:
                    out.append(ok("R-INIT", inst, fn.loc(c["id"]), fn.qn, "the temporary written is fully defined by its constructor", "every leaf in the initialiser list"))
                else:
                    out.append(bad("R-INIT", inst, fn.loc(c["id"]), fn.qn, "the temporary written is fully defined by its constructor", "undefined: %s" % fmt_paths(missing)))
            elif t[0] == "call" and rec and is_repo_record(F, rec):
                n += 1
                cal = [x for x in F.callees(fn.n(fn.strip(a_id))) if x.cfg]
                inst = "%s#factory:%s" % (label, t[1].split("::")[-1])
                sub = []
                for x in cal:
                    sub += returned_defined(F, S, x)
                if sub and all(o.status == "discharged" for o in sub):
                    out.append(ok("R-INIT", inst, fn.loc(c["id"]), fn.qn, "the record written comes from a factory whose result is fully defined", t[1].split("::")[-1]))
                else:
                    out.append(bad("R-INIT", inst, fn.loc(c["id"]), fn.qn, "the record written comes from a factory whose result is fully defined",
                                   "; ".join(o.detail for o in sub if o.status != "discharged") or "factory body not analysable"))
            elif t[0] == "mem":
                # member of the object being serialised: every constructor of its class must define it
                root = t
                path = []
                while root[0] == "mem":
                    path.append(root[2])
                    root = root[1]
                path = tuple(reversed(path))
                cls = None
                if root == ("this",):
                    cls = fn.cls
                elif root[0] == "var":
                    nd, d = var_decl(fn, root)
                    cls = d.get("rec") if d else None
                if not cls or cls not in CLASS_LEVEL or any("[" in p for p in path):
                    continue        # container elements and internal scratch structures: see DECLINED
                n += 1
                allv = [p for p in leaves(F, cls) if p[:len(path)] == path]
                if not allv:
                    continue
                missing = set(allv) - ctor_defined(F, cls)
                inst = "%s#member:%s::%s" % (name, cls.split("::")[-1], ".".join(path))
                req = "every constructor of %s gives the serialised member %s a defined value" % (cls.split("::")[-1], ".".join(path))
                if not missing:
                    out.append(ok("R-INIT", inst, fn.loc(c["id"]), fn.qn, req, "initialised by every constructor / default member initialiser"))
                else:
                    out.append(bad("R-INIT", inst, fn.loc(c["id"]), fn.qn, req, "left indeterminate by a constructor: %s" % fmt_paths(missing)))
    return out, n


def zero_filled_names(F, S):
    """CLM index entries start value-initialised and the name copy covers the whole field width."""
    out = []
    ca = F.fn("OP2Utility::Archive::ClmFile::CreateArchive", nparams=2)
    ok_decl = False
    for nd in ca.nodes:
        if nd["k"] == "DeclStmt":
            for d in nd.get("decls", []):
                if (d.get("rec") or "").startswith("std::vector<OP2Utility::Archive::ClmFile::IndexEntry") and "init" in d:
                    ini = ca.n(ca.strip(d["init"], casts=False))
                    t = ca.term(d["init"])
                    a0 = t[2][0] if t[0] == "ctor" and len(t[2]) >= 1 else None
                    if a0 is not None and a0[0] == "var":
                        a0 = ca.through_locals_at(a0, nd["id"])       # (the count may have been named first)
                    ok_decl = a0 is not None and a0[0] == "size" and not ini.get("list_init")
    inst = "OP2Utility::Archive::ClmFile::CreateArchive#index-value-initialised"
    if ok_decl:
        out.append(ok("R-INIT", inst, ca.loc(ca.body), ca.qn, "the CLM index is created as vector<IndexEntry>(n): every entry zero-initialised (names zero-filled)", "value-initialising constructor"))
    else:
        out.append(bad("R-INIT", inst, ca.loc(ca.body), ca.qn, "the CLM index is created as vector<IndexEntry>(n): every entry zero-initialised (names zero-filled)", "declaration shape not found"))
    pi = F.fn("OP2Utility::Archive::ClmFile::PrepareIndex", nparams=3)
    calls = [nd for nd in pi.nodes if nd["k"] in CALLS and nd.get("fname") in ("strncpy", "memcpy", "strcpy", "copy")]
    inst = "OP2Utility::Archive::ClmFile::PrepareIndex#name-copy"
    req = "the name is copied with strncpy over the full 8-byte field (zero padding, never reading past the name's terminator)"
    if len(calls) == 1 and calls[0]["fname"] == "strncpy" and pi.term(calls[0]["args"][2]) == ("const", 8):
        out.append(ok("R-INIT", inst, pi.loc(calls[0]["id"]), pi.qn, req, "strncpy(field, name, 8)"))
    else:
        out.append(bad("R-INIT", inst, pi.loc(pi.body), pi.qn, req, "copy primitive: %s" % [c.get("fname") for c in calls]))
    # each entry's offset is assigned in the same loop
    st = {pi.term(pi.kids(nd["id"])[0])[2] for nd in pi.nodes if is_store(nd) and pi.term(pi.kids(nd["id"])[0])[0] == "mem"}
    inst = "OP2Utility::Archive::ClmFile::PrepareIndex#offsets-assigned"
    if "dataOffset" in st:
        out.append(ok("R-INIT", inst, pi.loc(pi.body), pi.qn, "every entry's dataOffset is assigned", "store in the per-entry loop", nontrivial=False))
    else:
        out.append(bad("R-INIT", inst, pi.loc(pi.body), pi.qn, "every entry's dataOffset is assigned", "no store"))
    return out


def vol_index_entries(F, S):
    """Recorded exemption with re-checked anchors: IndexEntry::dataBlockOffset is assigned for entry 0 and for 1..n-1."""
    ph = F.fn("OP2Utility::Archive::VolFile::PrepareHeader", nparams=2)
    out = []
    # the pushed entry: all fields but dataBlockOffset assigned before push_back
    from ..through import entry_producer
    ep = entry_producer(F, ph)
    if ep is None:
        raise AnalysisBroken("PrepareHeader: IndexEntry local / push_back not found")
    pb = [ep["push"]]
    rec = "OP2Utility::Archive::VolFile::IndexEntry"
    d = local_defined(F, S, ep["host"], ep["ent"], rec, ep["use"])
    missing = set(leaves(F, rec)) - d
    inst = "OP2Utility::Archive::VolFile::PrepareHeader#entry-fields"
    if missing <= {("dataBlockOffset",)}:
        out.append(ok("R-INIT", inst, ph.loc(pb[0]["id"]), ph.qn, "the entry appended has every field assigned except the block offset, which is filled in below", "missing only: %s" % fmt_paths(missing)))
    else:
        out.append(bad("R-INIT", inst, ph.loc(pb[0]["id"]), ph.qn, "the entry appended has every field assigned except the block offset, which is filled in below", "unassigned: %s" % fmt_paths(missing)))
    # the offsets may be laid out in a helper PrepareHeader is split into
    from ..through import closure
    ph_entry = ph
    hosts = [f for f in closure(F, ph) if any(is_store(nd) and f.term(f.kids(nd["id"])[0])[0] == "mem" and f.term(f.kids(nd["id"])[0])[2] == "dataBlockOffset" for nd in f.nodes)]
    if len(hosts) == 1:
        ph = hosts[0]
    stores = [nd for nd in ph.nodes if is_store(nd) and ph.term(ph.kids(nd["id"])[0])[0] == "mem" and ph.term(ph.kids(nd["id"])[0])[2] == "dataBlockOffset"]
    idxs = sorted(repr(ph.term(ph.kids(nd["id"])[0])[1][2]) for nd in stores if ph.term(ph.kids(nd["id"])[0])[1][0] == "idx")
    loops = [nd for nd in ph.nodes if nd["k"] == "ForStmt" and any(s["id"] in ph.subtree(nd["body"]) for s in stores)]
    inst = "OP2Utility::Archive::VolFile::PrepareHeader#offset-anchors"
    req = "dataBlockOffset is assigned for indexEntries[0] and, in a loop from 1 to fileCount(), for every later entry (before anything is written)"
    good = len(stores) == 2 and any("('const', 0)" in x for x in idxs) and len(loops) == 1
    if good:
        lp = loops[0]
        d0 = ph.n(lp["init"])["decls"][0]
        vi = [("var", p["n"], p["d"]) for p in ph.params if "CreateVolumeInfo" in (p.get("ct") or "")][0]
        ct = ph.term(lp["cond"])
        good = ph.term(d0["init"]) == ("const", 1) and ct[0] == "op" and ct[1] == "<" and \
            ct[3] == F.method_value("OP2Utility::Archive::VolFile::CreateVolumeInfo::fileCount", vi)
    if good:
        out.append(ok("R-INIT", inst, ph.loc(stores[0]["id"]), ph.qn, req, "store for [0] + loop i = 1 .. fileCount()"))
    else:
        out.append(bad("R-INIT", inst, ph.loc(ph.body), ph.qn, req, "%d stores, %d loops" % (len(stores), len(loops))))
    return out


def sort_before_layout(F, S):
    """Output independent of listing order: the inputs are sorted (by the case-insensitive name order) before anything is derived."""
    out = []
    for cls in ("OP2Utility::Archive::VolFile", "OP2Utility::Archive::ClmFile"):
        fn = F.fn(cls + "::CreateArchive", nparams=2)
        files = P(fn, 1)
        sorts = [nd for nd in fn.nodes if nd["k"] in CALLS and (nd.get("fq") or "") == "std::sort"]
        inst = cls + "::CreateArchive#sorted-first"
        req = "std::sort(filesToPack, ComparePathFilenames) precedes every other use of the input list"
        good = len(sorts) == 1
        if good:
            a = [fn.term(x) for x in sorts[0]["args"]]
            # the list may first be handed over whole to the place it is kept in (`info.files = std::move(files);`): that
            # place is then what must be sorted before anything is derived from it
            home = None
            transfer = set()
            for nd in fn.nodes:
                if nd["k"] == "CXXOperatorCallExpr" and nd.get("op") == "=" and len(nd.get("args", [])) == 2 and nd["id"] < sorts[0]["id"]:
                    r = fn.term(nd["args"][1])
                    while r[0] == "ctor" and len(r[2]) == 1:
                        r = r[2][0]
                    if r == files or r == ("call", "std::move", None, (files,)):
                        home = fn.term(nd["args"][0])
                        transfer = set(fn.subtree(nd["id"]))
            rng = a[0][2] if len(a) == 3 and a[0][0] == "call" and a[0][1].split("::")[-1] == "begin" else None
            good = len(a) == 3 and rng is not None and rng in (files, home) and a[1] == ("call", a[0][1][:-len("begin")] + "end", rng, ())
            good = good and a[2] == ("func", [f.key for f in F.fns("OP2Utility::Archive::ArchiveFile::ComparePathFilenames")][0])
            in_sort = set(fn.subtree(sorts[0]["id"]))
            ref_inits = set()
            for nd in fn.nodes:
                if nd["k"] == "DeclStmt":
                    for d in nd.get("decls", []):
                        if d.get("is_ref") and "init" in d:
                            ref_inits |= set(fn.subtree(d["init"]))      # binding a reference reads nothing
            uses = [nd["id"] for nd in fn.nodes if nd["id"] not in in_sort and nd["id"] not in transfer and nd["id"] not in ref_inits and
                    ((nd["k"] == "DeclRefExpr" and ("var", nd.get("n"), nd.get("d")) == files) or
                     (home is not None and rng == home and nd["k"] in ("MemberExpr", "DeclRefExpr") and fn.term(nd["id"]) == home))]
            first_other = min(uses or [10 ** 9])
            good = good and sorts[0]["id"] < first_other
        if good:
            out.append(ok("R-MUSTCALL", inst, fn.loc(sorts[0]["id"]), fn.qn, req, "sort is the first use of the list"))
        else:
            out.append(bad("R-MUSTCALL", inst, fn.loc(fn.body), fn.qn, req, "sort missing, with another comparator, or not first"))
    return out


def element_record(F, mrec):
    """Repo record that is the element type of container type `mrec` (through std::array / nested vector), or None."""
    t = mrec or ""
    while True:
        t = t.strip()
        for pre in ("std::vector<", "std::array<"):
            if t.startswith(pre) and t.endswith(">"):
                inner = t[len(pre):-1]
                if pre == "std::array<":
                    inner = inner.rsplit(",", 1)[0]
                t = inner
                break
        else:
            break
    return t if is_repo_record(F, t) else None


def value_initialised_elements(F):
    """Parsers size their containers with resize(n) / vector<T>(n) and then fill the elements field by field, some fields only
    conditionally: what the fill skips is whatever value-initialisation `T()` left there. For a class without a user-provided
    default constructor that is zero; a user-provided default constructor must itself define every leaf."""
    out = []
    seen = {}
    for fn in sorted(F.functions.values(), key=lambda f: f.key):
        if not fn.cfg or fn.d.get("implicit") or fn.key in F.fixture_functions:
            continue
        for nd in fn.nodes:
            rec = None
            if nd["k"] == "CXXMemberCallExpr" and nd.get("fname") == "resize" and len(nd.get("args", [])) == 1:
                rec = element_record(F, nd.get("mrec"))
            elif nd["k"] in CTORS and (nd.get("ct") or "").startswith("std::vector<") and len(nd.get("args", [])) == 1 \
                    and fn.n(fn.strip(nd["args"][0])).get("iw"):
                rec = element_record(F, nd.get("ct"))
            if rec:
                seen.setdefault(rec, []).append((fn, nd))
    for rec, sites in sorted(seen.items()):
        fn, nd = sites[0]
        r = F.record(rec)
        inst = "%s#value-initialised-element" % rec
        req = "elements of %s created by resize(n)/vector(n) start fully defined (zero-initialised, or set by the default constructor)" % rec.split("::")[-1]
        if not r.get("has_user_provided_default_ctor"):
            out.append(ok("R-INIT", inst, fn.loc(nd["id"]), fn.qn, req, "no user-provided default constructor: value-initialisation zero-initialises every member", nontrivial=False))
            continue
        dc = [c for c in F.functions.values() if c.cls == rec and c.d.get("ctor") and c.d.get("default_ctor") and not c.d.get("implicit")]
        cov = ctor_cover(F, dc[0]) if dc else set()
        missing = set(leaves(F, rec)) - cov
        if missing:
            # sites whose elements are overwritten wholesale by a raw container read straight after do not depend on T()
            left = []
            for (f2, n2) in sites:
                obj = f2.term(n2["obj"]) if "obj" in n2 else None
                filled = obj is not None and any(
                    c["k"] in CALLS and c.get("fname") in ("Read", "ReadImplementation") and c["id"] > n2["id"] and c.get("args")
                    and f2.term(c["args"][0]) in (obj, ("call", "std::vector::data", obj, ()), ("data", obj)) for c in f2.nodes)
                if not filled:
                    left.append((f2, n2))
            if not left:
                out.append(ok("R-INIT", inst, fn.loc(nd["id"]), fn.qn, req, "every sized container of this type is overwritten wholesale by a raw read"))
                continue
            fn, nd = left[0]
        if not missing:
            out.append(ok("R-INIT", inst, fn.loc(nd["id"]), fn.qn, req, "the user-provided default constructor initialises every leaf"))
        else:
            out.append(bad("R-INIT", inst, fn.loc(nd["id"]), fn.qn, req,
                           "the user-provided default constructor of %s leaves undefined: %s (value-initialisation no longer zeroes them)" % (rec.split("::")[-1], fmt_paths(missing))))
    return out


def field_definitions(F, rec):
    """{field: value term} for fields of the scratch structure `rec` that exactly one plain store (outside any loop) defines,
    in the functions of the class it belongs to. The value is re-rooted at a neutral object term ("obj", rec)."""
    owner = rec.rsplit("::", 1)[0]
    stores = {}
    for fn in F.functions.values():
        if not fn.cfg or not (fn.cls or "").startswith(owner):
            continue
        roots = {("var", p["n"], p["d"]) for p in fn.params if p.get("record") == rec or (p.get("rec") == rec)}
        for nd in fn.nodes:
            if nd["k"] == "DeclStmt":
                for d in nd.get("decls", []):
                    if d.get("rec") == rec:
                        roots.add(("var", d["n"], d["d"]))
        if not roots:
            continue
        loops = [fn.subtree(l["id"]) for l in fn.nodes if l["k"] in ("ForStmt", "WhileStmt", "DoStmt", "CXXForRangeStmt")]
        for nd in fn.nodes:
            if not is_store(nd):
                continue
            ks = fn.kids(nd["id"])
            l = fn.term(ks[0])
            if l[0] == "mem" and l[1] in roots:
                plain = nd["k"] == "BinaryOperator" and nd.get("op") == "=" and not any(nd["id"] in lp for lp in loops)
                stores.setdefault(l[2], []).append((fn, nd, l[1], plain))
    out = {}
    for f, sts in stores.items():
        plains = [x for x in sts if x[3]]
        if len(plains) != 1:
            continue
        # an accumulator (`= 0` then `+=` in a loop) has no closed definition
        if len(sts) != 1:
            continue
        fn, nd, root, _ = plains[0]
        out[f] = reroot(fn.term(fn.kids(nd["id"])[1]), root, ("obj", rec))
    return out


def reroot(t, old, new):
    if t == old:
        return new
    if isinstance(t, tuple):
        return tuple(reroot(x, old, new) if isinstance(x, tuple) else x for x in t)
    return t


def upper_linear(t):
    """A term that is >= t over the unsigned integers and friendlier to linear normalisation: x & m <= x."""
    if isinstance(t, tuple) and t and t[0] == "op" and t[1] == "&":
        if t[3][0] in ("const", "un") or (t[3][0] == "op" and t[3][1] == "~"):
            return upper_linear(t[2])
    if isinstance(t, tuple) and t and t[0] == "op" and t[1] == "+":
        return ("op", "+", upper_linear(t[2]), upper_linear(t[3]))
    if isinstance(t, tuple) and t and t[0] == "op" and t[1] == "-":
        return ("op", "-", upper_linear(t[2]), t[3])          # the subtrahend is kept exact
    return t


def raw_write_extents(F, S):
    """Every Write(pointer, n) on a serialisation path forwards only bytes of the object the pointer addresses:
    n <= extent(object). Bytes beyond it are whatever the heap or the stack holds there."""
    from ..rules_stream import linear
    from ..prove import upper_const
    out = []
    n_sites = 0
    seen = set()
    for name, (wf, ws, roots) in sorted(writers(F).items()):
        tr = Tracer(F, roots)
        tr.trace(wf, ws)
        for (fn, c, toks) in tr.prim_sites:
            a = c.get("args", [])
            if len(a) != 2 or not (c.get("params") or [{}])[0].get("ptr") or (fn.key, c["id"]) in seen:
                continue
            seen.add((fn.key, c["id"]))
            n_sites += 1
            pt = fn.term(a[0])
            nt = fn.xterm(a[1])
            inst = "%s:%s#extent:%s,%s" % (name, fn.name, fmt_term(pt), fmt_term(nt))
            req = "the byte count %s does not exceed the extent of %s" % (fmt_term(nt), fmt_term(pt))
            site = fn.loc(c["id"])
            ext = None
            what = ""
            pn = fn.n(fn.strip(a[0]))
            if pt[0] == "un" and pt[1] == "&" and pt[2][0] == "var":
                nd, d = var_decl(fn, pt[2])
                sz = (d or {}).get("size_bits") or ((d or {}).get("iw"))
                if sz:
                    ext, what = ("const", sz // 8), "sizeof(%s) = %d" % (pt[2][1], sz // 8)
            elif pt[0] == "str" or pn.get("k") == "StringLiteral":
                ln = pn.get("len")
                if ln is None and pt[0] == "str":
                    ln = len(pt[1])
                if ln is not None:
                    ext, what = ("const", ln + 1), "string literal of %d bytes with its terminator" % (ln + 1)
            elif pt[0] == "call" and pt[1].split("::")[-1] in ("c_str", "data") and pt[2] is not None:
                objn = fn.n(fn.strip(fn.n(fn.strip(a[0]))["obj"])) if "obj" in fn.n(fn.strip(a[0])) else {}
                mrec = fn.n(fn.strip(a[0])).get("mrec") or ""
                if mrec.startswith("std::basic_string"):
                    ext, what = ("op", "+", ("size", pt[2]), ("const", 1)), "size() + 1 (terminated string storage)"
                elif mrec.startswith("std::vector<"):
                    er = element_record(F, mrec)
                    es = (F.record(er)["size_bits"] // 8) if er else None
                    if es is None:
                        # scalar elements
                        inner = mrec[len("std::vector<"):].split(",")[0].strip().rstrip(">").strip()
                        es = {"unsigned char": 1, "char": 1, "signed char": 1, "unsigned short": 2, "short": 2, "unsigned int": 4, "int": 4,
                              "unsigned long": 8, "long": 8}.get(inner)
                    if es:
                        ext, what = ("op", "*", ("size", pt[2]), ("const", es)), "size() * %d" % es
            elif pt[0] == "un" and pt[1] == "&" and pt[2][0] == "idx":
                out.append(ok("R-COPYEXT", inst, site, fn.qn, req, "row source inside the pixel vector: shape decided under C08 (WritePixels rows)", nontrivial=False))
                continue
            elif pt[0] == "var" and fn.qn.endswith("BitmapFile::WritePixels"):
                nd0, d0 = var_decl(fn, pt)
                it0 = fn.term(d0["init"]) if d0 and "init" in d0 else None
                if it0 is not None and it0[0] == "call" and it0[1].endswith("::data"):
                    out.append(ok("R-COPYEXT", inst, site, fn.qn, req, "row pointer walking the pixel vector: shape decided under C08 (WritePixels rows)", nontrivial=False))
                    continue
            if ext is None:
                raise AnalysisBroken("raw write at %s: the extent of %s is not modelled" % (site, fmt_term(pt)))
            # substitute closed definitions of scratch-structure fields (VolFile::CreateVolumeInfo)
            def subst(t, depth=0):
                if isinstance(t, tuple) and t and t[0] == "mem" and t[1][0] == "var" and depth < 4:
                    nd, d = var_decl(fn, t[1])
                    rec = (d or {}).get("rec") or (d or {}).get("record")
                    if rec and is_repo_record(F, rec):
                        defs = field_definitions(F, rec)
                        if t[2] in defs:
                            return subst(reroot(defs[t[2]], ("obj", rec), t[1]), depth + 1)
                    return t
                if isinstance(t, tuple):
                    return tuple(subst(x, depth) if isinstance(x, tuple) else x for x in t)
                return t
            n2 = subst(nt)
            e2 = subst(ext)
            good = None
            if n2 == e2 or nt == ext:
                good = "count is exactly the extent (%s)" % what
            if good is None:
                uc = upper_const(set(), n2)
                if uc is not None and e2[0] == "const" and uc <= e2[1]:
                    good = "count <= %d <= %s" % (uc, what)
            if good is None:
                dn, cn = linear(upper_linear(n2))
                de, ce = linear(e2)
                if dn == de and cn <= ce:
                    good = "linear bound: %s <= %s after substituting the fields' definitions and x & m <= x" % (fmt_term(n2), fmt_term(e2))
            if good is None and e2[0] == "op" and e2[1] == "*" and n2[0] == "op" and n2[1] == "*":
                # indexTableLength = fileCount() * sizeof(IndexEntry) against indexEntries.size() * sizeof(IndexEntry)
                cnt = [x for x in (n2[2], n2[3]) if x[0] != "const"]
                k = [x for x in (n2[2], n2[3]) if x[0] == "const"]
                if len(cnt) == 1 and len(k) == 1 and k[0] == e2[3] and e2[2][0] == "size":
                    if one_push_per_iteration(F, e2[2][1], cnt[0]):
                        good = "the container receives exactly one push_back per iteration of the loop that runs to %s" % fmt_term(cnt[0])
            if good:
                out.append(ok("R-COPYEXT", inst, site, fn.qn, req, good))
            else:
                out.append(bad("R-COPYEXT", inst, site, fn.qn, req, "cannot bound %s by the extent %s (%s)" % (fmt_term(n2), fmt_term(e2), what)))
    return out, n_sites


def one_push_per_iteration(F, container, count):
    """`container` (a field of the scratch structure) is only ever grown by one unconditional push_back per iteration of a
    loop `for (i = 0; i < count; ++i)`, in the function that fills the structure."""
    if container[0] != "mem":
        return False
    field = container[2]
    hits = []
    for fn in F.functions.values():
        if not fn.cfg or fn.d.get("implicit"):
            continue
        for nd in fn.nodes:
            if nd["k"] == "CXXMemberCallExpr" and nd.get("fname") in ("push_back", "emplace_back", "resize", "clear", "erase", "pop_back", "insert", "assign") and "obj" in nd:
                o = fn.term(nd["obj"])
                if o[0] == "mem" and o[2] == field and o[1][0] == "var":
                    vnd, d = var_decl(fn, o[1])
                    if (d or {}).get("rec") == (var_rec_of(F, container) or (d or {}).get("rec")):
                        hits.append((fn, nd))
    if len(hits) != 1 or hits[0][1]["fname"] != "push_back":
        return False
    fn, nd = hits[0]
    loops = [l for l in fn.nodes if l["k"] == "ForStmt" and nd["id"] in fn.subtree(l["body"])]
    if len(loops) != 1:
        return False
    lp = loops[0]
    # unconditional: the push_back statement is a direct child of the loop body
    body = fn.n(lp["body"])
    direct = any(nd["id"] in fn.subtree(k) and fn.n(k)["k"] not in ("IfStmt", "ForStmt", "WhileStmt", "SwitchStmt", "DoStmt") for k in fn.kids(body["id"]))
    d0 = fn.n(lp["init"])["decls"][0]
    cond = fn.term(lp["cond"])

    def anon(t):
        # the same expression over the scratch structure, whichever parameter it is reached through
        if isinstance(t, tuple) and t and t[0] == "var":
            return ("obj",)
        if isinstance(t, tuple):
            return tuple(anon(x) if isinstance(x, tuple) else x for x in t)
        return t
    bound_ok = cond[0] == "op" and cond[1] == "<" and cond[2] == ("var", d0["n"], d0["d"]) and anon(cond[3]) == anon(count)
    return bool(direct and fn.term(d0["init"]) == ("const", 0) and bound_ok)


def var_rec_of(F, t):
    return None


def static_locals(F, functions=None):
    """A function-local `static` is initialised once, by the first call: if its initialiser depends on a parameter, on the
    object or on any other run-time value, later calls reuse the first call's value - output then depends on call history."""
    out = []
    n = 0

    def runtime(t):
        if not isinstance(t, tuple) or not t:
            return False
        if t[0] in ("var", "this", "mem", "idx", "size"):
            return True
        if t[0] == "call":
            return (t[2] is not None and runtime(t[2])) or any(runtime(a) for a in t[3])
        return any(runtime(x) for x in t[1:] if isinstance(x, tuple))
    for fn in sorted(functions if functions is not None else F.functions.values(), key=lambda f: f.key):
        if not fn.cfg or fn.d.get("implicit"):
            continue
        for nd in fn.nodes:
            if nd["k"] != "DeclStmt":
                continue
            for d in nd.get("decls", []):
                if d.get("static") and "init" in d and "d" in d:
                    n += 1
                    t = fn.term(d["init"])
                    inst = "%s#static:%s" % (fn.qn, d["n"])
                    req = "a function-local static is initialised from constants only (it keeps its first value for the life of the process)"
                    if not d.get("is_const"):
                        out.append(bad("R-INIT", inst, fn.loc(nd["id"]), fn.qn,
                                       "a function-local static is a constant (a mutable one is state shared by every call of the function)",
                                       "`static %s` is not const: what one call leaves in it is seen by the next (a failed or earlier call changes later results)" % d["n"]))
                    elif runtime(t):
                        out.append(bad("R-INIT", inst, fn.loc(nd["id"]), fn.qn, req, "`static %s` is initialised from %s: every later call reuses the first call's value" % (d["n"], fmt_term(t))))
                    else:
                        out.append(ok("R-INIT", inst, fn.loc(nd["id"]), fn.qn, req, fmt_term(t), nontrivial=False))
    return out, n


def check(F, run, tier):
    S = Summaries(F)
    from . import c20 as _c20
    run.add(_c20.clm_extension_strip(F, S))
    from ..rules_archive import cstring_obligations
    cstring_obligations(F, S, run)
    run.declined = DECLINED
    run.explanation = (
        "Field-sensitive definite-initialisation analysis (R-INIT) over the seven serialisation paths and the parsers: every "
        "value handed to Writer::Write is traced (same call-graph walk as R-SEQ) and classified: a local record must have "
        "every leaf field assigned on every path before the write (dominating stores, reads, aggregate or constructor "
        "initialisation); a temporary must be fully defined by its constructor; a factory result must be a fully defined "
        "return; a member of the object being serialised must be defined by every constructor of its class. Functions that "
        "return a record by value return a fully defined object. R-NOPAD: no serialised record has padding bits. CLM names "
        "are zero-filled (value-initialised index, strncpy over the full field); VOL block offsets are assigned for every "
        "entry (recorded exemption with re-checked anchors); the input list is sorted before anything is derived from it, by "
        "the comparator whose shape C19 checks.")
    obs, n = write_sites(F, S)
    run.add(obs)
    run.floor("write-sites", n, 30)
    # parser / factory results
    k = 0
    # the VOL index entry is completed after it is appended (dataBlockOffset; judged by vol_index_entries): a helper that builds
    # it and hands it to PrepareHeader by value is that same partially filled record, not a parser result
    from ..through import entry_producer
    _ep = entry_producer(F, F.fn("OP2Utility::Archive::VolFile::PrepareHeader", nparams=2))
    _skip = {_ep["host"].key} if _ep and _ep["subst"] else set()
    for fn in sorted(F.functions.values(), key=lambda f: f.key):
        if fn.key in _skip:
            continue
        if any(x in fn.file for x in READER_FILES) and fn.cfg and not fn.d.get("implicit"):
            o = returned_defined(F, S, fn)
            run.add(o)
            k += len(o)
    run.floor("returned-records", k, 15)
    if tier == "thorough":
        k2 = 0
        for fn in sorted(F.functions.values(), key=lambda f: f.key):
            if fn.cfg and not fn.d.get("implicit") and not any(x in fn.file for x in READER_FILES):
                o = returned_defined(F, S, fn)
                run.add(o)
                k2 += len(o)
        run.extra["thorough_returned_records_outside_anchor_files"] = k2
    # user-constructible serialisable classes: every constructor defines every scalar member
    for cls in sorted(CLASS_LEVEL):
        missing = set(leaves(F, cls)) - ctor_defined(F, cls)
        r = F.record(cls)
        inst = "%s#every-ctor-defines-all" % cls
        site = "%s:%s" % (r["loc"]["file"].split("/")[-1], r["loc"]["line"])
        if not missing:
            run.add(ok("R-INIT", inst, site, cls, "every constructor of %s (including the implicit one) leaves every member defined" % cls.split("::")[-1],
                       "%d leaf members" % len(leaves(F, cls))))
        else:
            run.add(bad("R-INIT", inst, site, cls, "every constructor of %s (including the implicit one) leaves every member defined" % cls.split("::")[-1],
                        "indeterminate after construction: %s" % fmt_paths(missing)))
    sp = spec()
    run.add([o for o in r_layout(F, records=list(sp["records"])) if o.rule == "R-NOPAD"])
    from . import c04
    run.add(c04.window_initialised(F, S))
    o = value_initialised_elements(F)
    run.add(o)
    run.floor("value-initialised-elements", len(o), 10)
    o, _ns = static_locals(F)
    run.add(o)
    fx = [f for f in F.fixture_functions.values() if f.qn == "fixture::CachedLength"]
    hit = bool(fx) and any(x.status == "violated" for x in static_locals(F, fx)[0])
    run.fixture("fixtures/raw_read.cpp: `static const uint32_t length = 32 * height` is reported by R-INIT(static)", hit)
    o, k = raw_write_extents(F, S)
    run.add(o)
    run.floor("raw-write-extents", k, 5)
    run.add(zero_filled_names(F, S))
    run.add(vol_index_entries(F, S))
    run.add(sort_before_layout(F, S))
    run.add(c19.compare_path_filenames(F))
    run.add(c19.duplicate_scan(F))

"""C06 — Map read/write round-trips every field and is byte-stable."""
from ..extract import AnalysisBroken
from ..facts import fmt_term, CALLS
from ..flow import Engine, Summaries, fmt_fact
from ..report import ok, bad
from ..rules_layout import constant_by_role, r_layout
from ..rules_narrow import r_narrow
from ..rules_stream import r_guard_exact, is_store
from ..rules_sib import P, returns
from ..witness import run_witnesses
from .seqdefs import seq_obligations
from . import c05, c14, c16, c19

M = "OP2Utility::Map"

DECLINED = [
    "equality of the re-read map 'in every field' and byte equality with the consumed input (values); decided instead: reader and "
    "writer visit the same fields in the same order, widths, prefixes and conditions, and the writer matches the frozen format description",
    "behaviour for maps whose stored dimensions disagree with the tile array (run-time values)",
]

WITNESSES = [
    ("map-write-on-const", "void f(const Map& m, Stream::Writer& w) { m.Write(w); }", "compiles"),
    ("map-getters-on-const", "void f(const Map& m) { (void)m.GetCellType(0, 0); (void)m.GetLavaPossible(0, 0); (void)m.GetVersionTag(); (void)m.TileCount(); }", "compiles"),
    ("map-setter-needs-mutable", "void f(const Map& m) { m.SetLavaPossible(true, 0, 0); }", "rejected"),
]


def writer_refuses_only_capacity(F, S):
    """R-GUARD: whatever the map writer (on a stream) refuses, it refuses because a count does not fit its 32-bit field: every
    refusal every returning path has passed is `count <= 0xFFFFFFFF`. Any other refusal turns away maps the reader returns -
    a map that was read could then not be written back."""
    fn = F.fn(M + "::Write", nparams=1, pred=lambda f: "Writer &)" in f.key)
    eng = Engine(F, S)
    ex = eng.analyze(fn, frozenset()) or frozenset()
    conds = []
    for f in ex:
        if f[0] == "ev" and f[1] == "passed":
            conds.append(f[2])
        elif f[0] == "ev" and f[1] == "each" and f[2][0] == "ev" and f[2][1] == "passed":
            conds.append(f[2][2])
    other = sorted({fmt_fact(c) for c in conds if not ((c[0] == "<=" and c[2] == ("const", 0xFFFFFFFF)) or (c[0] == "<" and c[2] == ("const", 1 << 32)))})
    inst = M + "::Write#refuses-only-capacity"
    req = "the map writer refuses nothing but counts that do not fit their 32-bit size fields"
    if not conds:
        raise AnalysisBroken("Map::Write: no capacity refusal observed (shape not recognised)")
    if not other:
        return [ok("R-GUARD", inst, fn.loc(fn.body), fn.qn, req, "%d refusals on the returning paths, all of the form count <= 0xFFFFFFFF" % len(conds))]
    return [bad("R-GUARD", inst, fn.loc(fn.body), fn.qn, req, "also refuses unless %s: a map the reader accepts can be refused by the writer" % "; ".join(other))]


def version_and_trim(F, S):
    out = []
    fn = F.fn(M + "::SetVersionTag", nparams=1)
    w = {it for it in S.writes(fn) if it[0] in ("this", "this@", "global")}
    st = [nd for nd in fn.nodes if is_store(nd)]
    good = w == {("this", "versionTag")} and len(st) == 1 and fn.term(fn.kids(st[0]["id"])[1]) == P(fn, 0)
    inst = M + "::SetVersionTag#writeset"
    if good:
        out.append(ok("R-WRITESET", inst, fn.loc(fn.body), fn.qn, "SetVersionTag stores its argument in versionTag and changes nothing else", "write set {versionTag}"))
    else:
        out.append(bad("R-WRITESET", inst, fn.loc(fn.body), fn.qn, "SetVersionTag stores its argument in versionTag and changes nothing else", "write set %s" % sorted(w)))
    g = F.fn(M + "::GetVersionTag", nparams=0)
    r = returns(g)
    if len(r) == 1 and g.term(r[0]["value"]) == ("mem", ("this",), "versionTag"):
        out.append(ok("R-SIB", M + "::GetVersionTag#path", g.loc(r[0]["id"]), g.qn, "GetVersionTag reports versionTag", "versionTag", nontrivial=False))
    else:
        out.append(bad("R-SIB", M + "::GetVersionTag#path", g.loc(g.body), g.qn, "GetVersionTag reports versionTag", "other"))
    fn = F.fn(M + "::TrimTilesetSources", nparams=0)
    w = {it for it in S.writes(fn) if it[0] in ("this", "this@", "global")}
    inst = M + "::TrimTilesetSources#writeset"
    if w and {x[1] for x in w} == {"tilesetSources"}:
        out.append(ok("R-WRITESET", inst, fn.loc(fn.body), fn.qn, "trimming changes tilesetSources only", "write set {tilesetSources}"))
    else:
        out.append(bad("R-WRITESET", inst, fn.loc(fn.body), fn.qn, "trimming changes tilesetSources only", "write set %s" % sorted(w)))
    # order-preserving removal: erase(remove_if(...)) - partition-style algorithms reorder the survivors
    algos = sorted({(nd.get("fq") or "") for nd in fn.nodes if nd["k"] in CALLS and (nd.get("fq") or "").startswith("std::") and
                    (nd.get("fq") or "").split("::")[-1] in ("remove_if", "remove", "partition", "stable_partition", "remove_copy_if", "copy_if", "sort", "unique")})
    inst = M + "::TrimTilesetSources#order-preserving"
    if algos in (["std::remove_if"], ["std::stable_partition"]):
        out.append(ok("R-SIB", inst, fn.loc(fn.body), fn.qn, "the surviving sources keep their relative order (tile mappings refer to them by position)", algos[0]))
    elif algos:
        out.append(bad("R-SIB", inst, fn.loc(fn.body), fn.qn, "the surviving sources keep their relative order (tile mappings refer to them by position)", "uses %s" % ", ".join(algos)))
    else:
        # erase in place: the only operation that changes the container is vector::erase (which closes the gap and keeps
        # the order of everything else); nothing swaps or assigns elements
        ts = ("mem", ("this",), "tilesetSources")
        mut = {nd.get("fname") for nd in fn.nodes if nd["k"] == "CXXMemberCallExpr" and "obj" in nd and fn.term(nd["obj"]) == ts
               and not nd.get("mconst") and nd.get("fname") not in ("begin", "end", "size", "empty")}
        swaps = [nd for nd in fn.nodes if nd["k"] in CALLS and (nd.get("fname") or "") in ("swap", "iter_swap", "move", "move_backward", "copy", "rotate")]
        stores = [nd for nd in fn.nodes if (is_store(nd) and fn.term(fn.kids(nd["id"])[0])[0] in ("idx", "un", "mem"))
                  or (nd["k"] == "CXXOperatorCallExpr" and nd.get("op") == "=" and nd.get("args") and fn.term(nd["args"][0])[0] in ("idx", "un", "mem"))]
        if mut == {"erase"} and not swaps and not stores:
            out.append(ok("R-SIB", inst, fn.loc(fn.body), fn.qn, "the surviving sources keep their relative order (tile mappings refer to them by position)", "erase in place"))
        else:
            raise AnalysisBroken("TrimTilesetSources: removal algorithm not recognised")
    # the predicate removed is IsEmpty()
    lam = [f for f in F.functions.values() if f.d.get("lambda") and "Map.cpp" in f.file]
    good = False
    for f in lam:
        r = returns(f)
        if len(r) == 1:
            t = f.term(r[0]["value"])
            arg = ("var", f.params[0]["n"], f.params[0]["d"]) if f.params else None
            good = good or (arg is not None and t == F.method_value("OP2Utility::TilesetSource::IsEmpty", arg))
    if not good and not lam:
        # erase-in-place loop: every erase(it) is on the branch where (*it).IsEmpty() holds, its result continues the walk,
        # the other branch only steps on, and the walk runs from begin() to end()
        from ..rules_sib import enclosing_if_cond
        ts = ("mem", ("this",), "tilesetSources")
        er = [nd for nd in fn.nodes if nd["k"] == "CXXMemberCallExpr" and nd.get("fname") == "erase" and "obj" in nd and fn.term(nd["obj"]) == ts]
        loops = [nd for nd in fn.nodes if nd["k"] in ("WhileStmt", "ForStmt")]
        okk = len(er) == 1 and len(er[0].get("args", [])) == 1 and len(loops) == 1
        if okk:
            a = fn.term(er[0]["args"][0])
            while a[0] == "ctor" and len(a[2]) == 1:
                a = a[2][0]
            cid, in_then = enclosing_if_cond(fn, er[0]["id"])
            okk = a[0] == "var" and cid is not None and in_then and fn.term(cid) == F.method_value("OP2Utility::TilesetSource::IsEmpty", ("un", "*", a))
            # the erase's result is assigned back to the iterator; the iterator starts at begin() and the loop runs to end()
            asg = [nd for nd in fn.nodes if nd["k"] == "CXXOperatorCallExpr" and nd.get("op") == "=" and fn.term(nd["args"][0]) == a
                   and fn.strip(nd["args"][1]) == er[0]["id"]]
            inc = [nd for nd in fn.nodes if nd["k"] in ("CXXOperatorCallExpr", "UnaryOperator") and nd.get("op") == "++"]
            init = fn.local_value_at(a, loops[0]["id"]) if okk else None
            cond = fn.term(loops[0]["cond"]) if "cond" in loops[0] else None
            okk = okk and len(asg) == 1 and len(inc) == 1 and \
                cond == ("opcall", "!=", (a, ("call", "std::vector<OP2Utility::TilesetSource>::end", ts, ()))) and \
                any(d.get("d") == a[2] and "init" in d and fn.term(d["init"]) == ("call", "std::vector<OP2Utility::TilesetSource>::begin", ts, ())
                    for nd in fn.nodes if nd["k"] == "DeclStmt" for d in nd.get("decls", []))
            if okk:
                ic, ithen = enclosing_if_cond(fn, inc[0]["id"])
                okk = ic == cid and not ithen
        good = okk
    inst = M + "::TrimTilesetSources#predicate"
    if good:
        out.append(ok("R-SIB", inst, fn.loc(fn.body), fn.qn, "the entries removed are exactly those for which IsEmpty() holds", "remove_if(IsEmpty)"))
    else:
        out.append(bad("R-SIB", inst, fn.loc(fn.body), fn.qn, "the entries removed are exactly those for which IsEmpty() holds", "predicate not recognised"))
    return out


def width_log2(F, S):
    """The width written is a function of the stored width alone: GetWidthInTilesLog2(w) returns Log2OfPowerOf2(w) on every
    returning path (a separate `return 0` is acceptable only under a test on w itself that leaves w <= 1). A width that
    depends on anything else (the tile count, the height) changes the dimensions of a map that has that something unusual."""
    from ..rules_sib import enclosing_if_cond
    from ..prove import term_cond_facts, prove_le
    gw, is_host = F.fn_or_host(M + "::GetWidthInTilesLog2", 1, M + "::CreateHeader", host_nparams=0)
    if is_host:
        return []           # inlined into CreateHeader: header_fields judges the expression stored there
    w = P(gw, 0)
    out = []
    inst = M + "::GetWidthInTilesLog2#function-of-width"
    req = "every returning path yields Log2OfPowerOf2(width): the written width depends on the stored width only"
    want = F.call_value("OP2Utility::Log2OfPowerOf2", None, (w,))
    problems = []
    for r in returns(gw):
        t = gw.xterm(r["value"])
        if t == want:
            continue
        cid, in_then = enclosing_if_cond(gw, r["id"])
        okz = False
        if t == ("const", 0) and cid is not None:
            ct = gw.term(cid)
            fs = term_cond_facts(ct, bool(in_then)) or set()
            from ..flow import subterms
            only_w = all(st[0] != "var" or st == w for st in subterms(ct)) and not any(st[0] in ("mem", "call", "size", "this") for st in subterms(ct))
            okz = only_w and prove_le(set(fs), w, ("const", 1))
        if not okz:
            problems.append((r, t))
    if not problems:
        out.append(ok("R-SIB", inst, gw.loc(gw.body), gw.qn, req, "all returns are Log2OfPowerOf2(width)"))
    else:
        r, t = problems[0]
        out.append(bad("R-SIB", inst, gw.loc(r["id"]), gw.qn, req, "a path returns %s%s" % (
            fmt_term(t), " under a condition that is not about the width" if t == ("const", 0) else "")))
    return out


def header_fields(F, S):
    """CreateHeader copies every header field from the map; ReadMapBeginning copies them back (saved-game flag as bool)."""
    out = []
    ch = F.fn(M + "::CreateHeader", nparams=0)
    want = {"versionTag": ("mem", ("this",), "versionTag"), "bSavedGame": ("mem", ("this",), "isSavedGame"),
            "heightInTiles": ("mem", ("this",), "heightInTiles")}
    got = {}
    for nd in ch.nodes:
        if is_store(nd) and len(ch.kids(nd["id"])) == 2:
            l = ch.term(ch.kids(nd["id"])[0])
            if l[0] == "mem" and l[1][0] == "var":
                got[l[2]] = c05.resolve(ch.term(ch.kids(nd["id"])[1]), c05.alias_defs(ch))
    probs = [k for k, v in want.items() if got.get(k) != v]
    lg = got.get("lgWidthInTiles")
    wt_ = ("mem", ("this",), "widthInTiles")
    lg_want = {F.call_value(M + "::GetWidthInTilesLog2", ("this",), (wt_,)), ("call", M + "::GetWidthInTilesLog2", ("this",), (wt_,)),
               F.call_value("OP2Utility::Log2OfPowerOf2", None, (wt_,))}
    if lg not in lg_want:
        probs.append("lgWidthInTiles")
    tc = got.get("tilesetCount")
    if tc != ("size", ("mem", ("this",), "tilesetSources")):
        probs.append("tilesetCount")
    inst = M + "::CreateHeader#fields"
    req = "the header is rebuilt from the map: versionTag, isSavedGame, log2(widthInTiles), heightInTiles, tilesetSources.size()"
    if not probs:
        out.append(ok("R-SIB", inst, ch.loc(ch.body), ch.qn, req, "5 fields assigned from the matching members"))
    else:
        out.append(bad("R-SIB", inst, ch.loc(ch.body), ch.qn, req, "fields not assigned as described: %s" % ", ".join(probs)))
    rb = F.fn(M + "::ReadMapBeginning", nparams=1)
    got = {}
    multi = set()
    hdr_vars = []
    # the map's fields are filled in by ReadMapBeginning, or by a helper it was split into (which is then handed the header)
    from ..through import closure
    for rf in closure(F, rb, depth=2):
        for nd in rf.nodes:
            if is_store(nd):
                l = rf.term(rf.kids(nd["id"])[0])
                if l[0] == "mem" and l[1][0] == "var":
                    if l[2] in got or len(rf.kids(nd["id"])) != 2:
                        multi.add(l[2])
                        continue
                    got[l[2]] = rf.term(rf.kids(nd["id"])[1])
            elif nd["k"] == "CXXMemberCallExpr" and "obj" in nd and rf.term(nd["obj"])[0] == "var" and len(nd.get("args", [])) == 1:
                # a plain setter (`map.SetVersionTag(v)`: one store, member = parameter) is that store
                for cal in F.callees(nd):
                    sts = [x for x in cal.nodes if is_store(x)]
                    if len(cal.params) == 1 and len(sts) == 1 and len(cal.kids(sts[0]["id"])) == 2 and sts[0].get("op") == "=":
                        l2, r2 = cal.term(cal.kids(sts[0]["id"])[0]), cal.term(cal.kids(sts[0]["id"])[1])
                        if l2[0] == "mem" and l2[1] == ("this",) and r2 == P(cal, 0) and not S.writes(cal) - {("this", l2[2])}:
                            if l2[2] in got:
                                multi.add(l2[2])
                            else:
                                got[l2[2]] = rf.term(nd["args"][0])
        for nd in rf.nodes:
            if nd["k"] == "DeclStmt":
                for d in nd.get("decls", []):
                    if d.get("rec") == "OP2Utility::MapHeader":
                        hdr_vars.append(("var", d["n"], d["d"]))
        hdr_vars += [("var", p["n"], p["d"]) for p in rf.params if p.get("rec") == "OP2Utility::MapHeader"]
    for m in multi:
        got[m] = None
    def hdr(f):
        return lambda t: t is not None and t[0] == "mem" and t[2] == f and t[1] in hdr_vars
    hdr_local = hdr_vars[0] if hdr_vars else None
    probs = []
    if not hdr("versionTag")(got.get("versionTag")): probs.append("versionTag")
    if not hdr("bSavedGame")(got.get("isSavedGame")): probs.append("isSavedGame")
    if not hdr("heightInTiles")(got.get("heightInTiles")): probs.append("heightInTiles")
    w = got.get("widthInTiles")
    if not (w and any(w == F.method_value("OP2Utility::MapHeader::WidthInTiles", hv) for hv in hdr_vars)): probs.append("widthInTiles")
    inst = M + "::ReadMapBeginning#fields"
    req = "the map's scalar members are taken from the header fields of the same name"
    if not probs:
        out.append(ok("R-SIB", inst, rb.loc(rb.body), rb.qn, req, "4 members assigned from the header"))
    else:
        out.append(bad("R-SIB", inst, rb.loc(rb.body), rb.qn, req, "not assigned as described: %s" % ", ".join(probs)))
    return out


def check(F, run, tier):
    S = Summaries(F)
    # refusals at the edge of an integer type's range are exact (neither the largest representable value is turned away nor
    # the first unrepresentable one let through), wherever in the library they are made
    from ..rules_stream import capacity_refusals_exact
    _oc, _nc = capacity_refusals_exact(F, S, ["/src/"])
    run.add(_oc)
    run.floor("capacity-refusals", _nc, 33)
    run.declined = DECLINED
    run.explanation = (
        "Static analysis of the map serialiser pair. Decided: R-SEQ (Map::Write, Map::ReadMap and the frozen format "
        "description spec/map.seq.json yield the same token tree: header, tiles, clip rectangle, per-source name with the "
        "tile count present only for non-empty names on both sides, 'TILE SET' marker, size-prefixed mappings and terrain "
        "types, version tag twice, tile groups), R-LAYOUT of every record written, R-NARROW on every size prefix and the "
        "header's tileset count, header fields rebuilt from / copied to the members of the same meaning, the log2 table "
        "used for the width, R-WRITESET / R-SIB / R-GUARD for the public editing operations, and compile-only witnesses "
        "that writing and reading accessors work on a const map.")
    obs, n = seq_obligations(F, "map", min_sites=30)
    run.add(obs)
    run.add(r_layout(F, records=["OP2Utility::MapHeader", "OP2Utility::Tile", "OP2Utility::TileMapping", "OP2Utility::TerrainType",
                                 "OP2Utility::Rect", "OP2Utility::Range16"],
                     constants=["OP2Utility::MapHeader::MinMapVersion", "OP2Utility::MapHeader::CurrentMapVersion",
                                ("OP2Utility::tilesetHeader", constant_by_role(F, "OP2Utility::tilesetHeader", "OP2Utility::Map::ReadTilesetHeader"))]))
    k = 0
    swept = set()
    for q, np_, host in (("OP2Utility::Map::CreateHeader", 0, None), ("OP2Utility::Map::WriteTileGroups", 2, None),
                         ("OP2Utility::Map::WriteContainerSize", 2, ("OP2Utility::Map::WriteTileGroups", 2))):
        # a private helper may have been inlined into its caller, which is swept anyway
        fn_ = F.fn_or_host(q, np_, host[0], host[1])[0] if host else F.fn(q, nparams=np_)
        if fn_.key in swept:
            continue
        swept.add(fn_.key)
        o, c = r_narrow(F, S, fn_, explicit_only=True)
        run.add(o)
        k += c
    run.floor("R-NARROW", k, 3)
    o, c = c14.r_narrow_prefix(F, S)
    run.add(o)
    run.add(header_fields(F, S))
    run.add(width_log2(F, S))
    run.add(c19.debruijn(F))
    run.add(c16.accessors(F, S))
    run.add(c16.cell_type_guard(F, S))
    sc = F.fn(M + "::SetCellType", nparams=3)
    en = F.enums["OP2Utility::CellType"]
    hi = max(e["value"] for e in en["enumerators"])
    run.add(r_guard_exact(F, Engine(F, S), sc, [(P(sc, 0), ("const", hi))]))
    run.add(version_and_trim(F, S))
    run.add(writer_refuses_only_capacity(F, S))
    from . import c07
    run.add([o for o in c07.tileset_sources(F, S) if "marker" in o.instance])
    run.add(run_witnesses(F, "C06", WITNESSES))

"""C08 — Indexed bitmaps read back valid and round-trip pixels, palette, geometry."""
from ..extract import AnalysisBroken
from ..facts import CALLS, fmt_term
from ..flow import Engine, Summaries, final_site_facts
from ..report import ok, bad
from ..rules_layout import r_layout
from ..rules_narrow import r_narrow
from ..rules_sib import P, returns
from ..rules_stream import is_store
from .seqdefs import seq_obligations
from . import imgcommon as ic

B = ic.B
IH = ic.IH

DECLINED = [
    "preservation of pixel and palette values by a write/read round trip (values)",
    "the partial-palette count mismatch (writer emits palette.size() entries under a regenerated used-colour count of 0, the "
    "reader then expects 2^depth): a count-linkage defect no rule here can see; a general count-linkage rule would also fire on "
    "Map, whose tile count is legitimately re-derived, so it is documented as a blind spot rather than checked",
    "that flipping twice restores the original rows (only: single negation, write set, absence of unguarded unsigned subtraction)",
]


def palette_bound(F, S):
    rp = F.fn(B + "::ReadPalette", nparams=2)
    rd = F.fn(B + "::ReadIndexed", nparams=1, pred=lambda f: "Reader &)" in f.key)
    eng = Engine(F, S)
    eng.analyze(rd, frozenset())
    out = []
    for nd in rp.nodes:
        if nd["k"] == "CXXMemberCallExpr" and nd.get("fname") == "resize":
            site = final_site_facts(eng, rp, nd["id"])
            if site is None:
                continue
            inst = "%s::ReadPalette#resize:%s" % (B, fmt_term(rp.term(nd["args"][0])))
            req = "the palette is sized only after the header rules (used colours <= 2^depth, indexed depth) have been enforced"
            from ..rules_valid import validated
            if validated(F, rp, site, IH + "::Validate") and validated(F, rp, site, B + "::VerifyIndexedImageForSerialization"):
                out.append(ok("R-ORDER", inst, rp.loc(nd["id"]), rp.qn, req, "ImageHeader::Validate and the depth check dominate the allocation"))
            else:
                out.append(bad("R-ORDER", inst, rp.loc(nd["id"]), rp.qn, req, "allocation is not dominated by the header validation"))
            # and the size itself is one of the two quantities the header bounds: the used-colour count, or 2^depth
            from .c05 import alias_defs, resolve
            from ..through import inline_single_return
            obj = rp.term(nd["obj"]) if "obj" in nd else None
            if obj is not None and obj[0] == "mem" and obj[2] == "palette" and nd.get("args"):
                ih = ("mem", obj[1], "imageHeader")
                arg = resolve(rp.term(nd["args"][0]), alias_defs(rp))
                arg = inline_single_return(F, arg)
                allowed = (("mem", ih, "usedColorMapEntries"), F.method_value(IH + "::CalcMaxIndexedPaletteSize", ih),
                           F.call_value(IH + "::CalcMaxIndexedPaletteSize", None, (("mem", ih, "bitCount"),)))
                # a helper choosing between the two
                def okv(t):
                    if t in allowed:
                        return True
                    if t[0] == "cond":
                        return okv(t[2]) and okv(t[3])
                    return False
                inst2 = "%s::ReadPalette#palette-size:%s" % (B, fmt_term(arg))
                req2 = "the palette is sized by the header's used-colour count or by 2^bitCount (both bounded by the bit depth after validation)"
                if okv(arg) or any(okv(r) for r in helper_returns(F, rp, nd["args"][0])):
                    out.append(ok("R-INDEX", inst2, rp.loc(nd["id"]), rp.qn, req2, fmt_term(arg)))
                else:
                    out.append(bad("R-INDEX", inst2, rp.loc(nd["id"]), rp.qn, req2,
                                   "sized by %s: nothing bounds it by the bit depth (the palette can come out longer than the depth allows)" % fmt_term(arg)))
    # Validate's own bound: usedColorMapEntries <= CalcMaxIndexedPaletteSize()
    v = F.fn(IH + "::Validate", nparams=0)
    eng2 = Engine(F, S)
    ex = eng2.analyze(v, frozenset()) or frozenset()
    cap_terms = {F.method_value(IH + "::CalcMaxIndexedPaletteSize", ("this",)),
                 F.call_value(IH + "::CalcMaxIndexedPaletteSize", None, (("mem", ("this",), "bitCount"),))}
    good = any(f[0] == "<=" and f[1] == ("mem", ("this",), "usedColorMapEntries") and ("CalcMaxIndexedPaletteSize" in repr(f[2]) or f[2] in cap_terms) for f in ex)
    inst = IH + "::Validate#used-colours"
    if good:
        out.append(ok("R-INDEX", inst, v.loc(v.body), v.qn, "usedColorMapEntries <= 2^bitCount after validation", "refusal on every returning path"))
    else:
        out.append(bad("R-INDEX", inst, v.loc(v.body), v.qn, "usedColorMapEntries <= 2^bitCount after validation", "no such refusal"))
    return out


def helper_returns(F, fn, arg_id):
    """Return value terms (in fn's vocabulary) of a repository helper called to produce the argument (multi-return helper)."""
    from ..flow import substitute
    nd = fn.n(fn.strip(arg_id))
    out = []
    if nd["k"] in CALLS:
        for h in F.callees(nd):
            if not h.cfg:
                continue
            sub = {("var", p["n"], p["d"]): fn.term(a) for p, a in zip(h.params, nd.get("args", []))}
            for r in returns(h):
                out.append(substitute(h.term(r["value"]), sub))
    return out


def factories(F, S):
    """CreateIndexed: header and bmp header are assigned from the Create aggregates; pixels sized pitch x |height|."""
    out = []
    fn = F.fn(B + "::CreateIndexed", nparams=3)
    from ..through import built_record, field_value
    built = built_record(F, fn)
    if built is None:
        raise AnalysisBroken("BitmapFile::CreateIndexed: the way the bitmap is built is not recognised")

    def from_create(t, q, depth=2):
        """t is q(...) or a call of a repository helper every return of which is (a helper returning) q(...)."""
        if t is None or t[0] != "call":
            return False
        if t[1] == q:
            return True
        if depth == 0:
            return False
        hs = [h for h in F.by_qn.get(t[1], []) if h.cfg and len(h.params) == len(t[3])]
        if len(hs) != 1:
            return False
        rs = returns(hs[0])
        return bool(rs) and all(from_create(hs[0].term(r["value"]), q, depth - 1) for r in rs)
    inst = B + "::CreateIndexed#headers-assigned"
    good = from_create(field_value(built, ("imageHeader",)), IH + "::Create") and from_create(field_value(built, ("bmpHeader",)), "OP2Utility::BmpHeader::Create")
    if good:
        out.append(ok("R-INIT", inst, fn.loc(fn.body), fn.qn, "both headers of a factory-made bitmap come from the Create aggregates (every field set)", "imageHeader = ImageHeader::Create(…); bmpHeader = BmpHeader::Create(…)"))
    else:
        out.append(bad("R-INIT", inst, fn.loc(fn.body), fn.qn, "both headers of a factory-made bitmap come from the Create aggregates (every field set)", "assignments not found"))
    # the overloads that take a palette / pixels build on the three-argument factory: they hand it their own bit depth, width
    # and height (the file size in the header is computed there from exactly these) and afterwards replace nothing but the
    # palette entries and the pixel buffer - never a header
    for np_ in (4, 5):
        ov = F.fn(B + "::CreateIndexed", nparams=np_)
        inst = "%s::CreateIndexed/%d#delegates-dimensions" % (B, np_)
        req = "the overload creates the bitmap from its own (bitCount, width, height) and stores to neither header afterwards"
        dl = [nd for nd in ov.nodes if nd["k"] in CALLS and (nd.get("fq") or nd.get("fname") or "").endswith("CreateIndexed") and len(nd.get("args", [])) >= 3]
        if len(dl) != 1:
            raise AnalysisBroken("CreateIndexed/%d: delegation to a smaller overload not found" % np_)
        args = [ov.xterm(a) for a in dl[0]["args"][:3]]
        same = args == [P(ov, 0), P(ov, 1), P(ov, 2)]
        hdr_stores = []
        for nd in ov.nodes:
            tgt = None
            if is_store(nd):
                tgt = ov.term(ov.kids(nd["id"])[0])
            elif nd["k"] == "CXXOperatorCallExpr" and nd.get("op") == "=" and nd.get("args"):
                tgt = ov.term(nd["args"][0])
            if tgt is not None and ("imageHeader" in repr(tgt) or "bmpHeader" in repr(tgt)):
                hdr_stores.append(nd)
        if same and not hdr_stores:
            out.append(ok("R-INIT", inst, ov.loc(dl[0]["id"]), ov.qn, req, "CreateIndexed(bitCount, width, height, ...) ; headers untouched"))
        else:
            out.append(bad("R-INIT", inst, ov.loc((hdr_stores or dl)[0]["id"]), ov.qn, req,
                           ("delegates with (%s)" % ", ".join(fmt_term(a) for a in args) if not same else "") +
                           ("; a header is stored to after the delegate computed the file size" if hdr_stores else "")))
    # aggregates list every field
    for q, rec in ((IH + "::Create", "OP2Utility::ImageHeader"), ("OP2Utility::BmpHeader::Create", "OP2Utility::BmpHeader")):
        c = F.fns(q)
        if len(c) != 1:
            raise AnalysisBroken("%s not unique" % q)
        c = c[0]
        nfields = len(F.record(rec)["fields"])
        from ..rules_init import returned_record_complete
        verdict, detail = returned_record_complete(F, S, c, rec)
        inst = "%s#all-fields" % q
        if verdict is None:
            raise AnalysisBroken("%s: %s" % (q, detail))
        if verdict:
            out.append(ok("R-INIT", inst, c.loc(c.body), c.qn, "the header returned has a value named for each of the %d fields" % nfields, detail))
        else:
            out.append(bad("R-INIT", inst, c.loc(c.body), c.qn, "the header returned has a value named for each of the %d fields" % nfields, detail))
    return out


def check(F, run, tier):
    S = Summaries(F)
    run.declined = DECLINED
    run.explanation = (
        "Static analysis of the indexed-bitmap reader / writer. Decided: R-SEQ (headers and palette written and read in the "
        "same order and widths, matching spec/bmp.seq.json), R-LAYOUT of BmpHeader / ImageHeader / Color and the signature, "
        "R-MUSTCALL (every returned bitmap passed the four validations BitmapFile::Validate itself runs, plus the dimension "
        "refusal: width >= 0 and |height| representable, whose strength is checked), R-ORDER (palette and factories allocate "
        "only after the header rules; std::abs(height) only after the dimension refusal), the pitch law as source expressions "
        "with a single source of the rounding, the per-row shape of WritePixels (meaningful bytes, then a zero-filled pad), "
        "R-NARROW on the file-size fields, R-INIT of factory headers, and the write set / single negation / absence of "
        "unguarded unsigned subtraction in InvertScanLines.")
    obs, n = seq_obligations(F, "bmp", min_sites=8)
    run.add(obs)
    run.add(r_layout(F, records=["OP2Utility::BmpHeader", "OP2Utility::ImageHeader", "OP2Utility::Color"],
                     enums=["OP2Utility::BmpCompression"],
                     constants=["OP2Utility::BmpHeader::FileSignature", "OP2Utility::BmpHeader::DefaultReserved1", "OP2Utility::BmpHeader::DefaultReserved2",
                                "OP2Utility::ImageHeader::DefaultPlanes", "OP2Utility::ImageHeader::DefaultImageSize",
                                "OP2Utility::ImageHeader::DefaultUsedColorMapEntries", "OP2Utility::ImageHeader::DefaultImportantColorCount",
                                "OP2Utility::ImageHeader::ValidBitCounts"]))
    run.add(ic.reader_validations(F, S))
    run.add(ic.validate_not_stricter(F, S))
    run.add(ic.dimension_refusal(F, S))
    run.add(palette_bound(F, S))
    run.add(ic.pitch_law(F, S))
    run.add(ic.write_pixels_shape(F, S))
    run.add(ic.pixel_size_check_width(F, S))
    wp = F.fn(B + "::WritePixels", nparams=5)
    pitch_t = F.call_value(IH + "::CalculatePitch", None, (P(wp, 4), P(wp, 2)))
    bytes_t = F.call_value(IH + "::CalcPixelByteWidth", None, (P(wp, 4), P(wp, 2)))
    run.add(ic.unsigned_subtractions(F, S, wp, lemmas=((pitch_t, bytes_t),)))
    run.add(ic.invert_scan_lines(F, S))
    wh_, _ = F.fn_or_host(B + "::WriteHeaders", 5, B + "::WriteIndexed", 1, host_pred=lambda f: "Writer &)" in f.key)
    for fn_ in (wh_, F.fn(B + "::CreateIndexed", nparams=3)):
        o, k = r_narrow(F, S, fn_, explicit_only=True)
        run.add(o)
    run.add(factories(F, S))
    run.floor("obligations", len(run.obligations), 45)

"""Entry points (function, stream term, root object types) of every serialiser / parser pair."""
A = "OP2Utility::ArtFile"
B = "OP2Utility::BitmapFile"
T = "OP2Utility::Tileset::"
V = "OP2Utility::Archive::VolFile"
C = "OP2Utility::Archive::ClmFile"
M = "OP2Utility::Map"


def P(fn, i):
    return ("var", fn.params[i]["n"], fn.params[i]["d"])


def local(fn, name=None, rec="OP2Utility::Stream::FileWriter"):
    """The function's local stream object, found by its type (a rename of the variable must not matter)."""
    from ..extract import AnalysisBroken
    c = [("var", d["n"], d["d"]) for nd in fn.nodes if nd["k"] == "DeclStmt" for d in nd["decls"] if d.get("rec") == rec]
    if len(c) != 1:
        raise AnalysisBroken("%s: expected exactly one local %s, found %d" % (fn.qn, rec.split("::")[-1], len(c)))
    return c[0]


class _Lazy(dict):
    """format name -> (function, stream term, root types), resolved on first use so that an anchor missing in one
    format cannot break the checks of another."""

    def __init__(self, makers):
        super().__init__()
        self._makers = makers

    def __getitem__(self, k):
        if k not in self.keys():
            super().__setitem__(k, self._makers[k]())
        return super().__getitem__(k)

    def items(self):
        for k in self._makers:
            yield k, self[k]


def writers(F):
    def m_map():
        w = F.fn(M + "::Write", nparams=1, pred=lambda f: "Writer" in f.key)
        return (w, P(w, 0), [M])

    def m_prt():
        w = F.fn(A + "::Write", nparams=1, pred=lambda f: "Writer &" in f.key)
        return (w, P(w, 0), [A])

    def m_bmp():
        w = F.fn(B + "::WriteIndexed", nparams=1, pred=lambda f: "Writer &)" in f.key)
        return (w, P(w, 0), [B])

    def m_ts():
        w = F.fn(T + "WriteCustomTileset", nparams=2, pred=lambda f: "Writer &," in f.key)
        return (w, P(w, 0), [B])

    def m_vol():
        w = F.fn(V + "::WriteVolume", nparams=2)
        return (w, local(w), [V + "::CreateVolumeInfo"])

    def m_clm():
        w = F.fn(C + "::WriteArchive", nparams=5)
        return (w, local(w), [C])

    def m_wav():
        w = F.fn(C + "::ExtractFile", nparams=2, pred=lambda f: "unsigned long" in f.key)
        return (w, local(w), [C])
    return _Lazy({"map": m_map, "prt": m_prt, "bmp": m_bmp, "tileset": m_ts, "vol": m_vol, "clm": m_clm, "wav": m_wav})


def readers(F):
    def r_map():
        r = F.fn(M + "::ReadMap", nparams=1, pred=lambda f: "Reader &)" in f.key)
        return (r, P(r, 0), [M])

    def r_prt():
        r = F.fn(A + "::Read", nparams=1, pred=lambda f: "Reader &)" in f.key)
        return (r, P(r, 0), [A])

    def r_bmp():
        r = F.fn(B + "::ReadIndexed", nparams=1, pred=lambda f: "Reader &)" in f.key)
        return (r, P(r, 0), [B])

    def r_ts():
        r = F.fn(T + "ReadCustomTileset", nparams=1, pred=lambda f: "Reader &)" in f.key)
        return (r, P(r, 0), [B])

    def r_vol():
        r = F.fn(V + "::ReadVolHeader", nparams=0)
        return (r, ("mem", ("this",), "archiveFileReader"), [V])

    def r_clm():
        r = F.fn(C + "::ReadHeader", nparams=0)
        return (r, ("mem", ("this",), "clmFileReader"), [C])
    return _Lazy({"map": r_map, "prt": r_prt, "bmp": r_bmp, "tileset": r_ts, "vol": r_vol, "clm": r_clm})


def seq_obligations(F, name, with_reader=True, min_sites=None, reader_prefix=False):
    """R-SEQ obligations for one format: writer == spec, reader == writer."""
    from ..rules_seq import Tracer, r_seq
    from ..extract import AnalysisBroken
    wf, ws, wroots = writers(F)[name]
    tw = Tracer(F, wroots)
    wt = tw.trace(wf, ws)
    rt = None
    rf = None
    nsites = tw.sites
    if with_reader:
        rf, rs, rroots = readers(F)[name]
        tr = Tracer(F, rroots)
        rt = tr.trace(rf, rs)
        nsites += tr.sites
    if min_sites is not None and nsites < min_sites:
        raise AnalysisBroken("R-SEQ %s: only %d I/O call sites traced (floor %d)" % (name, nsites, min_sites))
    obs = r_seq(name, wt, rt, name, wf.loc(wf.body), rf.loc(rf.body) if rf else "", wf.qn, rf.qn if rf else "", reader_prefix=reader_prefix)
    return obs, nsites

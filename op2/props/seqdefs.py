"""Entry points (function, stream term, root object types) of every serialiser / parser pair."""
A = "OP2Utility::ArtFile"
B = "OP2Utility::BitmapFile"
T = "OP2Utility::Tileset::"
V = "OP2Utility::Archive::VolFile"
C = "OP2Utility::Archive::ClmFile"
M = "OP2Utility::Map"


def P(fn, i):
    return ("var", fn.params[i]["n"], fn.params[i]["d"])


def local(fn, name):
    from ..extract import AnalysisBroken
    c = [("var", d["n"], d["d"]) for nd in fn.nodes if nd["k"] == "DeclStmt" for d in nd["decls"] if d.get("n") == name]
    if len(c) != 1:
        raise AnalysisBroken("%s: local stream `%s` not found" % (fn.qn, name))
    return c[0]


def writers(F):
    out = {}
    w = F.fn(M + "::Write", nparams=1, pred=lambda f: "Writer" in f.key)
    out["map"] = (w, P(w, 0), [M])
    w = F.fn(A + "::Write", nparams=1, pred=lambda f: "Writer &" in f.key)
    out["prt"] = (w, P(w, 0), [A])
    w = F.fn(B + "::WriteIndexed", nparams=1, pred=lambda f: "Writer &)" in f.key)
    out["bmp"] = (w, P(w, 0), [B])
    w = F.fn(T + "WriteCustomTileset", nparams=2, pred=lambda f: "Writer &," in f.key)
    out["tileset"] = (w, P(w, 0), [B])
    w = F.fn(V + "::WriteVolume", nparams=2)
    out["vol"] = (w, local(w, "volWriter"), [V + "::CreateVolumeInfo"])
    w = F.fn(C + "::WriteArchive", nparams=5)
    out["clm"] = (w, local(w, "clmFileWriter"), [C])
    w = F.fn(C + "::ExtractFile", nparams=2, pred=lambda f: "unsigned long" in f.key)
    out["wav"] = (w, local(w, "waveFileWriter"), [C])
    return out


def readers(F):
    out = {}
    r = F.fn(M + "::ReadMap", nparams=1, pred=lambda f: "Reader &)" in f.key)
    out["map"] = (r, P(r, 0), [M])
    r = F.fn(A + "::Read", nparams=1, pred=lambda f: "Reader &)" in f.key)
    out["prt"] = (r, P(r, 0), [A])
    r = F.fn(B + "::ReadIndexed", nparams=1, pred=lambda f: "Reader &)" in f.key)
    out["bmp"] = (r, P(r, 0), [B])
    r = F.fn(T + "ReadCustomTileset", nparams=1, pred=lambda f: "Reader &)" in f.key)
    out["tileset"] = (r, P(r, 0), [B])
    r = F.fn(V + "::ReadVolHeader", nparams=0)
    out["vol"] = (r, ("mem", ("this",), "archiveFileReader"), [V])
    r = F.fn(C + "::ReadHeader", nparams=0)
    out["clm"] = (r, ("mem", ("this",), "clmFileReader"), [C])
    return out


def seq_obligations(F, name, with_reader=True, min_sites=None, reader_prefix=False):
    """R-SEQ obligations for one format: writer == spec, reader == writer."""
    from ..rules_seq import Tracer, r_seq
    from ..extract import AnalysisBroken
    wf, ws, wroots = writers(F)[name]
    tw = Tracer(F, wroots)
    wt = tw.trace(wf, ws)
    rt = None
    rf = None
    nsites = tw.sites
    if with_reader:
        rf, rs, rroots = readers(F)[name]
        tr = Tracer(F, rroots)
        rt = tr.trace(rf, rs)
        nsites += tr.sites
    if min_sites is not None and nsites < min_sites:
        raise AnalysisBroken("R-SEQ %s: only %d I/O call sites traced (floor %d)" % (name, nsites, min_sites))
    obs = r_seq(name, wt, rt, name, wf.loc(wf.body), rf.loc(rf.body) if rf else "", wf.qn, rf.qn if rf else "", reader_prefix=reader_prefix)
    return obs, nsites

"""C02 — Written VOLs obey the VOL format; format-conforming VOLs are read back."""
from ..extract import AnalysisBroken
from ..facts import CALLS, CTORS, fmt_term
from ..flow import Engine, Summaries, final_site_facts, fmt_fact
from ..report import ok, bad
from ..invariants import class_invariants
from ..rules_acct import vol_accounting
from ..rules_archive import r_index, raw_io_extents
from ..rules_layout import r_layout
from .seqdefs import seq_obligations, readers
from ..rules_seq import Tracer, normalise, flatten
from . import c01, c05, c18, c19

AR = "OP2Utility::Archive::"
VOL = AR + "VolFile"

DECLINED = [
    "that an archive produced by an independent encoder (incl. LZH members) is opened with the same names, sizes, kinds and "
    "payloads (values): the independent encoder/decoder oracle is replaced, for the clauses decided, by an independent "
    "description of the format (spec/vol.seq.json, spec/layout.json)",
    "zero content of padding bytes beyond: they are written from a zero-initialised local of at most sizeof(int) bytes",
]


def reader_sections(F, S):
    """The reader asks for the four section tags in format order and takes each length from the header it read."""
    out = []
    rv = F.fn(VOL + "::ReadVolHeader", nparams=0)
    tags = []
    def tag_calls(fn, depth=2):
        """ReadTag calls in execution (source) order, following calls to helpers on the same object."""
        res = []
        for n in sorted([n for n in fn.nodes if n["k"] in CALLS], key=lambda n: n["id"]):
            if n.get("fname") == "ReadTag":
                res.append((fn, n))
            elif depth > 0 and n["k"] == "CXXMemberCallExpr" and "obj" in n and fn.term(n["obj"]) == ("this",):
                for cal in F.callees(n):
                    if cal.cfg and cal.cls == VOL and cal.name != "ReadTag":
                        res += tag_calls(cal, depth - 1)
        return res
    for (rv_, nd) in tag_calls(rv):
        t = rv_.term(nd["args"][0])
        tags.append(t[2][0][1].split("::")[-1] if t[0] == "ctor" and t[2] and t[2][0][0] == "global" else (t[1].split("::")[-1] if t[0] == "global" else fmt_term(t)))
    inst = VOL + "::ReadVolHeader#section-order"
    want = ["TagVOL_", "TagVOLH", "TagVOLS", "TagVOLI"]
    if tags == want:
        out.append(ok("R-SEQ", inst, rv.loc(rv.body), rv.qn, "sections are read in the format's order 'VOL ', volh, vols, voli", " ".join(tags)))
    else:
        out.append(bad("R-SEQ", inst, rv.loc(rv.body), rv.qn, "sections are read in the format's order 'VOL ', volh, vols, voli", "reads %s" % tags))
    rt = F.fn(VOL + "::ReadTag", nparams=1)
    eng = Engine(F, S)
    ex = eng.analyze(rt, frozenset()) or frozenset()
    from ..flow import mentions
    tp = ("var", rt.params[0]["n"], rt.params[0]["d"])
    tagchk = any(f[0] == "==" and mentions(f, tp) and ".tag" in fmt_fact(f) for f in ex) or any(f[0] == "ev" and f[1] == "passed" and mentions(f[2], tp) for f in ex)
    inst = VOL + "::ReadTag#tag-compared"
    if tagchk:
        out.append(ok("R-MUSTCALL", inst, rt.loc(rt.body), rt.qn, "a section whose tag differs from the expected one is refused", "refusal on every returning path"))
    else:
        out.append(bad("R-MUSTCALL", inst, rt.loc(rt.body), rt.qn, "a section whose tag differs from the expected one is refused", "no such refusal"))
    return out


def check(F, run, tier):
    S = Summaries(F)
    from ..rules_archive import verified_names_final
    run.add(verified_names_final(F, S, F.fn(VOL + "::CreateArchive", nparams=2), VOL + "::CreateArchive"))
    # refusals at the edge of an integer type's range are exact (neither the largest representable value is turned away nor
    # the first unrepresentable one let through), wherever in the library they are made
    from ..rules_stream import capacity_refusals_exact
    _oc, _nc = capacity_refusals_exact(F, S, ["/src/"])
    run.add(_oc)
    run.floor("capacity-refusals", _nc, 33)
    run.declined = DECLINED
    run.explanation = (
        "Static analysis of the VOL writer against an independent description of the format, and of the reader's handling of "
        "the clauses the property names. Decided: R-SEQ (the writer's token sequence equals spec/vol.seq.json: section tags, "
        "order, which expression feeds each length; the reader asks for the sections in that order and refuses a wrong tag), "
        "R-LAYOUT (SectionHeader with its 31-bit length, IndexEntry, CompressionType values, the five tags, padding enum), "
        "R-ACCT (lengths tile the header; blocks contiguous and 4-byte aligned), R-MUSTCALL (entries sorted by the checked "
        "case-insensitive comparator before layout), and reader safety for unused trailing slots / over-long index sections: "
        "whole index entries only are read, and valid-entry count <= name count is enforced (R-TAINT raw extents, R-INDEX with "
        "derived invariants).")
    obs, n = seq_obligations(F, "vol", with_reader=False, min_sites=10)
    run.add(obs)
    run.add(reader_sections(F, S))
    run.add(r_layout(F, records=[VOL + "::SectionHeader", VOL + "::IndexEntry", "OP2Utility::Tag"],
                     enums=[AR + "CompressionType", VOL + "::VolPadding"],
                     constants=[AR + "TagVOL_", AR + "TagVOLH", AR + "TagVOLS", AR + "TagVOLI", AR + "TagVBLK"]))
    run.add(vol_accounting(F, S))
    run.add(c18.sort_before_layout(F, S)[:1])
    run.add(c19.compare_path_filenames(F))
    lt = F.fn("OP2Utility::StringUtility::IsEqualCaseInsensitive", nparams=2)
    from ..rules_sib import symmetric_keys, lexicographic_less
    from ..rules_sib import case_insensitive_less
    run.add(case_insensitive_less(F, lt, "OP2Utility::StringUtility::IsEqualCaseInsensitive"))
    run.add(c01.uncompressed_kind(F, S))
    run.add(c01.parallel_tables(F, S))
    # reader side
    inv, notes = class_invariants(F, S, VOL)
    obs, n, eng = r_index(F, S, VOL, inv)
    run.add(obs)
    run.floor("R-INDEX", n, 6)
    rd = [F.fn(VOL + "::" + x, nparams=k) for x, k in (("ReadVolHeader", 0), ("ReadStringTable", 0), ("ReadTag", 1), ("GetSectionHeader", 1))]
    obs, n = raw_io_extents(F, S, rd, "Read")
    run.add(obs)
    need = [f for f in inv if "m_Count" in repr(f)]
    inst = VOL + "#count-invariants"
    txt = sorted(fmt_fact(f) for f in inv)
    has_names = any(f[0] == "<=" and f[1] == ("mem", ("this",), "m_Count") and f[2] == ("size", ("mem", ("this",), "m_StringTable")) for f in inv)
    has_entries = any("m_IndexEntries" in repr(f) for f in inv) and any(f[0] == "<=" and f[1] == ("mem", ("this",), "m_Count") for f in inv)
    if has_names and has_entries:
        run.add(ok("R-INDEX", inst, "VolFile.cpp", VOL, "after opening: count <= names and count <= whole index entries read (unused trailing slots and a ragged index length are tolerated safely)", "; ".join(txt)))
    else:
        run.add(bad("R-INDEX", inst, "VolFile.cpp", VOL, "after opening: count <= names and count <= whole index entries read (unused trailing slots and a ragged index length are tolerated safely)", "derived: " + "; ".join(txt)))
    # unused trailing slots: counting stops at the first entry whose filenameOffset is 0xFFFFFFFF, and the refusal compares the count of used slots
    cv, cv_inlined = F.fn_or_host(VOL + "::CountValidEntries", 0, VOL + "::ReadVolHeader", 0)
    from ..rules_sib import enclosing_if_cond
    from ..facts import NEGATED_CMP
    from ..rules_stream import is_store
    loops = [nd for nd in cv.nodes if nd["k"] in ("ForStmt", "WhileStmt")]
    if cv_inlined:
        # inside the host only the loop that subscripts the index entries is the count
        loops = [nd for nd in loops if "m_IndexEntries" in repr(cv.term(nd["cond"])) or any(
            cv.n(x)["k"] == "BreakStmt" for x in cv.subtree(nd["body"]))]
    good = False
    counter = None
    if len(loops) == 1:
        lp = loops[0]
        body = set(cv.subtree(lp["id"]))
        # the counter is the local the loop increments
        incs = [cv.term(cv.kids(x)[0]) for x in body if cv.n(x)["k"] == "UnaryOperator" and cv.n(x).get("op") in ("++",)]
        incs = [t for t in incs if t[0] == "var"]
        counter = incs[0] if len(set(incs)) == 1 else None

        def conjuncts(t):
            if t[0] == "op" and t[1] == "&&":
                return conjuncts(t[2]) + conjuncts(t[3])
            return [t]
        # conditions under which counting continues: the loop condition's conjuncts and the negations of the break guards
        cont = conjuncts(cv.term(lp["cond"])) if "cond" in lp else []
        for x in body:
            if cv.n(x)["k"] == "BreakStmt":
                cid, in_then = enclosing_if_cond(cv, x)
                t = cv.term(cid) if cid is not None else None
                if t is not None and t[0] == "op" and t[1] in NEGATED_CMP and in_then:
                    cont.append(("op", NEGATED_CMP[t[1]], t[2], t[3]))
                else:
                    cont.append(("?",))
        if counter is not None:
            entry_off = ("mem", ("idx", ("mem", ("this",), "m_IndexEntries"), counter), "filenameOffset")
            want = {("op", "<", counter, ("mem", ("this",), "m_IndexEntryCount")), ("op", "!=", entry_off, ("const", 0xffffffff))}
            norm = set()
            for t in cont:
                if t[0] == "op" and t[1] == "!=" and t[2][0] == "const":
                    t = ("op", "!=", t[3], t[2])
                norm.add(t)
            good = norm == want
    if not loops:
        # algorithm form: count = distance(begin, find_if(entries, e -> e.filenameOffset == 0xFFFFFFFF))
        from ..through import searches
        from .c05 import alias_defs, resolve
        for x in searches(F, cv):
            if x["kind"] == "algo:find_if" and x["range"] == ("mem", ("this",), "m_IndexEntries"):
                pr = x["pred"]
                pred_ok = pr[0] == "op" and pr[1] == "==" and {pr[2], pr[3]} == {("mem", x["elem"], "filenameOffset"), ("const", 0xffffffff)}
                ft = cv.term(x["node"]["id"])
                adefs = alias_defs(cv)
                for v, t0 in adefs.items():
                    t1 = resolve(t0, {k: w for k, w in adefs.items() if k != v})
                    if t1[0] == "call" and t1[1] == "std::distance" and len(t1[3]) == 2 and t1[3][1] == ft and t1[3][0][0] == "call" \
                            and t1[3][0][2] == x["range"] and t1[3][0][1].split("::")[-1] in ("begin", "cbegin"):
                        counter = v
                good = pred_ok and counter is not None
    eng = Engine(F, S)
    eng.analyze(cv, frozenset())
    ref = [nd for nd in cv.nodes if nd["k"] == "CXXThrowExpr"]
    used = False
    if ref and counter is not None:
        from ..flow import mentions
        for r0 in ref:
            cid, _ = enclosing_if_cond(cv, r0["id"])
            t = cv.term(cid) if cid is not None else None
            if t is not None and mentions(t, counter):
                used = "m_StringTable" in repr(t) and "m_IndexEntryCount" not in repr(t)
                break
    inst = VOL + "::CountValidEntries#unused-slots"
    if good and (used or not ref):
        run.add(ok("R-SEQ", inst, cv.loc(cv.body), cv.qn, "entries are counted up to the first unused slot (filenameOffset 0xFFFFFFFF); only used slots must have names", "counting continues exactly while index < entry count and filenameOffset != 0xFFFFFFFF; refusal compares the used-slot count"))
    else:
        run.add(bad("R-SEQ", inst, cv.loc(cv.body), cv.qn, "entries are counted up to the first unused slot (filenameOffset 0xFFFFFFFF); only used slots must have names",
                    "stop condition recognised: %s; refusal on the used-slot count: %s" % (good, used)))
    obs, n = c05.member_extents(F, S)
    run.add([o for o in obs if "VolFile" in o.instance])
    run.floor("obligations", len(run.obligations), 40)

"""C11 — Bitmap, tileset and PRT loaders are safe on arbitrary bytes; results safe to use."""
from ..extract import AnalysisBroken
from ..facts import CALLS, CTORS, fmt_term
from ..flow import Engine, Summaries, final_site_facts, fmt_fact
from ..prove import prove_le, Width
from ..report import ok, bad
from ..rules_sib import P, returns
from ..rules_archive import facts_txt, raw_io_extents
from ..rules_stream import r_guard_exact
from . import imgcommon as ic
from . import c05, c08, c09, c10

A = "OP2Utility::ArtFile"
SL = "OP2Utility::SpriteLoader"
B = ic.B
T = "OP2Utility::Tileset::"

DECLINED = [
    "absence of every memory error and termination of these loaders in general (only the listed sink classes are decided)",
    "InvertScanLines / WriteIndexed on objects whose public members were edited by hand after loading (the property quantifies over "
    "loader-returned objects, for which pixels.size() == pitch x |height| was established at return)",
    "resource exhaustion from large but self-consistent headers",
]


def sprite_extraction(F, S):
    out = []
    ex = F.fn(SL + "::ExtractImage", nparams=2)
    eng = Engine(F, S)
    eng.analyze(ex, frozenset())
    idx = P(ex, 0)
    # the image index is verified before the subscript
    subs = [nd for nd in ex.nodes if nd["k"] == "CXXOperatorCallExpr" and nd.get("op") == "[]" and "imageMetas" in repr(ex.term(nd["args"][0]))]
    if len(subs) != 1:
        raise AnalysisBroken("ExtractImage: imageMetas subscript not found")
    site = final_site_facts(eng, ex, subs[0]["id"]) or set()
    inst = SL + "::ExtractImage#index-verified"
    base = ex.term(subs[0]["args"][0])
    if prove_le(site, idx, ("size", base), strict=True) or any(f[0] == "<" and f[1] == idx and f[2][0] == "size" and "imageMetas" in repr(f[2]) for f in site):
        out.append(ok("R-INDEX", inst, ex.loc(subs[0]["id"]), ex.qn, "index < imageMetas.size() holds at the subscript", "established by VerifyImageIndexInBounds"))
    else:
        out.append(bad("R-INDEX", inst, ex.loc(subs[0]["id"]), ex.qn, "index < imageMetas.size() holds at the subscript", "facts: " + facts_txt(site)))
    v = F.fn(A + "::VerifyImageIndexInBounds", nparams=1)
    out += r_guard_exact(F, Engine(F, S), v, [(P(v, 0), ("size", ("mem", ("this",), "imageMetas")), True)])
    # pixel window: obtained only through FileReader::Slice, product formed in 64 bits, slice before the allocation
    gp = F.fn(SL + "::GetPixels", nparams=2)
    sl = [nd for nd in gp.nodes if nd["k"] == "CXXMemberCallExpr" and nd.get("fname") == "Slice"]
    inst = SL + "::GetPixels#slice"
    if len(sl) == 1 and gp.term(sl[0]["obj"]) == ("mem", ("this",), "bmpReader") and [gp.term(a) for a in sl[0]["args"]] == [P(gp, 0), P(gp, 1)]:
        out.append(ok("R-WHOCALLS", inst, gp.loc(sl[0]["id"]), gp.qn, "the pixel window is bmpReader.Slice(start, length): bounds-checked against the pixel file", "Slice(startingIndex, length)"))
    else:
        out.append(bad("R-WHOCALLS", inst, gp.loc(gp.body), gp.qn, "the pixel window is bmpReader.Slice(start, length): bounds-checked against the pixel file", "shape not found"))
    W = Width(ex)
    gpc = [nd for nd in ex.nodes if nd["k"] in CALLS and nd.get("fname") == "GetPixels"]
    if len(gpc) != 1:
        raise AnalysisBroken("ExtractImage: GetPixels call not found")
    for i, a in enumerate(gpc[0]["args"]):
        for (x, base_op) in W.arith_nodes(a):
            inst = "%s::ExtractImage#window-arith:%s" % (SL, fmt_term(ex.term(x)))
            if W.may_wrap(x, base_op):
                out.append(bad("R-NOWRAP", inst, ex.loc(x), ex.qn, "window offset / size arithmetic cannot wrap", "%s needs %d bits in %s" % (fmt_term(ex.term(x)), W.needed(x), ex.n(x).get("iw"))))
            else:
                out.append(ok("R-NOWRAP", inst, ex.loc(x), ex.qn, "window offset / size arithmetic cannot wrap", "needs %d bits, formed in %s" % (W.needed(x), ex.n(x).get("iw"))))
    # the allocation is the byte vector constructed with a size (whatever it is called)
    alloc = [nd for nd in ex.nodes if nd["k"] == "DeclStmt" and any(
        (d.get("rec") or "").startswith("std::vector<unsigned char") and "init" in d and ex.term(d["init"])[0] == "ctor" and len(ex.term(d["init"])[2]) >= 1
        for d in nd.get("decls", []))]
    inst = SL + "::ExtractImage#slice-before-allocation"
    if alloc and alloc[0]["id"] > gpc[0]["id"]:
        asite = final_site_facts(eng, ex, alloc[0]["id"]) or set()
        if ("ev", "called", SL + "::GetPixels") in asite:
            out.append(ok("R-ORDER", inst, ex.loc(alloc[0]["id"]), ex.qn, "the (refusable) pixel window is created before memory of that size is allocated", "GetPixels dominates the allocation"))
        else:
            out.append(bad("R-ORDER", inst, ex.loc(alloc[0]["id"]), ex.qn, "the (refusable) pixel window is created before memory of that size is allocated", "not dominated"))
    else:
        out.append(bad("R-ORDER", inst, ex.loc(ex.body), ex.qn, "the (refusable) pixel window is created before memory of that size is allocated", "allocation precedes the slice"))
    # palette copy: source index validated at load time, copy length bounded by both palettes
    g = F.fn(SL + "::GetPalette", nparams=1)
    cp = [nd for nd in g.nodes if nd["k"] in CALLS and (nd.get("fq") or "") in ("std::copy", "std::copy_n")]
    inst = SL + "::GetPalette#copy-extent"
    req = "the number of colours copied is the destination size 1 << bitCount with bitCount in {1, 8}, never more than the 256-entry source"
    good = False
    detail = "std::copy not found"
    if len(cp) == 1:
        defs = c05.alias_defs(g)
        # the destination palette is the local the function returns
        rv = [g.term(r["value"]) for r in returns(g)]
        # (identity, not value: the destination is of course written by the copy)
        pal = [v for v in rv if v[0] == "var" and any(x["k"] == "DeclStmt" and any(("var", d.get("n"), d.get("d")) == v for d in x.get("decls", [])) for x in g.nodes)]
        adefs = {k: v for k, v in defs.items() if k not in pal}
        a = [c05.resolve(g.term(x), adefs) for x in cp[0]["args"]]
        dst_n = None
        for nd in g.nodes:
            if nd["k"] == "DeclStmt":
                for d in nd.get("decls", []):
                    if pal and ("var", d.get("n"), d.get("d")) == pal[0] and "init" in d:
                        dst_n = c05.resolve(g.term(d["init"]), defs)
        detail = "copy(%s, %s, %s); destination %s" % (fmt_term(a[0]), fmt_term(a[1]), fmt_term(a[2]), fmt_term(dst_n) if dst_n else "?")
        # end iterator = begin + palette.size(); destination constructed with (1 << bitCount); bitCount = isShadow ? 1 : 8
        end_ok = False
        if pal and cp[0]["fq"] == "std::copy_n":
            # copy_n(first, count, out): the count itself
            end_ok = a[1] == ("size", pal[0])
        elif pal:
            if a[1][0] == "opcall" and a[1][1] == "+":
                end_ok = a[1][2][0] == a[0] and a[1][2][1] == ("size", pal[0])
            elif a[1][0] == "op" and a[1][1] == "+":
                end_ok = a[1][2] == a[0] and a[1][3] == ("size", pal[0])
        import re
        m = re.search(r"std::array<[^,]+, (\d+)>::begin", a[0][1] if a[0][0] == "call" else "")
        src_len = int(m.group(1)) if m else None
        dst_ok = dst_n is not None and dst_n[0] == "ctor" and dst_n[2] and dst_n[2][0][0] == "op" and dst_n[2][0][1] == "<<" and \
            dst_n[2][0][3][0] == "cond" and {dst_n[2][0][3][2], dst_n[2][0][3][3]} == {("const", 1), ("const", 8)}
        begin_dst = bool(pal) and a[2][0] == "call" and a[2][1].endswith("::begin") and a[2][2] == pal[0]
        rec = F.record("OP2Utility::PaletteHeader")
        good = end_ok and dst_ok and begin_dst and src_len is not None and (1 << 8) <= src_len
    if good:
        out.append(ok("R-INDEX", inst, g.loc(cp[0]["id"]), g.qn, req, detail))
    else:
        out.append(bad("R-INDEX", inst, g.loc(g.body), g.qn, req, detail))
    return out


def check(F, run, tier):
    S = Summaries(F)
    from ..rules_archive import find_position_obligations
    find_position_obligations(F, S, run, ["/Bitmap/", "/Sprite/"])
    from ..rules_archive import clamp_obligations
    clamp_obligations(F, S, run, ["/Bitmap/", "/Sprite/"])
    # saving what was loaded reads no memory outside the loaded object: every raw (pointer, count) write of the picture
    # savers is bounded by the extent of what the pointer addresses
    from . import c18 as _c18
    _ow, _nw = _c18.raw_write_extents(F, S)
    run.add([o for o in _ow if o.instance.split(":")[0] in ("tileset", "bmp", "prt")])
    from ..rules_archive import discarded_exception_obligations
    discarded_exception_obligations(F, S, run)
    from ..rules_archive import cstring_obligations
    cstring_obligations(F, S, run)
    from ..rules_archive import handlers_rethrow
    _oh, _nh = handlers_rethrow(F, S, ["/src/"])
    run.add(_oh)
    run.floor("exception-handlers", _nh, 7)
    from ..rules_archive import noexcept_obligations
    noexcept_obligations(F, S, run)
    run.declined = DECLINED
    from ..rules_valid import verifier_arguments
    _va, _vn = verifier_arguments(F)
    run.add(_va)
    run.floor("verifier-arguments", _vn, 30)
    run.explanation = (
        "Static analysis of the picture loaders and of the follow-up operations on what they return. Decided: the image index "
        "verifier refuses exactly index >= count and dominates the subscript; the palette index is strictly bounded by the "
        "load-time validation; the sprite palette copy is bounded by the destination (1 << {1,8} <= 256); the pixel window is "
        "obtained only through the bounds-checked slice, its arithmetic is formed in 64 bits and it is created before the "
        "allocation; a validated or factory-made header has width >= 0 and height != INT32_MIN; header validation dominates "
        "every allocation sized from a header (bitmap palette, custom tileset); all loader reads are the throwing kind (no "
        "ReadPartial); raw reads are bounded by their buffers; InvertScanLines has no unguarded unsigned subtraction.")
    run.add(sprite_extraction(F, S))
    # palette index bound established at load time (shared with C10)
    run.add([o for o in c10.validations(F, S) if "strength" in o.instance or "validated:ValidateImageMetadata" in o.instance])
    run.add(ic.dimension_refusal(F, S))
    run.add(ic.reader_validations(F, S))
    run.add(ic.validate_not_stricter(F, S))
    run.add(c08.palette_bound(F, S))
    run.add([o for o in c09.validation_and_orientation(F, S) if "headers-before-allocation" in o.instance or "#validated" in o.instance])
    run.add(ic.invert_scan_lines(F, S))
    run.add(ic.pitch_law(F, S))
    run.add(ic.pixel_size_check_width(F, S))
    o_, _n = ic.divisors_nonzero(F, S, ["/Bitmap/", "/Sprite/"])
    run.add(o_)
    fx = [f for f in F.fixture_functions.values() if f.qn == "fixture::RowsThatFit"]
    hit = bool(fx) and any(x.status == "violated" for x in ic.divisors_nonzero(F, S, [], functions=fx)[0])
    run.fixture("fixtures/raw_read.cpp: totalBytes / rowBytesFromFile with nothing excluding zero is reported by R-TAINT(divisor)", hit)
    obs, n = ic.no_partial_reads(F, S, ["/Bitmap/", "/Sprite/"])
    run.add(obs)
    run.floor("read-sites", n, 30)
    fx = [f for f in F.fixture_functions.values() if f.qn == "fixture::ParserUsingReadPartial"]
    hit = bool(fx) and any(nd["k"] == "CXXMemberCallExpr" and nd.get("fname") == "ReadPartial" for nd in fx[0].nodes)
    run.fixture("fixtures/raw_read.cpp: a parser calling ReadPartial is recognised by R-WHOCALLS", hit)
    readers = [f for f in F.functions.values() if ("/Bitmap/IndexedBmpReader" in f.file or "/Sprite/ArtReader" in f.file or "/Sprite/TilesetLoader" in f.file) and f.cfg]
    o, k = raw_io_extents(F, S, readers, "Read")
    run.add(o)
    run.floor("obligations", len(run.obligations), 30)

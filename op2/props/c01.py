"""C01 — VOL pack, reopen, extract returns exactly the files that went in."""
from ..extract import AnalysisBroken
from ..facts import CALLS, CTORS, fmt_term
from ..flow import Engine, Summaries, final_site_facts
from ..report import ok, bad
from ..rules_acct import vol_accounting
from ..rules_layout import r_layout
from ..rules_stream import is_store
from .seqdefs import seq_obligations
from . import c05, c17, c18, c19, c20, c14

AR = "OP2Utility::Archive::"
VOL = AR + "VolFile"
NS = "OP2Utility::Stream::"

DECLINED = [
    "byte-for-byte equality of extracted content and exact sizes (values); behaviour around the 128 KiB copy-chunk boundary",
    "that a member is named by the input path's final component (inside std::filesystem::path::filename)",
]


def whole_input_copied(F, S):
    """R-COPYEXT on the pack side: the reader copied for member i is fileStreamReaders[i], whose Length() was recorded as
    fileSize of entry i, freshly opened (position 0) and not moved before the copy."""
    out = []
    wf = F.fn(VOL + "::WriteFiles", nparams=2)
    ph = F.fn(VOL + "::PrepareHeader", nparams=2)
    # the function that opens the inputs: wherever the readers are appended to fileStreamReaders
    openers = [f for f in F.functions.values() if f.cls == VOL and f.cfg and any(
        nd["k"] == "CXXMemberCallExpr" and nd.get("fname") in ("push_back", "emplace_back") and "obj" in nd and "fileStreamReaders" in repr(f.term(nd["obj"]))
        for nd in f.nodes)]
    if len(openers) != 1:
        raise AnalysisBroken("VolFile: expected one function appending to fileStreamReaders, found %d" % len(openers))
    oa = openers[0]
    w = ("var", wf.params[0]["n"], wf.params[0]["d"])
    # the copy of the input, in WriteFiles or in a helper the block body was moved into
    from ..through import find_calls
    csites = find_calls(F, wf, lambda nd: nd["k"] == "CXXMemberCallExpr" and nd.get("fname") == "Write" and len(nd.get("args", [])) == 1
                        and (nd.get("targs") or [{}])[0].get("int") is not None, depth=2)
    copies = [c_.node for c_ in csites]
    inst = VOL + "::WriteFiles#copies-reader-i"
    good = len(copies) == 1
    if good:
        t = csites[0].term(copies[0]["args"][0])
        t = wf.through_locals_at(t, csites[0].outer_id())
        good = t[0] == "un" and t[1] == "*" and t[2][0] == "idx" and t[2][1][0] == "mem" and t[2][1][2] == "fileStreamReaders"
        idx_w = t[2][2] if good else None
        hdr = [nd for nd in wf.nodes if nd["k"] in CTORS and (nd.get("ctor_rec") or "").endswith("VolFile::SectionHeader")]
        same_i = good and hdr and idx_w == wf.xterm(hdr[0]["args"][1])[1][2]
        good = good and same_i
    if good:
        out.append(ok("R-COPYEXT", inst, wf.loc(copies[0]["id"]), wf.qn, "block i is header(fileSize of entry i) followed by a copy of reader i", "Write(*fileStreamReaders[i]) after SectionHeader(VBLK, indexEntries[i].fileSize)"))
    else:
        out.append(bad("R-COPYEXT", inst, wf.loc(wf.body), wf.qn, "block i is header(fileSize of entry i) followed by a copy of reader i", "shape not found"))
    # the recorded size of entry i is Length() of reader i
    sz = None
    from .c05 import alias_defs, resolve
    from ..through import entry_producer
    from ..flow import substitute
    ep = entry_producer(F, ph)
    hostf = ep["host"] if ep else ph
    for nd in hostf.nodes:
        if is_store(nd):
            ks = hostf.kids(nd["id"])
            l = hostf.term(ks[0])
            if l[0] == "mem" and l[2] == "fileSize":
                sz = resolve(hostf.term(ks[1]), alias_defs(hostf))
                if ep and ep["subst"]:
                    sz = substitute(sz, ep["subst"])      # the helper's parameter is the argument PrepareHeader passes
    inst = VOL + "::PrepareHeader#size-is-length"
    good = sz is not None and sz[0] == "call" and sz[1].endswith("::Length") and "fileStreamReaders" in repr(sz[2])
    if good:
        out.append(ok("R-COPYEXT", inst, ph.loc(ph.body), ph.qn, "the size recorded for member i is fileStreamReaders[i]->Length()", fmt_term(sz)))
    else:
        out.append(bad("R-COPYEXT", inst, ph.loc(ph.body), ph.qn, "the size recorded for member i is fileStreamReaders[i]->Length()", fmt_term(sz) if sz else "?"))
    # readers are opened fresh, in list order, and not read or moved before WriteFiles
    pb = [nd for nd in oa.nodes if nd["k"] == "CXXMemberCallExpr" and nd.get("fname") in ("push_back", "emplace_back") and "fileStreamReaders" in repr(oa.term(nd["obj"]))]
    loops = [nd for nd in oa.nodes if nd["k"] == "CXXForRangeStmt" and pb and pb[0]["id"] in oa.subtree(nd["id"])]
    good = len(pb) == 1 and len(loops) == 1 and "filesToPack" in repr(oa.term(loops[0]["range"])) and "make_unique" in repr(oa.term(pb[0]["args"][0]))
    moved = []
    for fn in ({ph.key: ph, oa.key: oa}.values()):
        for nd in fn.nodes:
            if nd["k"] == "CXXMemberCallExpr" and nd.get("fname") in ("Read", "ReadPartial", "Seek", "SeekForward", "SeekBackward", "Slice") and "obj" in nd \
                    and "fileStreamReaders" in repr(fn.term(nd["obj"])):
                moved.append((fn, nd))
    for fn in (F.fn(VOL + "::WriteHeader", nparams=2), F.fn(VOL + "::WriteVolume", nparams=2), F.fn(VOL + "::CreateArchive", nparams=2)):
        for nd in fn.nodes:
            if nd["k"] == "CXXMemberCallExpr" and nd.get("fname") in ("Read", "ReadPartial", "Seek", "SeekForward", "SeekBackward", "Slice") and "obj" in nd \
                    and "fileStreamReaders" in repr(fn.term(nd["obj"])):
                moved.append((fn, nd))
    inst = VOL + "#readers-untouched-before-copy"
    if good and not moved:
        out.append(ok("R-COPYEXT", inst, oa.loc(pb[0]["id"]), oa.qn, "each input is opened once, in list order, and only Length() is asked of it before it is copied", "no read / seek on the readers before WriteFiles"))
    else:
        out.append(bad("R-COPYEXT", inst, oa.loc(oa.body), oa.qn, "each input is opened once, in list order, and only Length() is asked of it before it is copied",
                       "moved at %s" % ", ".join("%s@%s" % (f.name, f.loc(n["id"])) for f, n in moved) if moved else "open loop shape not found"))
    return out


def parallel_tables(F, S):
    """names, readers and index entries are all derived from the sorted list by order-preserving loops."""
    out = []
    ca = F.fn(VOL + "::CreateArchive", nparams=2)
    files = ("var", ca.params[1]["n"], ca.params[1]["d"])
    st = {}
    at = {}
    for nd in ca.nodes:
        if nd["k"] == "CXXOperatorCallExpr" and nd.get("op") == "=" and nd.get("args"):
            l = ca.term(nd["args"][0])
            if l[0] == "mem":
                st[l[2]] = ca.term(nd["args"][1])
                at[l[2]] = (nd["id"], l)
    inst = VOL + "::CreateArchive#tables-from-sorted-list"
    # the sorted list is copied or moved into the scratch structure; the names are derived from the sorted list, which after a
    # move is the stored member (the moved-from parameter is empty) and before it the parameter
    moved = st.get("filesToPack") == ("call", "std::move", None, (files,))
    good = (st.get("filesToPack") == files or moved) and st.get("names", ("?",))[0] == "call" and st["names"][1].endswith("GetNamesFromPaths") \
        and len(st["names"][3]) == 1
    if good:
        arg = st["names"][3][0]
        after = at["names"][0] > at["filesToPack"][0]
        if arg == files:
            good = not (moved and after)
        elif arg == at["filesToPack"][1]:
            good = after
        else:
            good = False
    if good:
        out.append(ok("R-MUSTCALL", inst, ca.loc(ca.body), ca.qn, "the stored path list and the name list are both taken from the sorted input list", "filesToPack = sorted; names = GetNamesFromPaths(sorted)"))
    else:
        out.append(bad("R-MUSTCALL", inst, ca.loc(ca.body), ca.qn, "the stored path list and the name list are both taken from the sorted input list", "assignments not found"))
    gn = F.fn(AR + "ArchiveFile::GetNamesFromPaths", nparams=1)
    loops = [nd for nd in gn.nodes if nd["k"] == "CXXForRangeStmt"]
    pb = [nd for nd in gn.nodes if nd["k"] == "CXXMemberCallExpr" and nd.get("fname") == "push_back"]
    inst = AR + "ArchiveFile::GetNamesFromPaths#order-preserving"
    good = len(loops) == 1 and len(pb) == 1 and gn.term(loops[0]["range"]) == ("var", gn.params[0]["n"], gn.params[0]["d"]) and \
        gn.term(pb[0]["args"][0])[0] == "call" and gn.term(pb[0]["args"][0])[1].endswith("XFile::GetFilename")
    if not good and not loops:
        # algorithm form: std::transform(paths.begin(), paths.end(), std::back_inserter(out), p -> GetFilename(p)) appends in order
        pv = ("var", gn.params[0]["n"], gn.params[0]["d"])
        for nd in gn.nodes:
            if nd["k"] in CALLS and (nd.get("fq") or "") == "std::transform" and len(nd.get("args", [])) == 4:
                a = [gn.term(x) for x in nd["args"]]
                rng = a[0][0] == "call" and a[0][1].endswith("begin") and a[0][2] == pv and a[1][0] == "call" and a[1][1].endswith("end") and a[1][2] == pv
                sink = a[2][0] == "call" and a[2][1] == "std::back_inserter"
                lam = F.functions.get(a[3][1]) if a[3][0] == "lambda" else None
                body_ok = False
                if lam is not None and len(lam.params) == 1:
                    rs = [x for x in lam.nodes if x["k"] == "ReturnStmt" and "value" in x]
                    if len(rs) == 1:
                        rt = lam.term(rs[0]["value"])
                        body_ok = rt[0] == "call" and rt[1].endswith("XFile::GetFilename") and rt[3] == (("var", lam.params[0]["n"], lam.params[0]["d"]),)
                if rng and sink and body_ok:
                    good = True
                    loops = [nd]
    if good:
        out.append(ok("R-MUSTCALL", inst, gn.loc(loops[0]["id"]), gn.qn, "names[i] = GetFilename(paths[i]) in order", "push_back in a range-for over the paths"))
    else:
        out.append(bad("R-MUSTCALL", inst, gn.loc(gn.body), gn.qn, "names[i] = GetFilename(paths[i]) in order", "shape not found"))
    return out


def uncompressed_kind(F, S):
    ph = F.fn(VOL + "::PrepareHeader", nparams=2)
    from ..through import entry_producer
    ep = entry_producer(F, ph)
    if ep:
        ph = ep["host"]
    st = [nd for nd in ph.nodes if is_store(nd) and ph.term(ph.kids(nd["id"])[0])[0] == "mem" and ph.term(ph.kids(nd["id"])[0])[2] == "compressionType"]
    en = F.enums.get(AR + "CompressionType")
    un = [e["value"] for e in en["enumerators"] if e["name"] == "Uncompressed"][0]
    inst = VOL + "::PrepareHeader#kind"
    if len(st) == 1 and ph.term(ph.kids(st[0]["id"])[1]) == ("const", un):
        return [ok("R-SEQ", inst, ph.loc(st[0]["id"]), ph.qn, "every packed member is recorded as 'uncompressed'", "compressionType = Uncompressed (%#x)" % un, nontrivial=False)]
    return [bad("R-SEQ", inst, ph.loc(ph.body), ph.qn, "every packed member is recorded as 'uncompressed'", "%d stores" % len(st))]


def check(F, run, tier):
    S = Summaries(F)
    from ..rules_archive import verified_names_final
    run.add(verified_names_final(F, S, F.fn(VOL + "::CreateArchive", nparams=2), VOL + "::CreateArchive"))
    from ..rules_archive import handlers_rethrow
    _oh, _nh = handlers_rethrow(F, S, ["/src/"])
    run.add(_oh)
    run.floor("exception-handlers", _nh, 7)
    run.declined = DECLINED
    run.explanation = (
        "Static analysis of VolFile::CreateArchive and the lookup / extraction path. Decided: R-ORDER (duplicate-name and "
        "output-names-an-input refusals and every size refusal complete before the output FileWriter is constructed; nothing "
        "that can refuse runs afterwards), R-MUSTCALL (the input list is sorted by the case-insensitive file-name comparator "
        "before anything is derived from it; names / readers / index entries are derived by order-preserving loops), R-SIB "
        "(comparator and duplicate scan shapes, Contains/GetIndex agreement on the case-blind path equality), R-ACCT (header "
        "lengths, first block offset and block chain tile the file: linear normalisation of the source expressions), "
        "R-COPYEXT (block i is header(size_i) + a copy of input i, whose Length() was recorded as size_i and which is not "
        "moved before the copy; member streams and extraction are slices of exactly the recorded block length), R-SEQ "
        "(writer emits the frozen VOL description, kind 'uncompressed').")
    run.add(c20.vol_refuse_before_create(F, S))
    run.add(c18.sort_before_layout(F, S)[:1])
    run.add(parallel_tables(F, S))
    run.add(c19.compare_path_filenames(F))
    run.add(c19.get_filename_shape(F))
    lt = F.fn("OP2Utility::StringUtility::IsEqualCaseInsensitive", nparams=2)
    from ..rules_sib import symmetric_keys, lexicographic_less
    from ..rules_sib import case_insensitive_less
    run.add(case_insensitive_less(F, lt, "OP2Utility::StringUtility::IsEqualCaseInsensitive"))
    run.add(c19.is_equal_shape(F))
    run.add(c19.duplicate_scan(F))
    run.add(c17.lookup_loops(F))
    run.add(c19.paths_are_equal(F))
    run.add(vol_accounting(F, S))
    run.add(whole_input_copied(F, S))
    obs, n = c05.member_extents(F, S)
    run.add([o for o in obs if "VolFile" in o.instance])
    run.add(uncompressed_kind(F, S))
    from ..rules_archive import extract_all_visits_every_member
    run.add(extract_all_visits_every_member(F, S))
    from ..rules_archive import extraction_always_writes
    ef = F.fn(VOL + "::ExtractFile", nparams=2, pred=lambda f: "basic_string" not in f.key.split("(")[1].split(",")[0])
    run.add(extraction_always_writes(F, ef, VOL + "::ExtractFile"))
    obs, n = seq_obligations(F, "vol", with_reader=False, min_sites=10)
    run.add(obs)
    # the copy loop transfers exactly what the reader delivers (shared with C14)
    obs, n = c14.copy_loop(F, S)
    run.add(obs)
    run.floor("obligations", len(run.obligations), 40)

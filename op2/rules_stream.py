"""Rules over the stream classes: R-ATOMIC, R-NOWRAP, R-CURSOR, R-COUNT."""
from .facts import CALLS, CTORS, fmt_term
from .flow import ACCESSORS, CFG, Engine, cond_facts, mentions, norm_cmp, fmt_fact, final_site_facts, substitute
from .prove import Width, prove_le, definitions, expand, equal_terms
from .report import ok, bad
from .extract import AnalysisBroken

ASSIGN_OPS = {"=", "+=", "-=", "*=", "/=", "%=", "<<=", ">>=", "&=", "|=", "^="}


def is_store(nd):
    k = nd["k"]
    if k in ("BinaryOperator", "CompoundAssignOperator") and nd.get("op") in ASSIGN_OPS:
        return True
    if k == "UnaryOperator" and nd.get("op") in ("++", "--"):
        return True
    return False


def this_root(t):
    """Name of the this-member an lvalue term is rooted in, else None."""
    while True:
        if t[0] == "mem":
            if t[1] == ("this",):
                return t[2]
            t = t[1]
            continue
        if t[0] == "idx":
            t = t[1]
            continue
        if t[0] == "un" and t[1] in ("*", "&"):
            t = t[2]
            continue
        if t[0] == "call" and t[2] is not None:
            if t[1].split("::")[-1] not in ACCESSORS:
                return None
            t = t[2]
            continue
        if t[0] == "size":
            t = t[1]
            continue
        return None


def block_facts(engine, fn, bid):
    obs = engine.block_in.get((fn.key, bid))
    if not obs:
        return None
    out = None
    for s in obs:
        out = set(s) if out is None else (out & s)
    return out


def elements_in_order(cfg):
    """(block, index, node id) for every statement element of the reachable CFG."""
    for b in cfg.order:
        for i, e in enumerate(cfg.blocks[b]["elems"]):
            nid = e if isinstance(e, int) else e.get("init")
            yield b, i, nid, e


# ------------------------------------------------------------------------------------------
# R-ATOMIC
def mutates_this(F, S, fn, nd):
    """this-members (transitively) changed by element nd; empty set if none."""
    out = set()
    if is_store(nd):
        ks = fn.kids(nd["id"])
        r = this_root(fn.term(ks[0]))
        if r:
            out.add(r)
        return out
    if nd["k"] in CALLS or nd["k"] in CTORS:
        def root_item(t, elem=False):
            r = this_root(t)
            if r:
                return ("this", r)
            if t == ("this",) or (t[0] == "un" and t[2] == ("this",)):
                return ("this", "*")
            return None
        for it in S.call_writes(fn, nd, root_item):
            if it[0] in ("this", "this@"):
                out.add(it[1])
    return out


def r_atomic(F, S, fn, label=None, inverse_exempt=None):
    """No store to this-state on a path that subsequently reaches a throw site.

    inverse_exempt: optional (mutator_name, inverse_name) pair naming the recorded exemption form:
    a call to `mutator_name(…, n)` followed only by its inverse `inverse_name(n)` with the same operand."""
    g = CFG(fn)
    elems = list(elements_in_order(g))
    muts, throws = [], []
    nrvo = set()
    for r in fn.nodes:
        if r["k"] == "ReturnStmt" and r.get("nrvo") and "value" in r:
            v = fn.strip(r["value"], casts=False)
            if fn.n(v)["k"] in CTORS and fn.n(v).get("copy_or_move"):
                nrvo.add(v)     # named return value: the copy is elided by g++/clang (assumption recorded)
    for (b, i, nid, e) in elems:
        nd = fn.n(nid)
        if nid in nrvo:
            continue
        m = mutates_this(F, S, fn, nd)
        if m:
            muts.append((b, i, nid, m))
        if nd["k"] in CTORS and nd.get("elidable"):
            continue      # copy elision candidate (return of a local): no call is made
        if nd["k"] == "CXXThrowExpr" or ((nd["k"] in CALLS or nd["k"] in CTORS) and S.call_may_throw(nd)):
            throws.append((b, i, nid))
    inst = label or fn.qn
    out = []
    viol = []
    for (mb, mi, mn, m) in muts:
        after = g.reachable_from(mb)
        for (tb, ti, tn) in throws:
            if tn == mn:
                continue
            later = (tb == mb and ti > mi) or (tb in after and not (tb == mb and ti <= mi and mb not in after))
            if tb == mb and ti <= mi and mb in after:
                later = True   # loop: the throw site is re-reached after the store
            if later:
                viol.append((mn, tn, m))
    if viol and inverse_exempt:
        mut_name, inv_name = inverse_exempt
        keep = []
        for (mn, tn, m) in viol:
            a, b = fn.n(mn), fn.n(tn)
            if a.get("fname") == mut_name and b.get("fname") == inv_name and a.get("args") and b.get("args") and \
                    fn.term(a["args"][-1]) == fn.term(b["args"][-1]):
                continue
            keep.append((mn, tn, m))
        if not keep:
            out.append(ok("R-ATOMIC", inst + "#inverse", fn.loc(viol[0][0]), fn.qn,
                          "state change is undone by its inverse with the same operand",
                          "%s(n) followed by %s(n) with identical n" % (mut_name, inv_name)))
        viol = keep
    if viol:
        mn, tn, m = viol[0]
        out.append(bad("R-ATOMIC", inst, fn.loc(mn), fn.qn,
                       "no change of %s before a point that can still fail" % ", ".join(sorted(m)),
                       "store at %s is followed by may-throw site at %s" % (fn.loc(mn), fn.loc(tn))))
    else:
        out.append(ok("R-ATOMIC", inst, fn.loc(fn.body), fn.qn,
                      "every throw site precedes every change of this-state",
                      "%d mutating elements, %d may-throw sites, none ordered store->throw" % (len(muts), len(throws)),
                      nontrivial=bool(muts and throws)))
    return out


# ------------------------------------------------------------------------------------------
# R-NOWRAP
def guard_blocks(engine, fn):
    """Blocks whose branch has a throw-only arm: (block, cond node, throw target, pass successor)."""
    g = engine.cfg(fn)
    out = []
    for b in g.order:
        ss = g.succ[b]
        if len(ss) != 2:
            continue
        cid = g.branch_cond(b)
        if cid is None:
            continue
        thr = [t for (t, l) in ss if engine._throws_only(g, t)]
        nxt = [t for (t, l) in ss if not engine._throws_only(g, t)]
        if len(thr) == 1 and len(nxt) == 1:
            out.append((b, cid, thr[0], nxt[0]))
    return out


def pass_point(engine, fn, b, thr, nxt):
    """First block after all guards that share the throw arm `thr` have been passed."""
    g = engine.cfg(fn)
    cur = nxt
    seen = set()
    while cur not in seen:
        seen.add(cur)
        ss = g.succ[cur]
        if len(ss) == 2 and any(t == thr or (engine._throws_only(g, t) and _same_throw(g, t, thr)) for (t, _) in ss):
            n2 = [t for (t, _) in ss if not engine._throws_only(g, t)]
            has_effect = any(isinstance(e, int) and (is_store(fn.n(e))) for e in g.blocks[cur]["elems"])
            if len(n2) == 1 and not has_effect:
                cur = n2[0]
                continue
        break
    return cur


def _same_throw(g, a, b):
    def end(x):
        seen = set()
        while x not in g.throws and x not in seen and len(g.succ[x]) == 1:
            seen.add(x)
            x = g.succ[x][0][0]
        return x
    return end(a) == end(b)


def r_nowrap(F, engine, fn, invariants=(), label=None, entry=frozenset(), delegate=None, call_args=False):
    """Every arithmetic sub-expression of a throwing bounds guard is wrap-free.

    invariants: facts assumed at entry (class invariants established by R-CURSOR)."""
    engine.analyze(fn, frozenset(entry) | frozenset(invariants))
    g = engine.cfg(fn)
    W = Width(fn)
    out = []
    inst0 = label or fn.qn
    gbs = guard_blocks(engine, fn)
    eb = g.elem_block()
    work = list(gbs)
    if call_args:
        # arithmetic handed to a bounds-checking callee (or to resize) is checked there on the value it
        # receives, so it must not have wrapped on the way
        for nd in fn.nodes:
            if nd["k"] not in CALLS:
                continue
            args = nd.get("args", [])
            if nd["k"] == "CXXOperatorCallExpr":
                continue
            hot = []
            if nd.get("fname") == "resize" and (nd.get("mrec") or "").startswith("std::") and args:
                hot = [args[0]]
            else:
                for cal in F.callees(nd):
                    ce = Engine(F, engine.S)
                    for (cb, ccid, cthr, cnxt) in guard_blocks(ce, cal):
                        for i, p in enumerate(cal.params):
                            if i < len(args) and mentions(cal.term(ccid), ("var", p["n"], p["d"])):
                                hot.append(args[i])
            for a in hot:
                work.append((None, a, None, None))
    for (b, cid, thr, nxt) in work:
        # arithmetic inside the condition, plus inside the initialiser of locals it mentions
        roots = [cid]
        for x in fn.subtree(cid):
            nd = fn.n(x)
            if nd["k"] == "DeclRefExpr" and nd.get("dk") == "local":
                for d in fn.nodes:
                    if d["k"] == "DeclStmt":
                        for dd in d.get("decls", []):
                            if dd.get("d") == nd.get("d") and "init" in dd:
                                roots.append(dd["init"])
        seen = set()
        for r in roots:
            for (x, base) in W.arith_nodes(r):
                if x in seen:
                    continue
                seen.add(x)
                nd = fn.n(x)
                ks = fn.kids(x)
                lt, rt = fn.term(ks[0]), fn.term(ks[1])
                st = fn.term(x)
                inst = "%s#%s" % (inst0, fmt_term(st))
                req = "guard arithmetic %s cannot wrap" % fmt_term(st)
                if not W.may_wrap(x, base):
                    out.append(ok("R-NOWRAP", inst, fn.loc(x), fn.qn, req,
                                  "width domain: needs %d bits, type has %s" % (W.needed(x), nd.get("iw")),
                                  nontrivial=True))
                    continue
                site = final_site_facts(engine, fn, x) or set()
                if base == "-":
                    if lt[0] == "const" and lt[1] >= (1 << W.needed(ks[1])) - 1:
                        out.append(ok("R-NOWRAP", inst, fn.loc(x), fn.qn, req,
                                      "subtrahend's type maximum does not exceed the constant minuend"))
                        continue
                    if prove_le(site, rt, lt):
                        out.append(ok("R-NOWRAP", inst, fn.loc(x), fn.qn, req,
                                      "subtraction form: %s <= %s holds at the site" % (fmt_term(rt), fmt_term(lt))))
                    else:
                        out.append(bad("R-NOWRAP", inst, fn.loc(x), fn.qn, req,
                                       "unsigned subtraction without a dominating fact %s <= %s" % (fmt_term(rt), fmt_term(lt))))
                    continue
                if base == "+":
                    iw = nd.get("iw") or 64
                    tmax = ("const", (1 << iw) - 1)
                    # pre-check idiom: y > MAX - x refused before the sum is formed
                    if b is not None:
                        pp = pass_point(engine, fn, b, thr, nxt)
                        pf = block_facts(engine, fn, pp) or set()
                    else:
                        pf = set()
                    # the idioms below are matched on facts restated through the locals' definitions
                    # (`avail = MAX - n; if (k > avail) throw;` is the pre-check `k <= MAX - n`)
                    from .prove import definitions as _defs, expand as _expand
                    _d = _defs(site | pf)
                    _d = {k: v for k, v in _d.items() if k not in (lt, rt)}

                    def _x(fs):
                        o = set(fs)
                        for f in fs:
                            if f[0] in ("<", "<=", "==", "!="):
                                o.add((f[0], _expand(f[1], _d), _expand(f[2], _d)))
                        return o
                    site = _x(site)
                    pf = _x(pf)
                    # bounded-sum idiom: y <= L - x with x <= L, so x + y <= L fits the type
                    bounded = False
                    for (u, v) in ((lt, rt), (rt, lt)):
                        for f in site:
                            if f[0] in ("<=", "<") and f[1] == v and f[2][0] == "op" and f[2][1] == "-" and f[2][3] == u \
                                    and prove_le(site, u, f[2][2]):
                                bounded = True
                    if bounded:
                        out.append(ok("R-NOWRAP", inst, fn.loc(x), fn.qn, req,
                                      "bounded-sum idiom: operand <= limit - other operand with other operand <= limit"))
                        continue
                    pre = False
                    for (u, v) in ((lt, rt), (rt, lt)):
                        for f in site | pf:
                            if f[0] in ("<=", "<") and f[1] == v and f[2][0] == "op" and f[2][1] == "-" \
                                    and f[2][3] == u and f[2][2][0] == "const" and f[2][2][1] <= tmax[1]:
                                pre = True
                    if pre:
                        out.append(ok("R-NOWRAP", inst, fn.loc(x), fn.qn, req,
                                      "pre-check idiom: operand <= MAX - other operand is established on the same "
                                      "refusal arm before the guarded action"))
                        continue
                    # post-check idiom: sum < operand is refused on the same throw arm
                    post = prove_le(pf, lt, st) or prove_le(pf, rt, st)
                    if post:
                        out.append(ok("R-NOWRAP", inst, fn.loc(x), fn.qn, req,
                                      "post-check idiom: operand <= sum holds once the guards are passed"))
                        continue
                    if delegate is not None:
                        why = delegate(fn, x, lt, rt)
                        if why:
                            out.append(ok("R-NOWRAP", inst, fn.loc(x), fn.qn, req, why))
                            continue
                    out.append(bad("R-NOWRAP", inst, fn.loc(x), fn.qn, req,
                                   "%s may exceed %d bits (needs %d) and neither a pre-check (x > MAX - y) nor a post-check "
                                   "(sum < x) discharges it" % (fmt_term(st), iw, W.needed(x))))
                    continue
                out.append(bad("R-NOWRAP", inst, fn.loc(x), fn.qn, req,
                               "%s may exceed its %s-bit type (needs %d bits)" % (fmt_term(st), nd.get("iw"), W.needed(x))))
    return out, len(gbs)


# ------------------------------------------------------------------------------------------
# R-CURSOR
def cursor_stores(fn, field):
    tgt = ("mem", ("this",), field)
    out = []
    for nd in fn.nodes:
        if is_store(nd):
            ks = fn.kids(nd["id"])
            if fn.term(ks[0]) == tgt:
                out.append(nd)
    return out


def r_cursor(F, engine, cls, cursor, limit_term, nowrap_ok=lambda fn, nid: False):
    """Every store to this->cursor preserves cursor <= limit (inductive over the class's methods)."""
    rec = F.record(cls)
    cur = ("mem", ("this",), cursor)
    inv = norm_cmp("<=", cur, limit_term)
    out = []
    nstores = 0
    access = {m["key"]: m.get("access") for m in rec["methods"]}
    ctx_eng = None
    for fn in sorted(F.functions.values(), key=lambda f: f.key):
        if fn.cls != cls:
            continue
        if fn.d.get("ctor"):
            for ini in fn.d.get("inits", []):
                if ini.get("field") == cursor:
                    nstores += 1
                    engine.analyze(fn, frozenset())
                    t = fn.term(ini["init"])
                    site = final_site_facts(engine, fn, ini["init"]) or set()
                    inst = "%s::%s#ctor-init" % (cls, cursor)
                    if fn.d.get("copy_ctor"):
                        out.append(ok("R-CURSOR", inst + "-copy", fn.loc(ini["init"]), fn.qn, fmt_fact(inv),
                                      "copy of an object that satisfies the invariant", nontrivial=False))
                    elif prove_le(site, t, limit_term):
                        out.append(ok("R-CURSOR", inst, fn.loc(ini["init"]), fn.qn, fmt_fact(inv),
                                      "initialised to %s" % fmt_term(t)))
                    else:
                        out.append(bad("R-CURSOR", inst, fn.loc(ini["init"]), fn.qn, fmt_fact(inv),
                                       "initial value %s not bounded by %s" % (fmt_term(t), fmt_term(limit_term))))
        stores = cursor_stores(fn, cursor)
        if not stores:
            continue
        private = access.get(fn.key) == "private" and not fn.d.get("ctor")
        if private:
            # a private helper cannot be called from outside, and may run while its caller has the object mid-update: its
            # stores are judged in the contexts the class's other operations call it in
            if ctx_eng is None:
                ctx_eng = type(engine)(F, engine.S)
                for pf in sorted(F.functions.values(), key=lambda f: f.key):
                    if pf.cls == cls and pf.cfg and not pf.d.get("ctor") and not pf.d.get("implicit") and access.get(pf.key) != "private":
                        ctx_eng.analyze(pf, frozenset([inv]))
            eng = ctx_eng
        else:
            engine.analyze(fn, frozenset([inv]))
            eng = engine
        for nd in stores:
            nstores += 1
            site = final_site_facts(eng, fn, nd["id"])
            if site is None:
                continue

            def judge(site):
                ks = fn.kids(nd["id"])
                op = nd.get("op")
                inst = "%s#%s%s" % (fn.qn, cursor, op)
                okd = None
                if op == "=":
                    v = fn.term(ks[1])
                    if prove_le(site, v, limit_term):
                        okd = "%s <= %s holds at the store" % (fmt_term(v), fmt_term(limit_term))
                    req = "%s <= %s before `%s = %s`" % (fmt_term(v), fmt_term(limit_term), cursor, fmt_term(v))
                elif op == "+=":
                    v = fn.term(ks[1])
                    req = "%s <= %s - %s before `%s += %s`" % (fmt_term(v), fmt_term(limit_term), cursor, cursor, fmt_term(v))
                    if prove_le(site, v, ("op", "-", limit_term, cur)):
                        okd = "subtraction form: %s <= %s - %s" % (fmt_term(v), fmt_term(limit_term), cursor)
                    elif (prove_le(site, ("op", "+", cur, v), limit_term) or prove_le(site, ("op", "+", v, cur), limit_term)):
                        # the sum form is only meaningful if the guard's own sum cannot wrap
                        if nowrap_ok(fn, nd["id"]):
                            okd = "sum form with wrap-free guard"
                        else:
                            okd = None
                            req += " (the guard %s + %s <= %s holds only modulo 2^64)" % (cursor, fmt_term(v), fmt_term(limit_term))
                elif op == "-=":
                    v = fn.term(ks[1])
                    req = "%s <= %s before `%s -= %s`" % (fmt_term(v), cursor, cursor, fmt_term(v))
                    if prove_le(site, v, cur):
                        okd = "%s <= %s holds at the store" % (fmt_term(v), cursor)
                elif op == "++":
                    req = "%s < %s before increment" % (cursor, fmt_term(limit_term))
                    if prove_le(site, cur, limit_term, strict=True):
                        okd = "strict bound holds"
                elif op == "--":
                    req = "0 < %s before decrement" % cursor
                    if prove_le(site, ("const", 0), cur, strict=True):
                        okd = "strict bound holds"
                else:
                    req = "recognised invariant-preserving store form"
                return okd, req, inst
            if private:
                # each calling context on its own (what bounds the advance differs from caller to caller)
                verdicts = [judge(set(o)) for o in eng.site.get((fn.key, nd["id"]), [])]
                okd, req, inst = verdicts[0]
                for v in verdicts:
                    if not v[0]:
                        okd, req, inst = v
                        break
            else:
                okd, req, inst = judge(site)
            if okd:
                out.append(ok("R-CURSOR", inst, fn.loc(nd["id"]), fn.qn, req, okd))
            else:
                out.append(bad("R-CURSOR", inst, fn.loc(nd["id"]), fn.qn, req,
                               "store `%s` is not in an invariant-preserving form; facts at site: %s" % (
                                   fmt_term(fn.term(nd["id"])),
                                   "; ".join(sorted(fmt_fact(f) for f in site if f[0] != "ev" and f[0] != "called")) or "none")))
    return out, nstores


# ------------------------------------------------------------------------------------------
# R-COUNT
def r_count(F, engine, fn):
    """In a ReadPartial override: returned value == copied length == cursor advance."""
    engine.analyze(fn, frozenset())
    out = []
    rets = [nd for nd in fn.nodes if nd["k"] == "ReturnStmt" and "value" in nd]
    if len(rets) != 1:
        raise AnalysisBroken("R-COUNT: %s has %d return statements (shape not recognised)" % (fn.qn, len(rets)))
    ret = rets[0]
    site = final_site_facts(engine, fn, ret["id"]) or set()
    defs = definitions(site)
    # definitions may have been killed by later stores; collect local single-assignment initialisers too
    for nd in fn.nodes:
        if nd["k"] == "DeclStmt":
            for d in nd.get("decls", []):
                if "init" in d and "d" in d:
                    v = ("var", d["n"], d["d"])
                    nstores = sum(1 for s in fn.nodes if is_store(s) and fn.term(fn.kids(s["id"])[0]) == v)
                    if nstores == 0:
                        defs.setdefault(v, fn.term(d["init"]))
    R = fn.term(ret["value"])
    Rx = expand(R, defs)
    deliveries = []
    # the function's own statements, and those of the helpers it runs on the same object (`CopyAndAdvance(buffer, n)`), read
    # in this function's frame: the helper's parameters stand for the arguments it is handed
    from .flow import substitute
    bodies = [(fn, None, None)]
    for nd in fn.nodes:
        if nd["k"] == "CXXMemberCallExpr" and "obj" in nd and fn.term(nd["obj"]) == ("this",) and nd.get("fname") != "ReadPartial":
            cals = [c for c in engine.F.callees(nd) if c.cfg and c.cls == fn.cls and c.key != fn.key]
            if len(cals) == 1 and len(cals[0].params) == len(nd.get("args", [])):
                sub = {("var", p["n"], p["d"]): fn.term(a) for p, a in zip(cals[0].params, nd["args"])}
                bodies.append((cals[0], sub, nd))

    def inframe(b, sub, t):
        return substitute(t, sub) if sub else t
    for b, sub, at in bodies:
        for nd in b.nodes:
            if nd["k"] in CALLS:
                nm = nd.get("fname")
                if nm == "memcpy" and len(nd.get("args", [])) == 3:
                    deliveries.append(("memcpy", at or nd, inframe(b, sub, b.term(nd["args"][2]))))
                elif nm == "ReadPartial":
                    deliveries.append(("delegate", at or nd, inframe(b, sub, b.term(nd["id"]))))
                elif nm == "read" and (nd.get("mrec") or "").startswith("std::basic_istream") and b is fn:
                    deliveries.append(("istream", nd, fn.term(nd["obj"])))
    if not deliveries:
        # the read may sit in a helper on the same object (`ReadAndReset(buffer, size)`): what matters is which stream it
        # reads, because the count returned must be that stream's gcount()
        for nd in fn.nodes:
            if nd["k"] == "CXXMemberCallExpr" and "obj" in nd and fn.term(nd["obj"]) == ("this",):
                for cal in engine.F.callees(nd):
                    for x in cal.nodes:
                        if x["k"] == "CXXMemberCallExpr" and x.get("fname") == "read" and (x.get("mrec") or "").startswith("std::basic_istream") \
                                and cal.term(x["obj"])[0] == "mem" and cal.term(x["obj"])[1] == ("this",):
                            deliveries.append(("istream", nd, cal.term(x["obj"])))
            elif nd["k"] in CALLS and nd.get("args"):
                # ... or in a helper that is handed the stream itself by reference
                for cal in engine.F.callees(nd):
                    for x in cal.nodes:
                        if x["k"] == "CXXMemberCallExpr" and x.get("fname") == "read" and (x.get("mrec") or "").startswith("std::basic_istream"):
                            ot = cal.term(x["obj"])
                            ix = [i for i, p in enumerate(cal.params) if ("var", p["n"], p["d"]) == ot and p.get("ref") and i < len(nd["args"])]
                            if ix:
                                deliveries.append(("istream", nd, fn.term(nd["args"][ix[0]])))
    if not deliveries:
        raise AnalysisBroken("R-COUNT: no delivery primitive recognised in %s" % fn.qn)
    inst = fn.qn
    for kind, nd, t in deliveries:
        if kind == "memcpy":
            if expand(t, defs) == Rx:
                out.append(ok("R-COUNT", inst + "#copy", fn.loc(nd["id"]), fn.qn,
                              "copied length == returned count", "both are %s" % fmt_term(R)))
            else:
                out.append(bad("R-COUNT", inst + "#copy", fn.loc(nd["id"]), fn.qn,
                               "copied length == returned count",
                               "memcpy length %s, returned %s" % (fmt_term(t), fmt_term(R))))
        elif kind == "delegate":
            if Rx == expand(t, defs):
                out.append(ok("R-COUNT", inst + "#delegate", fn.loc(nd["id"]), fn.qn,
                              "returned count is the wrapped ReadPartial's result", fmt_term(R)))
            else:
                out.append(bad("R-COUNT", inst + "#delegate", fn.loc(nd["id"]), fn.qn,
                               "returned count is the wrapped ReadPartial's result", "returned %s" % fmt_term(R)))
        elif kind == "istream":
            good = Rx[0] == "call" and Rx[1].endswith("::gcount") and Rx[2] == t
            if good:
                out.append(ok("R-COUNT", inst + "#gcount", fn.loc(nd["id"]), fn.qn,
                              "returned count is gcount() of the stream that was read", fmt_term(R)))
            else:
                out.append(bad("R-COUNT", inst + "#gcount", fn.loc(nd["id"]), fn.qn,
                               "returned count is gcount() of the stream that was read", "returned %s" % fmt_term(R)))
    # cursor advance: every store to an integer this-member adds exactly the returned count
    for b, sub, at in bodies:
        for nd in b.nodes:
            if is_store(nd):
                ks = b.kids(nd["id"])
                lt = b.term(ks[0])
                if lt[0] == "mem" and lt[1] == ("this",) and b.n(ks[0]).get("iw"):
                    op = nd.get("op")
                    adv = inframe(b, sub, b.term(ks[1])) if len(ks) > 1 else None
                    where = fn.loc((at or nd)["id"])
                    if op == "+=" and adv is not None and expand(adv, defs) == Rx:
                        out.append(ok("R-COUNT", inst + "#advance", where, fn.qn,
                                      "cursor advances by the returned count", "%s += %s" % (lt[2], fmt_term(adv))))
                    else:
                        out.append(bad("R-COUNT", inst + "#advance", where, fn.qn,
                                       "cursor advances by the returned count",
                                       "`%s`, returned count is %s" % (fmt_term(inframe(b, sub, b.term(nd["id"]))), fmt_term(R))))
    return out


# ------------------------------------------------------------------------------------------
# R-GUARD: a bounds guard refuses exactly the out-of-bounds arguments
def poly(t):
    """Polynomial normal form of a value term over Z: {sorted tuple of atoms: coefficient} (the empty tuple is the constant).
    +, - and * are expanded; everything else (shifts, masks, members, calls) is an atom. Two terms with the same normal form
    denote the same value wherever neither wraps."""
    if t[0] == "const":
        return {(): t[1]} if t[1] else {}
    if t[0] == "initlist" and len(t[1]) == 1:
        return poly(t[1][0])            # `std::size_t{32}`
    if t[0] == "op" and t[1] in ("+", "-"):
        a, b = poly(t[2]), poly(t[3])
        out = dict(a)
        for k, v in b.items():
            out[k] = out.get(k, 0) + (v if t[1] == "+" else -v)
        return {k: v for k, v in out.items() if v}
    if t[0] == "op" and t[1] == "*":
        a, b = poly(t[2]), poly(t[3])
        out = {}
        for ka, va in a.items():
            for kb, vb in b.items():
                k = tuple(sorted(ka + kb, key=repr))
                out[k] = out.get(k, 0) + va * vb
        return {k: v for k, v in out.items() if v}
    if t[0] == "op" and t[1] == "<<" and t[3][0] == "const" and 0 <= t[3][1] < 64:
        return {k: v << t[3][1] for k, v in poly(t[2]).items()}          # x << k  is  x * 2^k (modulo the width, like *)
    if t[0] == "op" and t[1] == "|":
        # a | b with a a multiple of 2^k and b = (anything & m), 0 <= m < 2^k: no bit in common, so a | b is a + b
        for a, b in ((t[2], t[3]), (t[3], t[2])):
            if b[0] == "op" and b[1] == "&" and (b[3][0] == "const" or b[2][0] == "const"):
                m = b[3][1] if b[3][0] == "const" else b[2][1]
                pa = poly(a)
                if m >= 0 and pa and all(v % (1 << m.bit_length()) == 0 for v in pa.values()):
                    out = dict(pa)
                    for k, v in poly(b).items():
                        out[k] = out.get(k, 0) + v
                    return {k: v for k, v in out.items() if v}
    return {(t,): 1}


def linear(t):
    """Linear form of a value term over Z: ({atom: coef}, const). Non-arithmetic terms are atoms."""
    if t[0] == "const":
        return {}, t[1]
    if t[0] == "op" and t[1] in ("+", "-"):
        a, ca = linear(t[2])
        b, cb = linear(t[3])
        sgn = 1 if t[1] == "+" else -1
        out = dict(a)
        for k, v in b.items():
            out[k] = out.get(k, 0) + sgn * v
        return {k: v for k, v in out.items() if v != 0}, ca + sgn * cb
    if t[0] == "op" and t[1] == "*" and (t[2][0] == "const" or t[3][0] == "const"):
        c, o = (t[2][1], t[3]) if t[2][0] == "const" else (t[3][1], t[2])
        a, ca = linear(o)
        return {k: v * c for k, v in a.items() if v * c != 0}, ca * c
    return {t: 1}, 0


def lin_diff(hi, lo):
    a, ca = linear(hi)
    b, cb = linear(lo)
    out = dict(a)
    for k, v in b.items():
        out[k] = out.get(k, 0) - v
    return frozenset((k, v) for k, v in out.items() if v != 0), ca - cb


def r_guard_exact(F, engine, fn, specs, invariants=(), label=None, optional=False, _depth=0, no_other=False):
    """specs: list of (X, Y) value terms; the operation is in bounds iff X <= Y (over Z). Every throwing guard of fn
    must refuse exactly Y < X, or be a recognised wrap refusal, or be trivially false."""
    engine.analyze(fn, frozenset(invariants))
    g = engine.cfg(fn)
    out = []
    inst0 = label or fn.qn
    gbs = guard_blocks(engine, fn)
    strict_in = [len(sp) > 2 and bool(sp[2]) for sp in specs]   # in bounds iff X < Y (refusal Y <= X)
    specs = [(sp[0], sp[1]) for sp in specs]
    targets = [lin_diff(x, y) for (x, y) in specs]      # X - Y  (> 0 means out of bounds; >= 0 for strict specs)
    matched = set()
    for (b, cid, thr, nxt) in gbs:
        truth = [l for (t, l) in g.succ[b] if t == thr][0]
        cfs = cond_facts(fn, cid, truth)
        if not cfs or any(f[0] in ("true", "false") and f[1][0] == "var" for f in cfs):
            # a named condition that is a disjunction of refusals (`const bool bad = wraps || tooLong; if (bad) throw`):
            # each disjunct is a refusal of its own, exactly as when the disjunction is written in the `if`
            from .prove import term_cond_facts as _tcf
            tt = fn.xterm(cid)
            parts = []
            def _split(t0, op):
                if t0[0] == "op" and t0[1] == op:
                    _split(t0[2], op)
                    _split(t0[3], op)
                else:
                    parts.append(t0)
            _split(tt, "||" if truth else "&&")
            alt = set()
            for d0 in parts:
                alt |= _tcf(d0, truth)
            if alt:
                cfs = alt
        site = final_site_facts(engine, fn, cid) or set()
        defs = definitions(site)
        # (the bounds are read through the same definitions as the guard: `const auto i = f(x); if (i >= n) throw; v[i]`)
        targets = [lin_diff(expand(x, defs), expand(y, defs)) for (x, y) in specs]
        for f in cfs:
            inst = "%s#guard:%s" % (inst0, fmt_fact(f))
            req = "the refusal condition is exactly the out-of-bounds condition (%s)" % " or ".join(
                "%s %s %s" % (fmt_term(x), ">=" if st else ">", fmt_term(y)) for (x, y), st in zip(specs, strict_in))
            if f[0] not in ("<", "<="):
                if not optional or no_other:
                    out.append(bad("R-GUARD", inst, fn.loc(cid), fn.qn, req, "refusal condition `%s` is not a bounds comparison" % fmt_fact(f)))
                continue
            L, R = expand(f[1], defs), expand(f[2], defs)
            # trivially false: constant on the left at least the type maximum of the right operand
            if L[0] == "const" and L[1] >= (1 << 64) - 1:
                out.append(ok("R-GUARD", inst, fn.loc(cid), fn.qn, req, "never true for a 64-bit operand (refuses nothing)", nontrivial=False))
                continue
            # wrap post-check: sum < operand
            if f[0] == "<" and L[0] == "op" and L[1] == "+" and R in (L[2], L[3]):
                out.append(ok("R-GUARD", inst, fn.loc(cid), fn.qn, req, "wrap refusal: sum < operand (the true sum exceeds 2^64)"))
                continue
            # wrap pre-check: MAX - u < v
            if f[0] == "<" and L[0] == "op" and L[1] == "-" and L[2][0] == "const" and L[2][1] in ((1 << 64) - 1, (1 << 32) - 1):
                out.append(ok("R-GUARD", inst, fn.loc(cid), fn.qn, req, "wrap refusal: operand > MAX - other operand"))
                continue
            d = lin_diff(R, L)          # R - L > 0 (or >= 0) is refused
            hit = [i for i, t in enumerate(targets) if t == d]
            if hit and strict_in[hit[0]]:
                if f[0] == "<=":
                    matched.add(hit[0])
                    out.append(ok("R-GUARD", inst, fn.loc(cid), fn.qn, req, "refuses exactly %s >= %s" % (fmt_term(specs[hit[0]][0]), fmt_term(specs[hit[0]][1]))))
                else:
                    out.append(bad("R-GUARD", inst, fn.loc(cid), fn.qn, req,
                                   "off by one: `%s` accepts the out-of-bounds boundary value %s == %s" % (
                                       fmt_fact(f), fmt_term(specs[hit[0]][0]), fmt_term(specs[hit[0]][1]))))
            elif hit and f[0] == "<":
                matched.add(hit[0])
                out.append(ok("R-GUARD", inst, fn.loc(cid), fn.qn, req, "refuses exactly %s > %s" % (fmt_term(specs[hit[0]][0]), fmt_term(specs[hit[0]][1]))))
            elif hit:
                out.append(bad("R-GUARD", inst, fn.loc(cid), fn.qn, req,
                               "off by one: `%s` also refuses the in-bounds boundary value %s == %s" % (
                                   fmt_fact(f), fmt_term(specs[hit[0]][0]), fmt_term(specs[hit[0]][1]))))
            else:
                # same linear form up to a constant -> off by a constant
                near = [i for i, t in enumerate(targets) if t[0] == d[0]]
                if near:
                    out.append(bad("R-GUARD", inst, fn.loc(cid), fn.qn, req,
                                   "refusal `%s` differs from the bounds condition by the constant %d" % (fmt_fact(f), d[1] - targets[near[0]][1])))
                elif not optional or no_other:
                    out.append(bad("R-GUARD", inst, fn.loc(cid), fn.qn, req, "refusal `%s` is not the bounds condition" % fmt_fact(f)))
    missing = [i for i in range(len(specs)) if i not in matched]
    if missing and not optional and _depth < 2:
        # the refusal may have been extracted into a checking helper the function calls with the same operands
        from .facts import CALLS as _CALLS
        for nd in sorted([n for n in fn.nodes if n["k"] in _CALLS and n.get("args")], key=lambda n: n["id"]):
            for h in F.callees(nd):
                if not h.cfg or h.key == fn.key:
                    continue
                if S_may_write(F, h):
                    continue
                m = {}
                for a, prm in zip(nd["args"], h.params):
                    m[fn.term(a)] = ("var", prm["n"], prm["d"])
                sub_specs = []
                for i in list(missing):
                    x, y = specs[i]
                    x2, y2 = substitute(x, m), substitute(y, m)
                    if x2 != x or y2 != y:
                        sub_specs.append((i, (x2, y2, strict_in[i])))
                if not sub_specs:
                    continue
                o2 = r_guard_exact(F, type(engine)(F, engine.S), h, [sp for _, sp in sub_specs], invariants=(), label=inst0, optional=False, _depth=_depth + 1)
                if o2 and all(o.status == "discharged" for o in o2):
                    out += o2
                    for i, _sp in sub_specs:
                        matched.add(i)
                        if i in missing:
                            missing.remove(i)
    for i, (x, y) in enumerate(specs):
        if i not in matched and not optional:
            out.append(bad("R-GUARD", "%s#missing:%s>%s" % (inst0, fmt_term(x), fmt_term(y)), fn.loc(fn.body), fn.qn,
                           "a guard refuses %s > %s" % (fmt_term(x), fmt_term(y)), "no throwing guard with that condition"))
    return out


def S_may_write(F, h):
    """A checking helper only refuses: it stores nothing (cheap syntactic test)."""
    return any(is_store(nd) for nd in h.nodes)


# ------------------------------------------------------------------------------------------
def subscript_guards_exact(F, S, scope, functions=None):
    """R-GUARD: where a function both subscripts a container with some index and refuses on a condition that is a bound on
    that same index (the same linear form up to a constant), the refusal is exactly `index >= size()`: it turns away
    neither a valid index (such as the last one) nor lets size() itself through. Refusals about other quantities are not
    judged here. Returns (obligations, number of guards judged)."""
    from .rules_archive import subscript_sites
    out = []
    fns = functions if functions is not None else [f for f in F.functions.values() if any(x in f.file for x in scope)]
    for fn in sorted(fns, key=lambda f: f.key):
        if not fn.cfg or fn.d.get("implicit"):
            continue
        subs = [(b, i) for (nd, b, i, ext) in subscript_sites(fn) if ext is None]
        if not subs:
            continue
        eng = Engine(F, S)
        if not guard_blocks(eng, fn):
            continue
        seen = set()
        specs = []
        for (b, i) in subs:
            if (b, i) not in seen:
                seen.add((b, i))
                specs.append((i, ("size", b), True))
        out += r_guard_exact(F, eng, fn, specs, optional=True, label=fn.qn + "#subscript-guard")
    return out, len(out)


CAPACITIES = {(1 << 8) - 1: "UINT8_MAX", (1 << 15) - 1: "INT16_MAX", (1 << 16) - 1: "UINT16_MAX", (1 << 31) - 1: "INT32_MAX",
              (1 << 32) - 1: "UINT32_MAX", (1 << 63) - 1: "INT64_MAX", (1 << 64) - 1: "UINT64_MAX"}


def capacity_refusals_exact(F, S, scope, functions=None):
    """R-GUARD: a refusal that compares a quantity with a constant at the edge of an integer type's range refuses exactly
    the values above that type's maximum: `v > MAX` (or `v >= MAX + 1`). `v >= MAX` / `v > MAX - 1` turn away the largest
    representable value (which a reader of the same field accepts), `v > MAX + 1` lets an unrepresentable one through.
    Comparisons with constants that are not within 2 of such a maximum are other limits and are not judged.
    Returns (obligations, number judged)."""
    out = []
    fns = functions if functions is not None else [f for f in F.functions.values() if any(x in f.file for x in scope)]
    for fn in sorted(fns, key=lambda f: f.key):
        if not fn.cfg or fn.d.get("implicit"):
            continue
        eng = Engine(F, S)
        gbs = guard_blocks(eng, fn)
        if not gbs:
            continue
        g = eng.cfg(fn)
        for (b, cid, thr, nxt) in gbs:
            truth = [l for (t, l) in g.succ[b] if t == thr][0]
            for f in cond_facts(fn, cid, truth):
                if f[0] not in ("<", "<=") or f[1][0] != "const" or f[2][0] == "const":
                    continue
                lo = f[1][1] + (1 if f[0] == "<" else 0)        # smallest refused value
                near = [c for c in CAPACITIES if abs((lo - 1) - c) <= 2]
                if not near:
                    continue
                cap = near[0]
                inst = "%s#capacity-refusal:%s" % (fn.qn, fmt_fact(f))
                req = "a refusal at the edge of an integer range refuses exactly the values above %s" % CAPACITIES[cap]
                if lo - 1 == cap:
                    out.append(ok("R-GUARD", inst, fn.loc(cid), fn.qn, req, "refuses %s > %d" % (fmt_term(f[2]), cap)))
                elif lo - 1 < cap:
                    out.append(bad("R-GUARD", inst, fn.loc(cid), fn.qn, req,
                                   "`%s` also refuses %d..%d, representable values that the field's reader accepts" % (fmt_fact(f), lo, cap)))
                else:
                    out.append(bad("R-GUARD", inst, fn.loc(cid), fn.qn, req,
                                   "`%s` lets %d..%d through, which do not fit" % (fmt_fact(f), cap + 1, lo - 1)))
    return out, len(out)

"""Class invariants: facts over this-members established by every constructor and never invalidated."""
from .flow import Engine, mentions, subterms, substitute
from .prove import definitions, expand


def _this_fields(f):
    out = set()
    for s in subterms(f):
        if s[0] == "mem" and s[1] == ("this",):
            out.add(s[2])
    return out


def _only_this_terms(f):
    for s in subterms(f):
        if s[0] == "var":
            return False
    return True


def exit_member_facts(F, S, fn, entry=frozenset()):
    """Comparison facts over this-members only that hold at every normal exit of fn."""
    eng = Engine(F, S)
    ex = eng.analyze(fn, entry)
    if ex is None:
        return set()
    defs = {}
    # at the exit of a constructor, parameters that initialised members can be replaced by them
    for f in ex:
        if f[0] == "==":
            for (x, y) in ((f[1], f[2]), (f[2], f[1])):
                if x[0] == "var" and y[0] == "mem" and y[1] == ("this",):
                    defs.setdefault(x, y)
    out = set()
    for f in ex:
        if f[0] not in ("<", "<=", "==", "!="):
            continue
        g = substitute(f, defs)
        if g[0] == "==" and g[1] == g[2]:
            continue
        if _only_this_terms(g) and _this_fields(g):
            out.add(g)
    return out


_callers_cache = {}


def callers_map(F):
    key = id(F)
    if key not in _callers_cache:
        cm = {}
        for fn in F.functions.values():
            for nd in fn.all_calls():
                for cal in F.callees(nd):
                    cm.setdefault(cal.key, set()).add(fn.key)
        _callers_cache[key] = cm
    return _callers_cache[key]


def ctor_only_functions(F, cls):
    """Non-public member functions of cls all of whose (transitive) callers are constructors of cls."""
    cm = callers_map(F)
    rec = F.record(cls)
    access = {m["key"]: m["access"] for m in rec["methods"]}
    cands = {f.key for f in F.functions.values() if f.cls == cls and not f.d.get("ctor") and access.get(f.key) != "public"}
    ctors = {f.key for f in F.functions.values() if f.cls == cls and f.d.get("ctor")}
    good = set()
    changed = True
    while changed:
        changed = False
        for k in cands - good:
            cs = cm.get(k, set())
            if cs and all(c in ctors or c in good for c in cs):
                good.add(k)
                changed = True
    return good


def class_invariants(F, S, cls, extra_ok_writers=()):
    """Facts over this-members that (1) hold at the normal exit of every non-copy constructor,
    (2) mention only members that no non-constructor function of the class stores to (const
    members qualify trivially), and (3) are carried by copy/move constructors member-for-member.
    Returns (facts, explanation list)."""
    rec = F.record(cls)
    ctors = [f for f in F.functions.values() if f.cls == cls and f.d.get("ctor")]
    main = [f for f in ctors if not f.d.get("copy_ctor")]
    copies = [f for f in ctors if f.d.get("copy_ctor")]
    if not main:
        return set(), ["no constructor bodies found"]
    common = None
    for c in main:
        fx = exit_member_facts(F, S, c)
        common = fx if common is None else (common & fx)
    common = common or set()
    # members written outside constructors (functions called only from constructors count as constructor code)
    ctor_only = ctor_only_functions(F, cls)
    written = set()
    for fn in F.functions.values():
        if fn.cls != cls or fn.d.get("ctor"):
            continue
        if fn.key in extra_ok_writers or fn.key in ctor_only:
            continue
        for it in S.writes(fn):
            if it[0] == "this":
                written.add(it[1])
            elif it[0] == "this@":
                written.add(it[1] + "[]")
    notes = []
    out = set()
    for f in common:
        fields = _this_fields(f)
        if "*" in written or fields & written:
            notes.append("dropped (member written outside constructors): %s" % (f,))
            continue
        carried = True
        for c in copies:
            if any(i.get("delegating") for i in c.d.get("inits", [])):
                continue        # runs a full (non-copy) constructor of the class: whatever those establish holds
            inits = {i.get("field"): i for i in c.d.get("inits", []) if "field" in i}
            for fld in fields:
                ini = inits.get(fld)
                if not ini:
                    carried = False
                    break
                t = c.term(ini["init"])
                if not (t[0] == "mem" and t[2] == fld) and not (t[0] == "ctor" and t[2] and t[2][0][0] == "mem" and t[2][0][2] == fld):
                    carried = False
                    break
        if not carried:
            notes.append("dropped (copy constructor does not carry it): %s" % (f,))
            continue
        out.add(f)
    return out, notes

#!/usr/bin/env python3
"""Prints spec/names.json: for every repo record, its data members in declaration order with their canonical types.
Bootstrap helper: run once on the reviewed tree, output frozen. NOT run by any check.
The checks use it only to recognise a *pure rename* of a data member (same type, same relative position, old name gone,
new name new) and to read the renamed member under its frozen name, so that the format descriptions, which name members,
stay comparable. Nothing here describes behaviour."""
import json, sys
sys.path.insert(0, '/verif')
from op2.facts import Facts
F = Facts()
out = {}
for q, r in sorted(F.records.items()):
    if not q.startswith("OP2Utility") or not r.get("fields"):
        continue
    out[q] = [[f["name"], f["ct"]] for f in r["fields"]]
# private / file-local helpers with exactly one caller: if such a helper is later inlined into that caller, the rules that
# anchor on the helper look at the caller instead (Facts.fn falls back to it)
from op2.invariants import callers_map
cm = callers_map(F)
access = {}
for r in F.records.values():
    for m in r["methods"]:
        access[m["key"]] = m["access"]
hosts = {}
for fn in F.functions.values():
    if not fn.file.startswith("/repo/src") or fn.d.get("ctor") or fn.d.get("implicit") or fn.d.get("lambda") or fn.d.get("virtual"):
        continue
    if fn.cls and access.get(fn.key) == "public":
        continue
    cs = sorted(c for c in cm.get(fn.key, set()) if c != fn.key)
    if len(cs) == 1 and cs[0] in F.functions:
        c = F.functions[cs[0]]
        hosts["%s/%d" % (fn.qn, len(fn.params))] = {"qn": c.qn, "nparams": len(c.params), "key": c.key}
    elif 1 < len(cs) <= 3 and all(c in F.functions and F.functions[c].cls == fn.cls and fn.cls for c in cs):
        # a few callers in the same class (e.g. a shared constructor body): after inlining, the statements live in the largest
        c = max((F.functions[c] for c in cs), key=lambda f: len(f.nodes))
        hosts["%s/%d" % (fn.qn, len(fn.params))] = {"qn": c.qn, "nparams": len(c.params), "key": c.key, "one_of": len(cs)}
# private / file-local helpers by signature: a *pure rename* of such a helper (old name gone, a never-seen name with the identical
# signature in the same scope) is read under its frozen name (Facts._canonicalise_function_names)
priv = {}
names = set()
for fn in F.functions.values():
    if not fn.file.startswith("/repo/src"):
        continue
    names.add(fn.qn)
    if fn.d.get("ctor") or fn.d.get("implicit") or fn.d.get("lambda") or fn.d.get("virtual") or fn.name.startswith("operator") or fn.name.startswith("~"):
        continue
    if fn.cls and access.get(fn.key, fn.d.get("access")) == "public":
        continue
    if not fn.cls and fn.d.get("in_header", True):
        continue
    priv[fn.key] = {"qn": fn.qn, "name": fn.name, "scope": fn.cls or fn.qn.rsplit("::", 1)[0], "ret_ct": fn.d.get("ret_ct"),
                    "const": bool(fn.d.get("const")), "static": bool(fn.d.get("static"))}
print(json.dumps({"records": out, "single_caller_helpers": hosts, "private_functions": priv, "function_names": sorted(names)}, indent=1))

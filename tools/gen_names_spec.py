#!/usr/bin/env python3
"""Prints spec/names.json: for every repo record, its data members in declaration order with their canonical types.
Bootstrap helper: run once on the reviewed tree, output frozen. NOT run by any check.
The checks use it only to recognise a *pure rename* of a data member (same type, same relative position, old name gone,
new name new) and to read the renamed member under its frozen name, so that the format descriptions, which name members,
stay comparable. Nothing here describes behaviour."""
import json, sys
sys.path.insert(0, '/verif')
from op2.facts import Facts
F = Facts()
out = {}
for q, r in sorted(F.records.items()):
    if not q.startswith("OP2Utility") or not r.get("fields"):
        continue
    out[q] = [[f["name"], f["ct"]] for f in r["fields"]]
print(json.dumps({"records": out}, indent=1))

#!/usr/bin/env python3
"""Runs every behaviour-preserving refactoring (benign/<id>/patch.diff) against all claimed checks, each on its own scratch
copy of /repo, and writes benign/STATUS.json + benign/STATUS.md. Every check is expected to exit 0 on every one of them: an
exit 1 is a false alarm to correct in the rule (or a refactoring that is not behaviour-preserving after all - triaged by
hand in meta.json "triage"), an exit 2 is a lost anchor. Development / calibration tool: not a check.
usage: tools/benign_status.py [name ...]"""
import concurrent.futures
import glob
import json
import os
import shutil
import subprocess
import sys
import tempfile

V = "/verif"
props = [c["property_id"] for c in json.load(open(V + "/MANIFEST.json"))["checks"]]
only = sys.argv[1:]


def run_patch(item):
    name, path = item
    scratch = tempfile.mkdtemp(prefix="op2verif-benign-")
    try:
        dst = os.path.join(scratch, "repo")
        os.makedirs(dst)
        for sub in ("src", "include", "makefile"):
            s = os.path.join("/repo", sub)
            if os.path.isdir(s):
                shutil.copytree(s, os.path.join(dst, sub))
            else:
                shutil.copy2(s, os.path.join(dst, sub))
        a = subprocess.run(["git", "apply", "--whitespace=nowarn", path], cwd=dst, capture_output=True, text=True)
        if a.returncode != 0:
            return name, None
        res = {}
        for p in props:
            o = subprocess.run([V + "/check", p, "--no-evidence", "--repo", dst], capture_output=True, text=True, cwd=V)
            if o.returncode != 0:
                lines = [l.strip() for l in o.stdout.splitlines() if l.strip().startswith(("violated:", "found:", "ANALYSIS-BROKEN"))]
                res[p] = {"exit": o.returncode, "lines": lines[:8]}
        return name, res
    finally:
        shutil.rmtree(scratch, ignore_errors=True)
        for d in glob.glob(V + "/.cache/alt-*"):
            try:
                meta = json.load(open(os.path.join(d, "meta.json")))
                if meta.get("repo", "").startswith(scratch):
                    shutil.rmtree(d, ignore_errors=True)
            except Exception:
                pass


def main():
    items = [(os.path.basename(d), d + "/patch.diff") for d in sorted(glob.glob(V + "/benign/C*-b*"))]
    status = {}
    if os.path.exists(V + "/benign/STATUS.json"):
        status = json.load(open(V + "/benign/STATUS.json"))
    todo = [it for it in items if not only or it[0] in only]
    with concurrent.futures.ThreadPoolExecutor(max_workers=5) as ex:
        for name, res in ex.map(run_patch, todo):
            if res is None:
                status[name] = {"applies": False}
                print(name, "does not apply", flush=True)
                continue
            status[name] = {"applies": True, "alarms": {p: r for p, r in res.items() if r["exit"] == 1},
                            "broken": {p: r for p, r in res.items() if r["exit"] == 2}}
            print(name, "->", "silent" if not res else {p: r["exit"] for p, r in res.items()}, flush=True)
            for p, r in res.items():
                for l in r["lines"][:4]:
                    print("     ", p, l[:220], flush=True)
    names = {it[0] for it in items}
    status = {k: v for k, v in status.items() if k in names}
    json.dump(status, open(V + "/benign/STATUS.json", "w"), indent=1, sort_keys=True)
    with open(V + "/benign/STATUS.md", "w") as fh:
        fh.write("| refactoring | kind | applies | checks raising VIOLATION | checks answering analysis-broken |\n|---|---|---|---|---|\n")
        for n, s in sorted(status.items()):
            try:
                kind = json.load(open(os.path.join(V, "benign", n, "meta.json"))).get("kind", "")
            except Exception:
                kind = ""
            if not s.get("applies"):
                fh.write("| %s | %s | no | | |\n" % (n, kind))
            else:
                fh.write("| %s | %s | yes | %s | %s |\n" % (n, kind, " ".join(sorted(s["alarms"])) or "none", " ".join(sorted(s["broken"])) or "none"))


if __name__ == "__main__":
    main()

#!/usr/bin/env python3
"""Prints spec/refusals.json: for every validator the rules refer to, the refusals it performs (abstract form, see
op2/rules_valid.py). Bootstrap helper: run once on the reviewed tree, output frozen. NOT run by any check."""
import json, sys
sys.path.insert(0, '/verif')
from op2.facts import Facts
from op2.flow import Summaries
from op2.rules_valid import refusals_of
F = Facts()
S = Summaries(F)
out = {}
for fn in sorted(F.functions.values(), key=lambda f: f.key):
    if not fn.file.startswith("/repo/src") or not fn.cfg or fn.d.get("implicit") or fn.d.get("lambda"):
        continue
    nm = fn.name
    if not (nm.startswith("Validate") or nm.startswith("Verify") or nm.startswith("Check") or nm in ("Validate",)):
        continue
    if fn.qn in out:
        continue        # overloads: the first (they delegate to one another)
    r = refusals_of(F, S, fn)
    if r:
        out[fn.qn] = r
print(json.dumps({"validators": out}, indent=1))

#!/usr/bin/env python3
"""Runs every seeded change (seeded/<id>/patch.diff) and every catalogue mutation (mutations/*.patch) against all claimed
checks on /repo (apply, run, restore) and writes seeded/STATUS.json + seeded/STATUS.md. Development / calibration tool: not a check."""
import json, os, subprocess, sys, glob
V = "/verif"
props = [c["property_id"] for c in json.load(open(V + "/MANIFEST.json"))["checks"]]
only = sys.argv[1:]


def run_patch(path):
    r = subprocess.run(["git", "-C", "/repo", "apply", path], capture_output=True, text=True)
    if r.returncode != 0:
        return None
    res = {}
    try:
        for p in props:
            o = subprocess.run([V + "/check", p, "--no-evidence"], capture_output=True, text=True, cwd=V)
            if o.returncode == 1:
                rules = sorted({l.split("[")[1].split("]")[0] for l in o.stdout.splitlines() if l.strip().startswith("violated:")})
                res[p] = {"exit": 1, "rules": rules}
            elif o.returncode == 2:
                res[p] = {"exit": 2, "rules": []}
    finally:
        subprocess.run(["git", "-C", "/repo", "checkout", "--", "."])
    return res


status = {}
items = []
for d in sorted(glob.glob(V + "/seeded/C*-*")):
    items.append(("seed", os.path.basename(d), d + "/patch.diff"))
for f in sorted(glob.glob(V + "/mutations/*.patch")):
    items.append(("mutation", os.path.basename(f)[:-6], f))
old = {}
if os.path.exists(V + "/seeded/STATUS.json"):
    old = json.load(open(V + "/seeded/STATUS.json"))
for kind, name, path in items:
    if only and name not in only:
        if name in old:
            status[name] = old[name]
        continue
    res = run_patch(path)
    if res is None:
        status[name] = {"kind": kind, "applies": False}
        print(name, "does not apply")
        continue
    det = sorted(p for p, r in res.items() if r["exit"] == 1)
    brk = sorted(p for p, r in res.items() if r["exit"] == 2)
    status[name] = {"kind": kind, "applies": True, "violation_reported_by": det, "analysis_broken_in": brk,
                    "rules": {p: r["rules"] for p, r in res.items() if r["exit"] == 1}}
    print(name, "->", det, ("broken:" + ",".join(brk)) if brk else "")
    if kind == "seed":
        mp = os.path.join(V, "seeded", name, "meta.json")
        try:
            m = json.load(open(mp))
        except Exception:
            m = {}
        m["confirmed"] = open(os.path.join(V, "seeded", name, "confirm.log")).read().count("== ") >= 4 if os.path.exists(os.path.join(V, "seeded", name, "confirm.log")) else False
        m["confirmed_by"] = "tools/confirm_seed.sh in a scratch worktree: baseline build + demo passes, patched build passes the 141 tests, patched demo fails"
        m["checks_reporting_violation"] = det
        m["checks_reporting_analysis_broken"] = brk
        json.dump(m, open(mp, "w"), indent=1)
json.dump(status, open(V + "/seeded/STATUS.json", "w"), indent=1)
with open(V + "/seeded/STATUS.md", "w") as fh:
    fh.write("| change | kind | applies | VIOLATION reported by | rules | analysis-broken in |\n|---|---|---|---|---|---|\n")
    for n, s in sorted(status.items()):
        if not s.get("applies"):
            fh.write("| %s | %s | no (tree changed since it was recorded) | | | |\n" % (n, s["kind"]))
            continue
        rules = sorted({r for rs in s.get("rules", {}).values() for r in rs})
        fh.write("| %s | %s | yes | %s | %s | %s |\n" % (n, s["kind"], " ".join(s["violation_reported_by"]) or "**none**", " ".join(rules), " ".join(s["analysis_broken_in"])))

#!/usr/bin/env python3
"""Runs every seeded change (seeded/<id>/patch.diff) and every catalogue mutation (mutations/*.patch) against all claimed
checks, each on its own scratch copy of /repo (so /repo itself is never touched and runs proceed in parallel), and
writes seeded/STATUS.json + seeded/STATUS.md. Development / calibration tool: not a check.
usage: tools/seed_status.py [name ...]   (no names: everything)"""
import concurrent.futures
import glob
import json
import os
import shutil
import subprocess
import sys
import tempfile

V = "/verif"
props = [c["property_id"] for c in json.load(open(V + "/MANIFEST.json"))["checks"]]
only = sys.argv[1:]


def run_patch(item):
    kind, name, path = item
    scratch = tempfile.mkdtemp(prefix="op2verif-status-")
    try:
        dst = os.path.join(scratch, "repo")
        os.makedirs(dst)
        for sub in ("src", "include", "makefile"):
            s = os.path.join("/repo", sub)
            if os.path.isdir(s):
                shutil.copytree(s, os.path.join(dst, sub))
            else:
                shutil.copy2(s, os.path.join(dst, sub))
        a = subprocess.run(["git", "apply", "--whitespace=nowarn", path], cwd=dst, capture_output=True, text=True)
        if a.returncode != 0:
            return name, kind, None
        res = {}
        for p in props:
            o = subprocess.run([V + "/check", p, "--no-evidence", "--repo", dst], capture_output=True, text=True, cwd=V)
            if o.returncode == 1:
                rules = sorted({l.split("[")[1].split("]")[0] for l in o.stdout.splitlines() if l.strip().startswith("violated:")})
                res[p] = {"exit": 1, "rules": rules}
            elif o.returncode == 2:
                res[p] = {"exit": 2, "rules": []}
        return name, kind, res
    finally:
        shutil.rmtree(scratch, ignore_errors=True)
        for d in glob.glob(V + "/.cache/alt-*"):
            try:
                meta = json.load(open(os.path.join(d, "meta.json")))
                if meta.get("repo", "").startswith(scratch):
                    shutil.rmtree(d, ignore_errors=True)
            except Exception:
                pass


def main():
    items = []
    for d in sorted(glob.glob(V + "/seeded/C*-*")):
        items.append(("seed", os.path.basename(d), d + "/patch.diff"))
    for f in sorted(glob.glob(V + "/mutations/*.patch")):
        items.append(("mutation", os.path.basename(f)[:-6], f))
    status = {}
    if os.path.exists(V + "/seeded/STATUS.json"):
        status = json.load(open(V + "/seeded/STATUS.json"))
    todo = [it for it in items if not only or it[1] in only]
    with concurrent.futures.ThreadPoolExecutor(max_workers=6) as ex:
        for name, kind, res in ex.map(run_patch, todo):
            if res is None:
                status[name] = {"kind": kind, "applies": False}
                print(name, "does not apply", flush=True)
                continue
            det = sorted(p for p, r in res.items() if r["exit"] == 1)
            brk = sorted(p for p, r in res.items() if r["exit"] == 2)
            status[name] = {"kind": kind, "applies": True, "violation_reported_by": det, "analysis_broken_in": brk,
                            "rules": {p: r["rules"] for p, r in res.items() if r["exit"] == 1}}
            print(name, "->", det, ("broken:" + ",".join(brk)) if brk else "", flush=True)
            if kind == "seed":
                mp = os.path.join(V, "seeded", name, "meta.json")
                try:
                    m = json.load(open(mp))
                except Exception:
                    m = {}
                cl = os.path.join(V, "seeded", name, "confirm.log")
                m["confirmed"] = os.path.exists(cl) and open(cl).read().count("== ") >= 4
                m["confirmed_by"] = ("tools/confirm_seed.sh in a scratch worktree: baseline build + demo passes, patched build "
                                     "passes the 141 tests, patched demo fails")
                m["checks_reporting_violation"] = det
                m["checks_reporting_analysis_broken"] = brk
                json.dump(m, open(mp, "w"), indent=1)
    names = {it[1] for it in items}
    status = {k: v for k, v in status.items() if k in names}
    json.dump(status, open(V + "/seeded/STATUS.json", "w"), indent=1, sort_keys=True)
    with open(V + "/seeded/STATUS.md", "w") as fh:
        fh.write("| change | kind | applies | VIOLATION reported by | rules | analysis-broken in |\n|---|---|---|---|---|---|\n")
        for n, s in sorted(status.items()):
            if not s.get("applies"):
                fh.write("| %s | %s | no (tree changed since it was recorded) | | | |\n" % (n, s["kind"]))
                continue
            rules = sorted({r for rs in s.get("rules", {}).values() for r in rs})
            fh.write("| %s | %s | yes | %s | %s | %s |\n" % (n, s["kind"], " ".join(s["violation_reported_by"]) or "**none**",
                                                          " ".join(rules), " ".join(s["analysis_broken_in"])))


if __name__ == "__main__":
    main()

#!/bin/bash
# usage: tools/run_seeded.sh <seed-name>... ; applies seeded/<name>/patch.diff to /repo, runs every claimed check, restores.
cd /verif
props=$(python3 -c "import json;print(' '.join(c['property_id'] for c in json.load(open('MANIFEST.json'))['checks']))")
for s in "$@"; do
  if ! git -C /repo apply /verif/seeded/$s/patch.diff 2>/dev/null; then echo "$s: PATCH-DOES-NOT-APPLY"; continue; fi
  hits=""
  for p in $props; do
    out=$(./check $p --no-evidence 2>&1); c=$?
    if [ $c -eq 1 ]; then hits="$hits $p"; echo "$out" | grep -E "^  violated:" | head -3 | sed "s/^/    [$s] /"; fi
    if [ $c -eq 2 ]; then hits="$hits $p(broken)"; echo "$out" | grep ANALYSIS-BROKEN | head -2 | sed "s/^/    [$s] /"; fi
  done
  git -C /repo checkout -- .
  echo "$s: detected-by:${hits:- NONE}"
done
